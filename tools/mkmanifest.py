#!/venv/bin/python
"""Regenerates /verif/MANIFEST.json from the table below and validates it against the schema."""
import json
import os
import sys

VERIF = os.path.dirname(os.path.dirname(os.path.abspath(__file__)))

TRUST = (
    "Trusted base: numpy/scipy LAPACK (eigvalsh, eigh, qr, svd) and the harness's own re-implementation of the "
    "documented preprocessing as reference model; xarray label-based selection for reading results back; the "
    "statsmodels import stub (only needed to construct xeofs.cross classes; correction= is never passed). "
    "Held means: held on the executions listed in the evidence file, nothing more."
)

# id -> (technique, level text, design ref)
CHECKS = {
    "C01": (
        "reference-model monitor (independent eigvalsh oracle on every fit) + icontract post-conditions on Decomposer.fit / _SVD.fit_transform + SVD back-end trace",
        "Every generated fit (class x solver x spectrum x shape x scale 1e-8..1e8 x flags) is compared with an independent eigen-decomposition of the independently preprocessed input; exact-solver paths at 1e-9, randomised paths two-sided at 1e-6 where the method promises accuracy and one-sided (interlacing, Eckart-Young) always.",
        "5/C01",
    ),
    "C02": (
        "conservation monitor (icontract post-condition on Preprocessor.fit_transform decoding unique cell ids) + round-trip oracle by label over an enumerated (pairwise / 3-wise covering) layout space",
        "Every cell of the input carries a unique id encoding its label tuple; the stacked 2-D matrix must contain each non-missing cell exactly once with one sample label per row and one feature label per column, inverse_transform_data(fit_transform(X)) must return X at every label with the same container/variables/dimension sets/label sets, transform() must rebuild the same matrix, and an EOF fit on the layout must return components/scores/reconstructions with the stated dimensions.",
        "5/C02",
    ),
    "C03": (
        "reference-model monitor (the user's own input is the oracle for full-mode reconstruction) + relation monitors (transform(inverse_transform(s)) == s, normalized switches differ by the norms)",
        "For EOF/ComplexEOF/HilbertEOF and the real/complex/Hilbert CPCCA family over all preprocessing flags, alpha, PCA, containers: full-mode inverse_transform(scores()) equals the input in physical units; random score arrays round-trip; normalized switches differ exactly by the per-mode norms.",
        "5/C03",
    ),
    "C04": (
        "relation monitor between two executions on one object: transform(training data) vs scores(), rows matched by label",
        "Every transform-capable class x configuration cell (alpha grid, PCA, rotation power 1-3, normalized, containers, fully missing samples/features) is fitted and transform(X_fit) is compared with scores(): values, dims, sample labels, mode order and sign.",
        "5/C04",
    ),
    "C05": (
        "relation monitors on out-of-sample transforms: labels taken from the new data, additivity under concatenation (all split points for n<=8), subset consistency with scores()",
        "Per fitted model and new data set (1..N samples, disjoint/overlapping/equal/repeated coordinates, several sample dims, sample MultiIndex): result labelled by the new data, no spurious NaN, transform(concat(A,B)) == concat(transform(A), transform(B)), transform(X_fit[idx]) == scores()[idx].",
        "5/C05",
    ),
    "C06": (
        "reference-model monitor (reduced-fit oracle in numpy + xeofs fit on the physically reduced object) + refusal monitor + icontract post-condition on Sanitizer.transform + FP-error recorder",
        "All fully-missing masks of a 6x4 input (thorough: exhaustive for that sub-space) plus sampled masks on grids/Datasets/lists/cross-set/rotated models: the fit equals the reduced fit, NaN reappears at exactly the deleted labels, isolated NaNs and mismatching masks are refused, no result contains values derived from NaN.",
        "5/C06",
    ),
    "C07": (
        "relation monitor between a base fit and a fit of a re-laid-out copy (transpose, feature/sample permutation, variable/list partition, dimension names), compared by label",
        "Every class x transformation cell: singular values, components at each label and scores must be unchanged (scores permuted with the samples); real decompositions without any alignment, complex ones modulo one phase per mode.",
        "5/C07",
    ),
    "C08": (
        "relation monitor between a fit and a fit of an independently transformed copy (shift, affine rescaling, pre-multiplied weights, coslat vs explicit weights, global factor) + trace of the options Scaler.fit actually received",
        "Each relation is asserted for single- and cross-set models over containers and weight forms with tolerances from an explicit error model; shifts/scalings span 1e-6..1e6.",
        "5/C08",
    ),
    "C09": (
        "reference-model monitor: independent fractionally whitened cross-covariance (eigh powers, 1/(N-1)) + QR/SVD canonical correlations + Pearson oracle for every reported correlation/pattern",
        "Every generated cross-set fit (MCA/CCA/RDA/CPCCA x real/Complex/Hilbert x alpha in [0,1]^2 x PCA on/off x n_modes) is compared with the oracle: reported singular values proportional to sigma(K) with the factor (N/(N-1))^((2-ax-ay)/2), score cross-covariance diagonal, MCA orthonormality and SCF, CCA canonical correlations, every correlation within [-1,1] and equal to np.corrcoef.",
        "5/C09",
    ),
    "C10": (
        "relation monitor between two executions (named method vs general method, model pairs on the same data), per-mode sign/phase aligned where the statement allows it",
        "Each listed pair (MCA/CCA/RDA vs CPCCA at the special alpha, MCA(X,X) vs EOF, Complex-on-real vs real, ExtendedEOF(embedding=1) vs EOF, SparsePCA(0,0) vs EOF, PCA 'all' vs none, multi-set vs cross-set CCA) is fitted on generated data with drawn free parameters and compared at 1e-9 (1e-4 for the regularised multi-set solver).",
        "5/C10",
    ),
    "C11": (
        "relation monitor (rotated vs unrotated reconstruction) + icontract post-conditions on _varimax/_promax (R unitary, Xrot = X R) + capture wrapper on promax for the sign/ordering oracle",
        "For every base model x rotator x power 1-4 x spectrum class the rotator's reconstruction is compared with the unrotated one, ordering/sign convention/unitarity/variance conservation/Varimax criterion are asserted where the statement and the mathematics support them (power 1 only for the orthogonal-rotation clauses).",
        "5/C11",
    ),
    "C12": (
        "trace checker over dask scheduler events (harness-owned scheduler callable + dask Callback with injected sleeps) + counting-source monitor (chunk loads of the user's array observed when the stored input is evaluated) + relation monitor dask fit vs numpy fit (results, transform, reconstruction)",
        "Every scheduler entry during fit(compute=False, check_nans=False) / rotator.fit(compute=False) is an observed event carrying the innermost xeofs frame (must be zero); results must be dask-backed before and numpy after compute(); the computed model is compared with the numpy fit for every class x chunk layout x scheduler (sync, 1/2/4/16 threads, injected delays); evidence lists the distinct task-completion orders actually observed; the computed model must also transform / reconstruct like the in-memory one, eager dask fits with fully missing features and samples are compared too, and evaluating the stored input must read chunks from the user's source.",
        "5/C12",
    ),
    "C13": (
        "relation monitor: model vs type(model).deserialize(codec(model.serialize())) for the identity, netCDF-attribute and JSON codecs, with/without placeholders, after histories",
        "Every model class x input structure x parameter-value kind x user-attribute dictionary x codec: equal get_params(), identical components/scores/transform/inverse_transform/predict; exceptions inside codec/deserialize/query are violations with the offending attribute named.",
        "5/C13",
    ),
    "C14": (
        "history checker against a sequential specification (answers == Q(fresh model fitted on the last fit's arguments)) after every operation of random call sequences + input-immutability monitor (deep snapshot / identical) + source-free failpoints (sys.monitoring LINE events inside xeofs/: a fit or transform interrupted at a chosen statement, stratified by source file, then a refit)",
        "Random histories (quick <= 8, thorough <= 20 ops) over fit/transform/inverse_transform/queries/compute/serialize/rotator.fit/bootstrapper.fit (one aged bootstrapper object)/failing fits/interrupted fits and transforms on one object for every class, the answers including every argument-free public accessor found by introspection and a fit of data with a coordinate-less dimension under the immutability monitor; all ordered pairs fit(Da);fit(Db) of a 4-member data pool (every third case with MultiIndex samples) are enumerated; evidence lists injections and distinct statement sites.",
        "5/C14",
    ),
    "C15": (
        "reference-model monitor (eigvalsh threshold oracle, principal angles) + back-end trace (which SVD routine ran, which kwargs/seed arrived) + bit-identity relation between seeded runs + icontract post-conditions on Decomposer/_SVD",
        "Threshold count, exact-vs-randomised agreement on gapped spectra, 'auto' selecting only between the two back-ends (trace + bit-identity with one of them), seed reproducibility for numpy/complex/dask, sign convention, and solver_kwargs pass-through for every class advertising them are decided on generated matrices with prescribed spectra.",
        "5/C15",
    ),
    "C16": (
        "reference-model monitor (independent eigh fractional powers) + icontract post-conditions on Whitener.fit / PCA.fit (T, Tinv Hermitian and mutually inverse, V orthonormal)",
        "Whitener and PCA are driven directly on centred matrices (n>p, cond up to 1e6, up to 600 features, real/complex, alpha in [0,1], numpy and dask; every third object aged by a prior fit on other data): cov(Xw)=C^alpha, round trips of data and patterns, T/Tinv algebra and the leading subspace are compared with the oracle.",
        "5/C16",
    ),
    "C17": (
        "fault enumeration: single-fault mutations of valid calls, exception-or-return observed at the API boundary",
        "Every (fault, entry point, class, container) combination of the catalogue is executed after the un-mutated call has been shown to work; a mutated call that returns is a violation; negative controls from the property text are executed and never judged.",
        "5/C17",
    ),
    "C18": (
        "reference-model monitor: independent lag-1 feedback matrix A and its eigen-structure (eigen-residual in PC coordinates, conjugate closure, damping/period formulas) + noise-free oscillators with known eigenvalues",
        "Random red-noise and synthetic damped oscillators x PCA on/off x flags: A p = lambda p, conjugate pairs, damping = -1/log|lambda|, period = 2 pi / arg lambda, ordering by coefficient std, transform(X_fit) == scores(), recovered periods/damping times of noise-free oscillators.",
        "5/C18",
    ),
    "C19": (
        "reference-model monitor (own lag-sum estimator, generalised symmetric eigenproblem via scipy.linalg.eigh) + icontract post-condition on OPA._Ctau (every lagged covariance the code forms)",
        "White noise and AR(1) mixtures x tau_max x n_pca_modes x n_modes: uncorrelated equal-norm scores, bi-orthogonality, each reported decorrelation time equals the trapezoidal lag sum of its own series, descending order, first mode beats 200 random combinations and equals the largest generalised eigenvalue.",
        "5/C19",
    ),
    "C20": (
        "trace monitor M-RES (recording subclass replaces the inner EOF of the bootstrapper: one event per member with the resampled matrix) + per-member eigen oracle + seed relations",
        "Per fitted EOF model x n_bootstraps 1..50 x seeds: exactly n_bootstraps resamples drawn with replacement from the model's own rows, member variances/components are those of the resample's EOF, scores are projections of the original samples, orientation non-negative, same seed reproduces, structure and member dimension preserved for every container and dimension naming.",
        "5/C20",
    ),
}

NOT_APPLICABLE = []  # filled automatically for properties whose check is not built yet
ALL = [f"C{i:02d}" for i in range(1, 21)]


def main():
    checks = []
    for pid, (tech, text, ref) in sorted(CHECKS.items()):
        checks.append(
            {
                "property_id": pid,
                "quick_cmd": f"./check {pid} quick",
                "thorough_cmd": f"./check {pid} thorough",
                "evidence_file": f"/verif/evidence/{pid}.json",
                "replay_cmd_template": f"./check {pid} --replay {{path}}",
                "engine": "xv-runtime-monitor",
                "level_claimed": {
                    "category": "fault_enumeration" if pid == "C17" else "exploration",
                    "text": text,
                    "design_ref": f"DESIGN.md section {ref}",
                },
                "level_note": TRUST,
                "technique": tech,
            }
        )
    na = list(NOT_APPLICABLE) + [
        {"property_id": p, "reason": "check not built yet (work in progress); the technique applies, see DESIGN.md section 5"}
        for p in ALL
        if p not in CHECKS and p not in {x["property_id"] for x in NOT_APPLICABLE}
    ]
    m = {
        "version": 1,
        "setup_cmd": "/venv/bin/python -c \"import sys; sys.path.insert(0, '/verif'); from xv import boot; sys.exit(0 if boot.ensure_deps() else 1)\"",
        "hooks": {
            "guard": "XEOFS_VERIF",
            "enable": "no build step: checks start fresh /venv/bin/python interpreters that import /repo's working tree (editable install, /repo first on sys.path) with XEOFS_VERIF=1; all monitors are installed from the harness by wrapping module attributes (icontract post-conditions, back-end and scheduler recorders); nothing in /repo is guarded because no hook lives there",
            "baseline_off_cmd": "cd /repo && env -u XEOFS_VERIF /venv/bin/python -m pytest -ra -q -p no:cacheprovider --timeout=900 --continue-on-collection-errors",
            "source_commits": [],
            "add_only": True,
        },
        "engines": [
            {
                "name": "xv-runtime-monitor",
                "path": "/verif/xv",
                "serves_properties": sorted(CHECKS),
                "kind_free_text": "runtime monitoring: seeded hostile workloads on the real code, reference-model / relation / trace / history oracles evaluated on every execution, icontract post-conditions on inner functions, known-finding classifier by mechanism tags",
            }
        ],
        "checks": checks,
        "notes": "Exit codes: 0 held on everything explored; 1 + 'VIOLATION property=<id> replay=<path>' for a violation not listed in known_findings.json; 2 + 'INCONCLUSIVE ...' when a deciding monitor was never reached, a worker died or a watchdog fired (never folded into held or violated). VERIF_SEED selects the random part of each workload; the structured corpus is seed independent.",
        "not_applicable": na,
    }
    path = os.path.join(VERIF, "MANIFEST.json")
    with open(path, "w") as f:
        json.dump(m, f, indent=1)
    try:
        sys.path.insert(0, "/opt/veriftools/pyvenv/lib/python3.11/site-packages")
        import jsonschema

        jsonschema.validate(m, json.load(open("/root/.vp/MANIFEST.schema.json")))
        print("MANIFEST.json valid,", len(checks), "checks")
    except ImportError:
        print("jsonschema unavailable; not validated")


if __name__ == "__main__":
    main()
