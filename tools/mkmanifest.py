#!/venv/bin/python
"""Regenerates /verif/MANIFEST.json from the table below and validates it against the schema."""
import json
import os
import sys

VERIF = os.path.dirname(os.path.dirname(os.path.abspath(__file__)))

TRUST = (
    "Trusted base: numpy/scipy LAPACK (eigvalsh, eigh, qr, svd) and the harness's own re-implementation of the "
    "documented preprocessing as reference model; xarray label-based selection for reading results back; the "
    "statsmodels import stub (only needed to construct xeofs.cross classes; correction= is never passed). "
    "Held means: held on the executions listed in the evidence file, nothing more."
)

# id -> (technique, level text, design ref)
CHECKS = {
    "C01": (
        "reference-model monitor (independent eigvalsh oracle on every fit) + icontract post-conditions on Decomposer.fit / _SVD.fit_transform + SVD back-end trace",
        "Every generated fit (class x solver x spectrum x shape x scale 1e-8..1e8 x flags) is compared with an independent eigen-decomposition of the independently preprocessed input; exact-solver paths at 1e-9, randomised paths two-sided at 1e-6 where the method promises accuracy and one-sided (interlacing, Eckart-Young) always.",
        "5/C01",
    ),
    "C09": (
        "reference-model monitor: independent fractionally whitened cross-covariance (eigh powers, 1/(N-1)) + QR/SVD canonical correlations + Pearson oracle for every reported correlation/pattern",
        "Every generated cross-set fit (MCA/CCA/RDA/CPCCA x real/Complex/Hilbert x alpha in [0,1]^2 x PCA on/off x n_modes) is compared with the oracle: reported singular values proportional to sigma(K) with the factor (N/(N-1))^((2-ax-ay)/2), score cross-covariance diagonal, MCA orthonormality and SCF, CCA canonical correlations, every correlation within [-1,1] and equal to np.corrcoef.",
        "5/C09",
    ),
    "C10": (
        "relation monitor between two executions (named method vs general method, model pairs on the same data), per-mode sign/phase aligned where the statement allows it",
        "Each listed pair (MCA/CCA/RDA vs CPCCA at the special alpha, MCA(X,X) vs EOF, Complex-on-real vs real, ExtendedEOF(embedding=1) vs EOF, SparsePCA(0,0) vs EOF, PCA 'all' vs none, multi-set vs cross-set CCA) is fitted on generated data with drawn free parameters and compared at 1e-9 (1e-4 for the regularised multi-set solver).",
        "5/C10",
    ),
    "C11": (
        "relation monitor (rotated vs unrotated reconstruction) + icontract post-conditions on _varimax/_promax (R unitary, Xrot = X R) + capture wrapper on promax for the sign/ordering oracle",
        "For every base model x rotator x power 1-4 x spectrum class the rotator's reconstruction is compared with the unrotated one, ordering/sign convention/unitarity/variance conservation/Varimax criterion are asserted where the statement and the mathematics support them (power 1 only for the orthogonal-rotation clauses).",
        "5/C11",
    ),
    "C12": (
        "trace checker over dask scheduler events (harness-owned scheduler callable + dask Callback with injected sleeps) + relation monitor dask fit vs numpy fit",
        "Every scheduler entry during fit(compute=False, check_nans=False) / rotator.fit(compute=False) is an observed event carrying the innermost xeofs frame (must be zero); results must be dask-backed before and numpy after compute(); the computed model is compared with the numpy fit for every class x chunk layout x scheduler (sync, 1/2/4/16 threads, injected delays); evidence lists the distinct task-completion orders actually observed.",
        "5/C12",
    ),
    "C15": (
        "reference-model monitor (eigvalsh threshold oracle, principal angles) + back-end trace (which SVD routine ran, which kwargs/seed arrived) + bit-identity relation between seeded runs + icontract post-conditions on Decomposer/_SVD",
        "Threshold count, exact-vs-randomised agreement on gapped spectra, 'auto' selecting only between the two back-ends (trace + bit-identity with one of them), seed reproducibility for numpy/complex/dask, sign convention, and solver_kwargs pass-through for every class advertising them are decided on generated matrices with prescribed spectra.",
        "5/C15",
    ),
    "C16": (
        "reference-model monitor (independent eigh fractional powers) + icontract post-conditions on Whitener.fit / PCA.fit (T, Tinv Hermitian and mutually inverse, V orthonormal)",
        "Whitener and PCA are driven directly on centred matrices (n>p, cond up to 1e6, real/complex, alpha in [0,1], numpy and dask): cov(Xw)=C^alpha, round trips of data and patterns, T/Tinv algebra and the leading subspace are compared with the oracle.",
        "5/C16",
    ),
    "C17": (
        "fault enumeration: single-fault mutations of valid calls, exception-or-return observed at the API boundary",
        "Every (fault, entry point, class, container) combination of the catalogue is executed after the un-mutated call has been shown to work; a mutated call that returns is a violation; negative controls from the property text are executed and never judged.",
        "5/C17",
    ),
}

NOT_APPLICABLE = []  # filled automatically for properties whose check is not built yet
ALL = [f"C{i:02d}" for i in range(1, 21)]


def main():
    checks = []
    for pid, (tech, text, ref) in sorted(CHECKS.items()):
        checks.append(
            {
                "property_id": pid,
                "quick_cmd": f"./check {pid} quick",
                "thorough_cmd": f"./check {pid} thorough",
                "evidence_file": f"/verif/evidence/{pid}.json",
                "replay_cmd_template": f"./check {pid} --replay {{path}}",
                "engine": "xv-runtime-monitor",
                "level_claimed": {
                    "category": "fault_enumeration" if pid == "C17" else "exploration",
                    "text": text,
                    "design_ref": f"DESIGN.md section {ref}",
                },
                "level_note": TRUST,
                "technique": tech,
            }
        )
    na = list(NOT_APPLICABLE) + [
        {"property_id": p, "reason": "check not built yet (work in progress); the technique applies, see DESIGN.md section 5"}
        for p in ALL
        if p not in CHECKS and p not in {x["property_id"] for x in NOT_APPLICABLE}
    ]
    m = {
        "version": 1,
        "setup_cmd": "/venv/bin/python -c \"import sys; sys.path.insert(0, '/verif'); from xv import boot; sys.exit(0 if boot.ensure_deps() else 1)\"",
        "hooks": {
            "guard": "XEOFS_VERIF",
            "enable": "no build step: checks start fresh /venv/bin/python interpreters that import /repo's working tree (editable install, /repo first on sys.path) with XEOFS_VERIF=1; all monitors are installed from the harness by wrapping module attributes (icontract post-conditions, back-end and scheduler recorders); nothing in /repo is guarded because no hook lives there",
            "baseline_off_cmd": "cd /repo && env -u XEOFS_VERIF /venv/bin/python -m pytest -ra -q -p no:cacheprovider --timeout=900 --continue-on-collection-errors",
            "source_commits": [],
            "add_only": True,
        },
        "engines": [
            {
                "name": "xv-runtime-monitor",
                "path": "/verif/xv",
                "serves_properties": sorted(CHECKS),
                "kind_free_text": "runtime monitoring: seeded hostile workloads on the real code, reference-model / relation / trace / history oracles evaluated on every execution, icontract post-conditions on inner functions, known-finding classifier by mechanism tags",
            }
        ],
        "checks": checks,
        "notes": "Exit codes: 0 held on everything explored; 1 + 'VIOLATION property=<id> replay=<path>' for a violation not listed in known_findings.json; 2 + 'INCONCLUSIVE ...' when a deciding monitor was never reached, a worker died or a watchdog fired (never folded into held or violated). VERIF_SEED selects the random part of each workload; the structured corpus is seed independent.",
        "not_applicable": na,
    }
    path = os.path.join(VERIF, "MANIFEST.json")
    with open(path, "w") as f:
        json.dump(m, f, indent=1)
    try:
        sys.path.insert(0, "/opt/veriftools/pyvenv/lib/python3.11/site-packages")
        import jsonschema

        jsonschema.validate(m, json.load(open("/root/.vp/MANIFEST.schema.json")))
        print("MANIFEST.json valid,", len(checks), "checks")
    except ImportError:
        print("jsonschema unavailable; not validated")


if __name__ == "__main__":
    main()
