#!/venv/bin/python
"""tools/kfmerge.py file.json [...]: append proposed known-finding entries (by id) to known_findings.json."""
import json, sys
p = '/verif/known_findings.json'
d = json.load(open(p))
ids = {f['id'] for f in d['findings']}
for fn in sys.argv[1:]:
    for f in json.load(open(fn))['findings']:
        if f['id'] in ids:
            print('skip (exists)', f['id']); continue
        assert {'id', 'property', 'status', 'match', 'what'} <= set(f), f
        d['findings'].append(f); ids.add(f['id']); print('added', f['id'])
json.dump(d, open(p, 'w'), indent=1)
