#!/bin/bash
# tools/seedtest.sh <patch.diff> <ID> [tier]   -- run check <ID> against a scratch worktree of /repo with the patch applied
# (equivalent to applying the patch to /repo, but safe while other processes use /repo)
set -u
PATCH=$(readlink -f "$1"); ID=$2; TIER=${3:-quick}
WT=/tmp/mutwt_$$
git -C /repo worktree add -q --detach "$WT" HEAD || exit 3
if ! git -C "$WT" apply "$PATCH"; then echo "PATCH DOES NOT APPLY"; git -C /repo worktree remove --force "$WT"; exit 3; fi
cd "$(dirname "$(readlink -f "$0")")/.."
XV_NO_EVIDENCE=1 XEOFS_REPO="$WT" ./check "$ID" "$TIER" ${JOBS:+--jobs $JOBS} > "/tmp/seedtest_${ID}_$$.log" 2>&1
rc=$?
grep -E "^\[|^VIOLATION|^INCONCLUSIVE|^HELD|^KNOWN" "/tmp/seedtest_${ID}_$$.log" | cut -c1-260 | head -${LINES_MAX:-8}
echo "exit=$rc log=/tmp/seedtest_${ID}_$$.log"
git -C /repo worktree remove --force "$WT"
exit $rc
