#!/venv/bin/python
"""Prints the markdown table of seeded changes (from seeded/*/meta.json) for DESIGN.md section 10.5."""
import glob, json, os
rows = []
for d in sorted(glob.glob(os.path.join(os.path.dirname(os.path.dirname(os.path.abspath(__file__))), "seeded", "*"))):
    m = json.load(open(os.path.join(d, "meta.json")))
    v = m.get("verified", {})
    caught = m.get("caught_by") or (([m["property"]] if m.get("caught_by_check") else []))
    title = (m.get("title") or m.get("what_breaks") or "")[:110].replace("|", "/")
    needs = (m.get("needs_to_manifest") or "")[:120].replace("|", "/").replace("\n", " ")
    rows.append((os.path.basename(d), title, needs, ", ".join(caught) if caught else "**missed**", m.get("strengthened", "")))
print("| seeded change | what it does | needs to manifest | caught by | check strengthened because of it |")
print("|---|---|---|---|---|")
for r in rows:
    print("| " + " | ".join(str(x) for x in r) + " |")
print(f"\n{len(rows)} seeded changes; {sum(1 for r in rows if 'missed' not in r[3])} caught.")
