#!/bin/bash
# seeds sweep of all quick checks (no evidence written)
for s in 1 2 3 4; do for p in $(ls xv/props | grep -oE '^c[0-9]+\.py' | sed 's/.py//' | tr a-z A-Z); do
  out=$(VERIF_SEED=$s XV_NO_EVIDENCE=1 ./check $p quick 2>&1); rc=$?
  echo "seed=$s $p exit=$rc $(echo "$out" | grep -E '^\[' | cut -c1-150)"
  if [ $rc -ne 0 ]; then echo "$out" | grep -E "violation:|^INCONC" | cut -c1-400 | head -6; fi
done; done
