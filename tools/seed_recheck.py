#!/venv/bin/python
"""tools/seed_recheck.py [seed_dir ...]  -- re-run the property's quick check (and, where recorded, the other
checks listed under meta['also_checks']) against each seeded change and update meta.json
(verified.check_exit, caught_by_check, caught_by).  Tests and demos are not re-run."""
import glob
import json
import os
import shutil
import subprocess
import sys

VERIF = os.path.dirname(os.path.dirname(os.path.abspath(__file__)))


def sh(cmd, cwd=None, env=None, timeout=3600):
    r = subprocess.run(cmd, cwd=cwd, env=env, capture_output=True, text=True, timeout=timeout)
    return r.returncode, (r.stdout or "") + (r.stderr or "")


def recheck(d):
    d = os.path.abspath(d)
    meta_p = os.path.join(d, "meta.json")
    meta = json.load(open(meta_p))
    pid = meta["property"]
    wt = f"/tmp/seedrecheck_{os.getpid()}"
    rc, o = sh(["git", "-C", "/repo", "worktree", "add", "-q", "--detach", wt, "HEAD"])
    if rc:
        print(d, "worktree failed", o[-200:])
        return
    caught_by = []
    try:
        rca, oa = sh(["git", "-C", wt, "apply", os.path.join(d, "patch.diff")])
        if rca:
            meta["verified"]["patch_applies_to_current_head"] = False
            print(os.path.basename(d), "PATCH NO LONGER APPLIES")
        else:
            meta["verified"]["patch_applies_to_current_head"] = True
            env = dict(os.environ, XEOFS_REPO=wt, XV_NO_EVIDENCE="1")
            for chk in [pid] + list(meta.get("also_checks", [])):
                rcc, oc = sh([os.path.join(VERIF, "check"), chk, "quick"], cwd=VERIF, env=env)
                if chk == pid:
                    meta["verified"]["check_exit"] = rcc
                    first = [l for l in oc.splitlines() if l.startswith("  violation:")]
                    meta["verified"]["check_first_violation"] = first[0][:500] if first else None
                    meta["verified"]["check_summary"] = [l[:300] for l in oc.splitlines() if l.startswith("[") or l.startswith("VIOLATION") or l.startswith("INCONCLUSIVE")][:4]
                if rcc == 1:
                    caught_by.append(chk)
            meta["verified"]["repo_head_at_recheck"] = subprocess.check_output(["git", "-C", "/repo", "rev-parse", "--short", "HEAD"], text=True).strip()
            meta["caught_by_check"] = pid in caught_by
            meta["caught_by"] = caught_by
    finally:
        sh(["git", "-C", "/repo", "worktree", "remove", "--force", wt])
        shutil.rmtree(wt, ignore_errors=True)
    json.dump(meta, open(meta_p, "w"), indent=1)
    print(f"{os.path.basename(d)}: caught_by={caught_by}")


if __name__ == "__main__":
    dirs = sys.argv[1:] or sorted(glob.glob(os.path.join(VERIF, "seeded", "*")))
    for d in dirs:
        if os.path.exists(os.path.join(d, "meta.json")):
            recheck(d)
