#!/bin/bash
# tools/ingest_round.sh <round-dir> <tag> <ID>...   -- confirm the sub-agents' changes of one property (seed_verify, 3 in parallel)
# e.g. tools/ingest_round.sh /tmp/r4 agent4 C01 C02
R=$1; TAG=$2; shift 2
cd "$(dirname "$(readlink -f "$0")")/.."
for ID in "$@"; do
  for i in 1 2 3; do
    d=$R/$ID/out/m$i
    if [ -f $d/patch.diff ] && [ -f $d/demo.py ]; then
      ( tools/seed_verify.py $d $ID $TAG-m$i 2>&1 | tail -2 ) &
    else
      echo "$ID m$i: incomplete ($d)"
    fi
  done
  wait
done
