#!/bin/bash
# tools/runall.sh [tier] [ids...] : run checks, print one summary block per check
cd "$(dirname "$(readlink -f "$0")")/.."
TIER=${1:-quick}; shift
IDS=${@:-$(ls xv/props | grep -oE '^c[0-9]+\.py' | sed 's/.py//' | tr a-z A-Z)}
for p in $IDS; do
  out=$(./check $p $TIER 2>&1); rc=$?
  echo "$out" | grep -E "^\[" | cut -c1-200
  echo "$out" | grep -E "^KNOWN-FINDING" | sed -E 's/.*\[(KF-[^;]+); ([0-9]+) obs.*/   kf \1 (\2)/' | tr '\n' ' '; echo
  echo "$out" | grep -E "^VIOLATION|^INCONCLUSIVE" | cut -c1-200 | head -5
  echo "$out" | grep -E "^  violation" | cut -c1-400 | head -5
  echo "   -> $p exit=$rc"
done
