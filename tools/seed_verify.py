#!/venv/bin/python
"""tools/seed_verify.py <seed_dir> <PID> <name> [--skip-tests] [--tier quick]

Confirms a seeded fault the way the brief demands, in a scratch worktree outside /repo and /verif:
  (a) demo.py exits 0 on the unmodified tree, (b) exits non-zero with patch.diff applied,
  (c) the repository's own test-suite still passes with the patch,
  (d) runs the property's check against the patched tree and records whether it fired.
Writes /verif/seeded/<PID>-<name>/{patch.diff,demo.py,meta.json}; removes the worktree afterwards.
"""
import json
import os
import re
import shutil
import subprocess
import sys
import time

VERIF = os.path.dirname(os.path.dirname(os.path.abspath(__file__)))
PY = "/venv/bin/python"


def sh(cmd, cwd=None, env=None, timeout=3600):
    r = subprocess.run(cmd, cwd=cwd, env=env, capture_output=True, text=True, timeout=timeout)
    return r.returncode, (r.stdout or "") + (r.stderr or "")


def main():
    args = [a for a in sys.argv[1:] if not a.startswith("--")]
    seed_dir, pid, name = args[0], args[1].upper(), args[2]
    skip_tests = "--skip-tests" in sys.argv
    tier = "quick"
    wt = f"/tmp/seedverify_{os.getpid()}"
    out = os.path.join(VERIF, "seeded", f"{pid}-{name}")
    os.makedirs(out, exist_ok=True)
    patch = os.path.abspath(os.path.join(seed_dir, "patch.diff"))
    demo = os.path.abspath(os.path.join(seed_dir, "demo.py"))
    meta_in = {}
    if os.path.exists(os.path.join(seed_dir, "meta.json")):
        try:
            meta_in = json.load(open(os.path.join(seed_dir, "meta.json")))
        except Exception:
            meta_in = {}
    head = subprocess.check_output(["git", "-C", "/repo", "rev-parse", "--short", "HEAD"], text=True).strip()
    rc, o = sh(["git", "-C", "/repo", "worktree", "add", "-q", "--detach", wt, "HEAD"])
    if rc:
        print("worktree failed", o)
        return 3
    res = {"repo_head": head}
    try:
        env = dict(os.environ)
        env.pop("XEOFS_VERIF", None)
        env["PYTHONPATH"] = os.path.join(VERIF, "xv", "stubs")  # statsmodels stub for cross-set demos
        env["PYTHONDONTWRITEBYTECODE"] = "1"
        rc0, o0 = sh([PY, demo, wt], cwd=wt, env=env, timeout=1200)
        res["demo_exit_unmodified"] = rc0
        rca, oa = sh(["git", "-C", wt, "apply", patch])
        if rca:
            res["patch_applies"] = False
            print("PATCH DOES NOT APPLY:", oa[-300:])
            return 3
        res["patch_applies"] = True
        rc1, o1 = sh([PY, demo, wt], cwd=wt, env=env, timeout=1200)
        res["demo_exit_modified"] = rc1
        res["demo_output_modified"] = o1[-600:]
        if not skip_tests:
            env2 = dict(os.environ)
            env2.pop("XEOFS_VERIF", None)
            env2["PYTHONDONTWRITEBYTECODE"] = "1"
            t0 = time.time()
            rct, ot = sh([PY, "-m", "pytest", "-q", "-p", "no:cacheprovider", "--timeout=900", "-x", "-n", "3"], cwd=wt, env=env2, timeout=3600)
            m = re.search(r"(\d+) passed", ot)
            res["tests_exit"] = rct
            res["tests_passed"] = int(m.group(1)) if m else None
            res["tests_cmd"] = "cd <worktree> && /venv/bin/python -m pytest -q -p no:cacheprovider --timeout=900 -x -n 3"
            res["tests_wall_s"] = round(time.time() - t0)
        env3 = dict(os.environ)
        env3["XEOFS_REPO"] = wt
        env3["XV_NO_EVIDENCE"] = "1"
        rcc, oc = sh([os.path.join(VERIF, "check"), pid, tier], cwd=VERIF, env=env3, timeout=3600)
        res["check_exit"] = rcc
        res["check_cmd"] = f"XEOFS_REPO=<worktree with patch> ./check {pid} {tier}"
        res["check_summary"] = [l[:300] for l in oc.splitlines() if l.startswith("[") or l.startswith("VIOLATION") or l.startswith("INCONCLUSIVE")][:4]
        first = [l for l in oc.splitlines() if l.startswith("  violation:")]
        res["check_first_violation"] = first[0][:500] if first else None
    finally:
        sh(["git", "-C", "/repo", "worktree", "remove", "--force", wt])
        shutil.rmtree(wt, ignore_errors=True)
    shutil.copy(patch, os.path.join(out, "patch.diff"))
    shutil.copy(demo, os.path.join(out, "demo.py"))
    meta = {
        "property": pid,
        "name": name,
        "title": meta_in.get("title"),
        "files": meta_in.get("files"),
        "what_breaks": meta_in.get("what_breaks"),
        "needs_to_manifest": meta_in.get("needs_to_manifest"),
        "origin": "independent sub-agent given only the property text and a scratch worktree" if meta_in else "own seeded fault",
        "verified": res,
        "confirmed": bool(
            res.get("demo_exit_unmodified") == 0
            and res.get("demo_exit_modified") not in (0, None)
            and (skip_tests or res.get("tests_exit") == 0)
        ),
        "caught_by_check": bool(res.get("check_exit") == 1),
    }
    json.dump(meta, open(os.path.join(out, "meta.json"), "w"), indent=1)
    print(f"{pid}-{name}: demo {res.get('demo_exit_unmodified')}->{res.get('demo_exit_modified')} tests_exit={res.get('tests_exit')} passed={res.get('tests_passed')} check_exit={res.get('check_exit')} confirmed={meta['confirmed']}")
    return 0


if __name__ == "__main__":
    sys.exit(main())
