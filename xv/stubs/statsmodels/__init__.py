"""Import stub (verification harness only): the real statsmodels is not installed
in this sandbox; xeofs.cross only needs `statsmodels.stats.multitest.multipletests`
to exist at import time.  The function is never a silent no-op."""
__version__ = "0.0.stub"
