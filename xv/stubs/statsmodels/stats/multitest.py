def multipletests(*args, **kwargs):
    raise NotImplementedError(
        "statsmodels is stubbed by the verification harness; `correction=` is not exercised"
    )
