"""Model zoo: one uniform way to construct, fit and query every xeofs model class.

`SPECS[name]` describes a class; `Fitted` wraps a fitted instance so that
single-set, cross-set, multi-set and rotated models answer the same calls with
*lists* of arrays (one per field).
"""
import warnings

SINGLE = ("EOF", "ComplexEOF", "HilbertEOF", "ExtendedEOF", "SparsePCA", "POP", "OPA")
SINGLE_ROT = {"EOFRotator": "EOF", "ComplexEOFRotator": "ComplexEOF", "HilbertEOFRotator": "HilbertEOF"}
CROSS_BASE = ("CPCCA", "MCA", "CCA", "RDA")
CROSS = tuple(p + b for p in ("", "Complex", "Hilbert") for b in CROSS_BASE)
CROSS_ROT = {
    "CPCCARotator": ("CPCCA", "CCA", "RDA", "MCA"),
    "ComplexCPCCARotator": ("ComplexCPCCA", "ComplexCCA", "ComplexRDA", "ComplexMCA"),
    "HilbertCPCCARotator": ("HilbertCPCCA", "HilbertCCA", "HilbertRDA", "HilbertMCA"),
    "MCARotator": ("MCA",),
    "ComplexMCARotator": ("ComplexMCA",),
    "HilbertMCARotator": ("HilbertMCA",),
}
MULTI = ("multi.CCA",)

# capabilities ----------------------------------------------------------------
HAS_TRANSFORM = {
    "EOF", "ComplexEOF", "SparsePCA", "POP", "EOFRotator", "ComplexEOFRotator",
    "CPCCA", "MCA", "CCA", "RDA", "ComplexCPCCA", "ComplexMCA", "ComplexCCA", "ComplexRDA",
    "CPCCARotator", "ComplexCPCCARotator", "MCARotator", "ComplexMCARotator", "multi.CCA",
}
HAS_INVERSE = (
    {"EOF", "ComplexEOF", "HilbertEOF", "ExtendedEOF", "SparsePCA", "POP", "EOFRotator", "ComplexEOFRotator", "HilbertEOFRotator"}
    | set(CROSS)
    | set(CROSS_ROT)
)
EXACT_INVERSE = {"EOF", "ComplexEOF", "HilbertEOF"} | set(CROSS)
ORDER_DEPENDENT = {"ExtendedEOF", "OPA", "POP", "HilbertEOF", "HilbertEOFRotator"} | {c for c in CROSS if c.startswith("Hilbert")} | {
    r for r in CROSS_ROT if r.startswith("Hilbert")
}
COMPLEX_INPUT_OK = {"ComplexEOF", "ComplexEOFRotator"} | {c for c in CROSS if c.startswith("Complex")} | {r for r in CROSS_ROT if r.startswith("Complex")}


def kind(name):
    if name in SINGLE:
        return "single"
    if name in SINGLE_ROT:
        return "single_rot"
    if name in CROSS:
        return "cross"
    if name in CROSS_ROT:
        return "cross_rot"
    if name in MULTI:
        return "multi"
    if name == "EOFBootstrapper":
        return "boot"
    raise KeyError(name)


def cls_of(name):
    import xeofs as xe

    if name == "multi.CCA":
        return xe.multi.CCA
    if name == "EOFBootstrapper":
        return xe.validation.EOFBootstrapper
    k = kind(name)
    return getattr(xe.single if k in ("single", "single_rot") else xe.cross, name)


def default_kwargs(name, n_modes=2, **over):
    k = kind(name)
    kw = {"n_modes": n_modes}
    if k in ("single", "cross"):
        kw["solver"] = "full"
    if name == "ExtendedEOF":
        kw.update(tau=1, embedding=2)
    if name == "OPA":
        kw.update(tau_max=3, n_pca_modes=max(n_modes, 3))
    if name == "SparsePCA":
        kw.update(alpha=1e-4, beta=1e-4, random_state=0)
    if name == "POP":
        kw.update(n_pca_modes=max(2, n_modes))
    if k == "cross":
        kw.update(n_pca_modes="all")
        if name.endswith("CPCCA"):
            kw.update(alpha=0.5)
    if name == "multi.CCA":
        kw.update(pca=False)
    kw.update(over)
    return kw


def make(name, **kw):
    with warnings.catch_warnings():
        warnings.simplefilter("ignore")
        return cls_of(name)(**kw)


class Fitted:
    """Uniform facade.  `fields` = number of data fields (1 single, 2 cross, n multi)."""

    def __init__(self, name, model, fields, base=None):
        self.name = name
        self.model = model
        self.fields = fields
        self.base = base
        self.kind = kind(name)

    # -- queries ----------------------------------------------------------
    def scores(self, **kw):
        r = self.model.scores(**kw)
        return list(r) if isinstance(r, (list, tuple)) else [r]

    def components(self, **kw):
        r = self.model.components(**kw)
        if self.fields == 1:
            return [r]
        return list(r)

    def transform(self, *data, **kw):
        if self.kind in ("cross", "cross_rot"):
            X = data[0] if len(data) > 0 else None
            Y = data[1] if len(data) > 1 else None
            r = self.model.transform(X=X, Y=Y, **kw)
        elif self.kind == "multi":
            r = self.model.transform(list(data), **kw)
        else:
            r = self.model.transform(data[0], **kw)
        return list(r) if isinstance(r, (list, tuple)) else [r]

    def inverse_transform(self, *scores, **kw):
        if self.kind in ("cross", "cross_rot"):
            X = scores[0] if len(scores) > 0 else None
            Y = scores[1] if len(scores) > 1 else None
            r = self.model.inverse_transform(X=X, Y=Y, **kw)
            return list(r) if isinstance(r, (list, tuple)) and (X is not None and Y is not None) else [r]
        r = self.model.inverse_transform(scores[0], **kw)
        return [r]


_NOT_ACCESSORS = {
    "fit", "transform", "inverse_transform", "compute", "serialize", "deserialize", "save", "load", "get_params",
    "get_serialization_attrs", "fit_transform", "predict", "check_needed_module",
    "get_metadata_routing", "set_fit_request", "set_transform_request", "set_params",
}  # fmt: skip


def accessors(m):
    """names of all public methods of the model that can be called without arguments (found by introspection)"""
    import inspect

    out = []
    for k, v in inspect.getmembers(type(m), predicate=inspect.isfunction):
        if k.startswith("_") or k in _NOT_ACCESSORS:
            continue
        ps = list(inspect.signature(v).parameters.values())[1:]
        if any(p.default is inspect._empty and p.kind not in (p.VAR_KEYWORD, p.VAR_POSITIONAL) for p in ps):
            continue
        out.append(k)
    return sorted(out)


def call_all_accessors(m):
    n = 0
    for a in accessors(m):
        try:
            getattr(m, a)()
            n += 1
        except Exception:  # noqa: BLE001
            pass
    return n


def perturbed(d):
    """other values in the same structure and with another covariance (rolled by one along the first axis, rescaled,
    plus a quadratic term); lazy data stays lazy"""
    if isinstance(d, (list, tuple)):
        return [perturbed(x) for x in d]
    return d.roll({list(d.dims)[0]: 1}, roll_coords=False) * 1.3 + 0.2 * d * d


def _age(m, k, data, dim, weights):
    """hostile history before the fit that is judged: the same object is fitted on other data of the same structure
    and its accessors / inverse map are used (caches, flags and transformer state get filled).  Returns False when
    that history could not be produced (the caller then starts from a fresh object)."""
    try:
        other = [perturbed(d) for d in data]
        if k == "single":
            m.fit(other[0], dim=dim, **({"weights": weights[0]} if weights else {}))
            sc = [m.scores()]
        elif k == "cross":
            m.fit(other[0], other[1], dim=dim, **({"weights_X": weights[0], "weights_Y": weights[1]} if weights else {}))
            sc = list(m.scores())
        else:
            m.fit(list(other), dim=dim)
            sc = None
        m.components()
        call_all_accessors(m)
        if sc is not None and hasattr(m, "inverse_transform"):
            try:
                m.inverse_transform(*sc)
            except Exception:  # noqa: BLE001
                pass
        try:
            if k == "cross":
                m.transform(X=other[0], Y=other[1])
            elif k == "single":
                m.transform(other[0])
        except Exception:  # noqa: BLE001
            pass
        return True
    except Exception:  # noqa: BLE001
        return False


def fit(name, data, dim, kw=None, rot_kw=None, base_name=None, weights=None, aged=False):
    """data: list of fields (each a DataArray / Dataset / list).  Returns Fitted.
    aged=True: the model object has a history (see _age) before it is fitted on `data`."""
    k = kind(name)
    kw = dict(kw or {})
    with warnings.catch_warnings():
        warnings.simplefilter("ignore")
        if k in ("single", "cross", "multi"):
            m = make(name, **kw)
            if aged and not _age(m, k, data, dim, weights):
                m = make(name, **kw)
                aged = False
        if k == "single":
            m.fit(data[0], dim=dim, **({"weights": weights[0]} if weights else {}))
            f = Fitted(name, m, 1)
            f.aged = bool(aged)
            return f
        if k == "cross":
            wk = {}
            if weights:
                wk = {"weights_X": weights[0], "weights_Y": weights[1]}
            m.fit(data[0], data[1], dim=dim, **wk)
            f = Fitted(name, m, 2)
            f.aged = bool(aged)
            return f
        if k == "multi":
            m.fit(list(data), dim=dim)
            f = Fitted(name, m, len(data))
            f.aged = bool(aged)
            return f
        if k == "single_rot":
            bn = base_name or SINGLE_ROT[name]
            base = fit(bn, data, dim, kw, weights=weights, aged=aged)
            r = make(name, **(rot_kw or {"n_modes": kw.get("n_modes", 2)}))
            r.fit(base.model)
            f = Fitted(name, r, 1, base=base)
            f.aged = bool(getattr(base, "aged", False))
            return f
        if k == "cross_rot":
            bn = base_name or CROSS_ROT[name][0]
            base = fit(bn, data, dim, kw, weights=weights, aged=aged)
            r = make(name, **(rot_kw or {"n_modes": kw.get("n_modes", 2)}))
            r.fit(base.model)
            f = Fitted(name, r, 2, base=base)
            f.aged = bool(getattr(base, "aged", False))
            return f
    raise KeyError(name)
