"""Independent reference models (numpy / scipy.linalg only -- never imports xeofs)."""
import numpy as np

F32EPS = float(np.finfo(np.float32).eps)


# ---------------------------------------------------------------- preprocessing
def coslat_weights(lat_deg):
    return np.sqrt(np.clip(np.cos(np.deg2rad(np.asarray(lat_deg, dtype=float))), 0, 1))


def preprocess(M, center=True, standardize=False, w_coslat=None, w_user=None, return_params=False):
    """(M - mean) / std(ddof=0, clipped at float32 eps) * sqrt(cos lat) * weights, per feature column."""
    M = np.asarray(M)
    mean = M.mean(axis=0) if center else np.zeros(M.shape[1], dtype=M.dtype)
    X = M - mean
    std = np.ones(M.shape[1])
    if standardize:
        # documented: standard deviation along the sample dims (numpy default ddof=0)
        std = np.sqrt((np.abs(M - M.mean(axis=0)) ** 2).mean(axis=0))
        std = np.clip(std, F32EPS, None)
        X = X / std
    w = np.ones(M.shape[1])
    if w_coslat is not None:
        w = w * np.asarray(w_coslat, dtype=float)
    if w_user is not None:
        w = w * np.asarray(w_user, dtype=float)
    X = X * w
    if return_params:
        return X, dict(mean=mean, std=std, w=w)
    return X


def unpreprocess(X, prm):
    return X / prm["w"] * prm["std"] + prm["mean"]


# ---------------------------------------------------------------- eigen-analysis
def cov_eigs(X, ddof=1):
    """Eigenvalues (descending, clipped at 0) of X^H X / (n - ddof) via the smaller Gram matrix, LAPACK syevd."""
    X = np.asarray(X)
    n, p = X.shape
    if p <= n:
        G = X.conj().T @ X
    else:
        G = X @ X.conj().T
    G = (G + G.conj().T) / 2
    ev = np.linalg.eigvalsh(G)[::-1] / (n - ddof)
    return np.clip(ev.real, 0, None)


def cov_eigh(X, ddof=1):
    """(eigenvalues desc, right eigenvectors as columns) of X^H X/(n-ddof)."""
    X = np.asarray(X)
    n, p = X.shape
    C = X.conj().T @ X / (n - ddof)
    C = (C + C.conj().T) / 2
    ev, V = np.linalg.eigh(C)
    return np.clip(ev[::-1].real, 0, None), V[:, ::-1]


def total_variance(X, ddof=1):
    X = np.asarray(X)
    Xc = X - X.mean(axis=0)
    return float((np.abs(Xc) ** 2).sum() / (X.shape[0] - ddof))


def principal_angle_sin(A, B):
    """sin of the largest principal angle between span(A) and span(B) (orthonormal columns assumed after QR)."""
    Qa, _ = np.linalg.qr(A)
    Qb, _ = np.linalg.qr(B)
    s = np.linalg.svd(Qa.conj().T @ Qb, compute_uv=False)
    s = np.clip(s, 0, 1)
    return float(np.sqrt(max(0.0, 1 - s.min() ** 2)))


def frac_power_psd(C, power, rcond=None):
    """Hermitian PSD matrix to a real power via eigh (pseudo-power: zero eigenvalues stay zero)."""
    C = (C + C.conj().T) / 2
    ev, Q = np.linalg.eigh(C)
    ev = np.clip(ev, 0, None)
    if rcond is None:
        rcond = ev.max() * max(C.shape) * np.finfo(float).eps if ev.size else 0
    out = np.zeros_like(ev)
    ok = ev > rcond
    out[ok] = ev[ok] ** power
    return (Q * out) @ Q.conj().T


# ---------------------------------------------------------------- Hilbert
def analytic_signal(Y):
    """FFT analytic signal along axis 0 (Marple 1999): zero the negative frequencies, double the positive."""
    Y = np.asarray(Y, dtype=float)
    n = Y.shape[0]
    F = np.fft.fft(Y, axis=0)
    h = np.zeros(n)
    if n % 2 == 0:
        h[0] = h[n // 2] = 1
        h[1 : n // 2] = 2
    else:
        h[0] = 1
        h[1 : (n + 1) // 2] = 2
    return np.fft.ifft(F * h[:, None], axis=0)


def pad_exp(Y, decay):
    """Documented padding: n values before and after, decaying exponentially from the first/last anomaly
    (w.r.t. the per-column least-squares line) towards that line."""
    Y = np.asarray(Y, dtype=float)
    n = Y.shape[0]
    x = np.arange(n, dtype=float)
    A = np.stack([np.ones(n), x], axis=1)
    coef, *_ = np.linalg.lstsq(A, Y, rcond=None)
    x_ext = np.arange(-n, 2 * n, dtype=float)
    fit = A @ coef
    fit_ext = np.stack([np.ones(3 * n), x_ext], axis=1) @ coef
    ano = Y - fit
    e = np.exp(-x / n / decay)
    pre = e[::-1, None] * ano[0][None, :]
    post = e[:, None] * ano[-1][None, :]
    return np.concatenate([pre, ano, post], axis=0) + fit_ext


def hilbert_augment(X, padding="exp", decay=0.2):
    X = np.asarray(X, dtype=float)
    n = X.shape[0]
    if padding == "exp":
        Z = analytic_signal(pad_exp(X, decay))[n : 2 * n]
    else:
        Z = analytic_signal(X)
    # only the padding-induced shift of the imaginary part is removed; the real part is the input data
    return Z - 1j * Z.imag.mean(axis=0)


# ---------------------------------------------------------------- delay embedding
def embed(X, tau, embedding):
    """Rows t = 0..n-1-(embedding-1)*tau ; column block e holds X[t + e*tau]. Returns (m, embedding, p)."""
    X = np.asarray(X)
    n = X.shape[0]
    cut = (embedding - 1) * tau
    m = n - cut
    return np.stack([X[e * tau : e * tau + m] for e in range(embedding)], axis=1)
