"""Environment bootstrap shared by the parent runner and the workers.

* pins BLAS threads (16 worker processes must not oversubscribe),
* puts the repository under test first on sys.path (so the *current working
  tree* is what gets imported -- "rebuild" == "fresh interpreter"),
* appends the statsmodels import stub when the real package is absent,
* appends /verif/.deps (icontract) -- installed offline from the wheelhouse,
  flock-guarded, because a fresh restore only has committed files.
"""
import fcntl
import importlib.util
import os
import subprocess
import sys

VERIF = os.path.dirname(os.path.dirname(os.path.abspath(__file__)))
REPO = os.environ.get("XEOFS_REPO", "/repo")
DEPS = os.path.join(VERIF, ".deps")
WHEELS = "/opt/veriftools/wheels"
GUARD = "XEOFS_VERIF"


def pin_env(env=None):
    env = os.environ if env is None else env
    for k in (
        "OMP_NUM_THREADS",
        "OPENBLAS_NUM_THREADS",
        "MKL_NUM_THREADS",
        "NUMEXPR_NUM_THREADS",
        "VECLIB_MAXIMUM_THREADS",
    ):
        env[k] = "1"
    env["PYTHONHASHSEED"] = "0"
    env["PYTHONDONTWRITEBYTECODE"] = "1"
    env["PIP_NO_INDEX"] = "1"
    env[GUARD] = "1"
    return env


def ensure_deps():
    """Install icontract into /verif/.deps from the offline wheelhouse (idempotent)."""
    marker = os.path.join(DEPS, "icontract")
    if os.path.isdir(marker):
        return True
    os.makedirs(DEPS, exist_ok=True)
    lock = open(os.path.join(DEPS, ".lock"), "w")
    fcntl.flock(lock, fcntl.LOCK_EX)
    try:
        if os.path.isdir(marker):
            return True
        r = subprocess.run(
            [
                sys.executable,
                "-m",
                "pip",
                "install",
                "--quiet",
                "--no-index",
                "--find-links",
                WHEELS,
                "--target",
                DEPS,
                "icontract",
            ],
            capture_output=True,
            text=True,
        )
        if r.returncode != 0:
            sys.stderr.write("xv.boot: icontract install failed:\n" + r.stderr[-2000:])
            return False
        return os.path.isdir(marker)
    finally:
        fcntl.flock(lock, fcntl.LOCK_UN)
        lock.close()


def setup_path():
    if REPO in sys.path:
        sys.path.remove(REPO)
    sys.path.insert(0, REPO)
    if VERIF not in sys.path:
        sys.path.insert(1, VERIF)
    if importlib.util.find_spec("statsmodels") is None:
        sys.path.append(os.path.join(VERIF, "xv", "stubs"))
    if DEPS not in sys.path:
        sys.path.append(DEPS)  # appended: its typing_extensions copy must not shadow the venv's


def init_worker():
    pin_env()
    setup_path()
    import warnings

    warnings.filterwarnings("ignore")
    import xeofs  # noqa: F401

    here = os.path.realpath(os.path.dirname(os.path.dirname(xeofs.__file__)))
    if here != os.path.realpath(REPO):
        raise RuntimeError(f"xeofs imported from {here}, expected {REPO}")
