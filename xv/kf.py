"""Known-finding classifier.  known_findings.json is read-only at run time.

Entry: {"id", "property", "status": "open"|"fixed", "match": {tag: value | [values]},
        "what", "commit"?}
A violation is absorbed by an *open* entry of the same property iff every key
of `match` is present in the violation's tags with an equal value (or a value
contained in the list).  Predicates name mechanisms (class, operation,
configuration subset, symptom, raising frame), never case hashes or random
values.  'fixed' entries suppress nothing.
"""
import json
import os

from .boot import VERIF

PATH = os.path.join(VERIF, "known_findings.json")


def load():
    if not os.path.exists(PATH):
        return []
    with open(PATH) as f:
        return json.load(f)["findings"]


def _match_one(pred, tags):
    for k, v in pred.items():
        if k not in tags:
            return False
        tv = tags[k]
        if isinstance(v, list):
            if tv not in v:
                return False
        elif isinstance(v, dict):
            if "lt" in v and not (isinstance(tv, (int, float)) and tv < v["lt"]):
                return False
            if "le" in v and not (isinstance(tv, (int, float)) and tv <= v["le"]):
                return False
            if "gt" in v and not (isinstance(tv, (int, float)) and tv > v["gt"]):
                return False
            if "ge" in v and not (isinstance(tv, (int, float)) and tv >= v["ge"]):
                return False
            if "ne" in v and tv == v["ne"]:
                return False
            if "prefix" in v and not str(tv).startswith(v["prefix"]):
                return False
        else:
            if tv != v:
                return False
    return True


def classify(prop, tags, findings):
    """Return the id of the open finding absorbing this violation, or None."""
    for f in findings:
        if f.get("property") != prop or f.get("status") != "open":
            continue
        if _match_one(f.get("match", {}), tags):
            return f["id"]
    return None
