"""Seeded workload generators (numpy only; no xeofs import)."""
import numpy as np

SPECTRA = ("geometric", "flat", "clustered", "rankdef", "linear", "gapped_tail")


def rng_for(*ids):
    return np.random.default_rng([int(abs(i)) for i in ids])


def spectrum(kind, r, rng):
    """r singular values, descending, largest == 1."""
    r = int(r)
    if kind == "geometric":
        q = rng.uniform(0.35, 0.75)
        s = q ** np.arange(r)
    elif kind == "flat":
        s = np.ones(r)
    elif kind == "clustered":
        q = rng.uniform(0.4, 0.7)
        s = q ** (np.arange(r) // 2)
    elif kind == "rankdef":
        q = rng.uniform(0.4, 0.75)
        s = q ** np.arange(r)
        nz = max(1, int(np.ceil(r / 2)))
        s[nz:] = 0.0
    elif kind == "linear":
        s = np.linspace(1.0, 0.2, r) if r > 1 else np.ones(1)
    elif kind == "gapped_tail":
        q = rng.uniform(0.5, 0.8)
        s = q ** np.arange(r)
    else:
        raise ValueError(kind)
    return np.asarray(s, dtype=float)


def min_rel_gap(s):
    s = np.asarray(s, dtype=float)
    if s.size < 2:
        return 1.0
    return float(np.min((s[:-1] - s[1:]) / s[0]))


def orthonormal(n, k, rng, cplx=False, perp_ones=False):
    """n x k matrix with orthonormal columns (optionally all orthogonal to the ones vector)."""
    A = rng.standard_normal((n, k))
    if cplx:
        A = A + 1j * rng.standard_normal((n, k))
    if perp_ones:
        A = A - A.mean(axis=0, keepdims=True)
    Q, R = np.linalg.qr(A)
    if perp_ones:
        Q = Q - Q.mean(axis=0, keepdims=True)  # clean round-off
        Q, _ = np.linalg.qr(Q)
    return Q[:, :k]


def low_rank(n, p, s, rng, cplx=False, perp_ones=True):
    """U diag(s) V^H with prescribed singular values; U ⟂ 1 so that centring does not move the spectrum."""
    r = len(s)
    U = orthonormal(n, r, rng, cplx, perp_ones=perp_ones)
    V = orthonormal(p, r, rng, cplx)
    return (U * s) @ V.conj().T, U, V


def random_field(n, p, rng, cplx=False, scale=1.0, offset=True):
    M = rng.standard_normal((n, p)) * (0.5 + rng.random(p))
    if cplx:
        M = M + 1j * rng.standard_normal((n, p)) * (0.5 + rng.random(p))
    M = M * scale
    if offset:
        M = M + scale * 3.0 * rng.standard_normal(p)
    return M


def factor_pairs(p):
    return [(a, p // a) for a in range(1, p + 1) if p % a == 0]


def ar1(n, p, phis, rng, mix=True):
    """p mixed AR(1) series with persistence phis (len q) -> n x p."""
    q = len(phis)
    Z = np.zeros((n + 50, q))
    e = rng.standard_normal((n + 50, q))
    for t in range(1, n + 50):
        Z[t] = np.asarray(phis) * Z[t - 1] + e[t]
    Z = Z[50:]
    if not mix:
        return Z
    A = rng.standard_normal((q, p))
    return Z @ A
