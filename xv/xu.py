"""xarray helpers for the harness: build labelled inputs from matrices and read results back *by label*."""
import numpy as np
import xarray as xr


def make_da(M, fshape=None, fdims=None, sample_dim="time", sample_coords=None, fcoords=None, name=None):
    """n x p matrix -> DataArray(sample_dim, *fdims); feature column j <-> C-order multi-index over fshape."""
    M = np.asarray(M)
    n, p = M.shape
    if fshape is None:
        fshape = (p,)
    if fdims is None:
        fdims = ("x", "y", "z")[: len(fshape)]
    assert int(np.prod(fshape)) == p
    coords = {sample_dim: np.arange(n) if sample_coords is None else sample_coords}
    for d, k in zip(fdims, fshape):
        if fcoords and d in fcoords:
            coords[d] = fcoords[d]
        elif d in ("lat", "latitude"):
            coords[d] = np.linspace(-75.0, 80.0, k) if k > 1 else np.array([30.0])
        else:
            coords[d] = np.arange(k) * 10 + 5
    return xr.DataArray(M.reshape((n,) + tuple(fshape)), dims=(sample_dim,) + tuple(fdims), coords=coords, name=name)


def labels(da, dims):
    return {d: da.coords[d].values for d in dims}


def to_np(da, dims, coords, reindex=False):
    """Values of `da` with the listed dims moved first and flattened (C order) after ordering each of them
    by the given labels.  Remaining dims keep their order and follow."""
    sel = {d: coords[d] for d in dims}
    da = da.reindex(sel) if reindex else da.sel(sel)
    other = [d for d in da.dims if d not in dims]
    da = da.transpose(*dims, *other)
    v = np.asarray(da.values)
    return v.reshape((-1,) + tuple(da.sizes[d] for d in other))


def feature_matrix(obj, fdims, coords):
    """(p, k) matrix from components-like output with dims fdims + ('mode',)."""
    return to_np(obj, list(fdims), coords)


def sample_matrix(obj, sdims, coords, reindex=False):
    return to_np(obj, list(sdims), coords, reindex=reindex)


def data_matrix(obj, sdims, fdims, coords):
    """(n, p) matrix from a data-like DataArray."""
    sel = {d: coords[d] for d in list(sdims) + list(fdims)}
    da = obj.sel(sel).transpose(*sdims, *fdims)
    n = int(np.prod([da.sizes[d] for d in sdims]))
    return np.asarray(da.values).reshape(n, -1)


def is_dask(da):
    try:
        import dask.array as dsa

        return isinstance(da.data, dsa.Array)
    except Exception:
        return False
