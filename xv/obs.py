"""Observation collector handed to every run_case(): counts oracle evaluations,
records violations with structured tags, worst error/tolerance ratios,
coverage cells and monitor counters.  Verdicts are decided from this record only."""
import traceback

import numpy as np


class Refused(Exception):
    """The code under test refused a call where the property permits refusal."""


class Ambiguous(Exception):
    """The oracle found that the answer is not unique for this input."""


def _short(x, n=6):
    try:
        a = np.asarray(x)
        if a.dtype == object:
            return repr(x)[:300]
        if a.size <= n:
            return a.tolist() if not np.iscomplexobj(a) else [str(v) for v in a.ravel()]
        flat = a.ravel()
        head = flat[:n]
        return {
            "shape": list(a.shape),
            "head": head.tolist() if not np.iscomplexobj(a) else [str(v) for v in head],
        }
    except Exception:
        return repr(x)[:300]


class Obs:
    def __init__(self, prop, case):
        self.prop = prop
        self.case = case
        self.n_checks = 0
        self.violations = []
        self.worst = {}
        self.cover = {}
        self.mon = {}
        self.info = {}
        self.nontrivial = False
        self.status = None  # refused / ambiguous set explicitly
        self.reason = None
        self.base_tags = {}

    # -- bookkeeping -------------------------------------------------------
    def tag(self, **kw):
        self.base_tags.update({k: v for k, v in kw.items()})

    def cell(self, *names):
        for n in names:
            self.cover[n] = self.cover.get(n, 0) + 1

    def count(self, name, n=1):
        self.mon[name] = self.mon.get(name, 0) + int(n)

    def note(self, key, value):
        self.info[key] = value

    def refuse(self, reason):
        raise Refused(reason)

    def ambiguous(self, reason):
        raise Ambiguous(reason)

    # -- assertions --------------------------------------------------------
    def fail(self, name, msg="", tags=None, **detail):
        t = dict(self.base_tags)
        t["check"] = name
        if tags:
            t.update(tags)
        if "symptom" not in t:
            t["symptom"] = name
        self.violations.append(
            {"tags": t, "msg": str(msg)[:600], "detail": {k: _short(v) for k, v in detail.items()}}
        )

    def check(self, name, ok, msg="", tags=None, **detail):
        self.n_checks += 1
        if not bool(ok):
            self.fail(name, msg, tags, **detail)
        return bool(ok)

    def close(self, name, got, want, tol, scale=None, tags=None, msg=""):
        """|got - want| <= tol * scale (scale defaults to max(|want|, tiny)).
        NaN / shape mismatch is a failure.  Records the worst err/tol ratio."""
        self.n_checks += 1
        try:
            g = np.asarray(got)
            w = np.asarray(want)
            if g.shape != w.shape:
                g, w = np.broadcast_arrays(g, w)
        except Exception as e:  # shape mismatch
            self.fail(name, f"shape mismatch {np.shape(got)} vs {np.shape(want)}: {e}", tags)
            return False
        if scale is None:
            scale = float(np.max(np.abs(w))) if w.size else 0.0
        scale = max(float(scale), np.finfo(float).tiny)
        if g.size == 0:
            return True
        nan_g = np.isnan(g)
        nan_w = np.isnan(w)
        if (nan_g != nan_w).any():
            self.fail(
                name,
                msg or f"NaN pattern differs ({int(nan_g.sum())} vs {int(nan_w.sum())} NaNs)",
                tags,
                got=g,
                want=w,
            )
            return False
        same_inf = np.isinf(g) & np.isinf(w) & (np.sign(np.real(g)) == np.sign(np.real(w)))
        skip = nan_g | same_inf
        with np.errstate(invalid="ignore"):
            d = np.abs(np.where(skip, 0, g) - np.where(skip, 0, w))
        err = float(d.max()) / scale
        if not np.isfinite(err):
            self.fail(name, msg or "non-finite difference", tags, got=g, want=w)
            return False
        ratio = err / tol if tol > 0 else (0.0 if err == 0 else np.inf)
        if err <= tol and ratio > self.worst.get(name, 0.0):
            self.worst[name] = ratio  # head-room statistic over *passing* evaluations
        if err > tol:
            self.fail(
                name,
                msg or f"relative error {err:.3e} > tol {tol:.1e} (scale {scale:.3e})",
                tags,
                got=g,
                want=w,
                err=err,
            )
            return False
        return True

    def le(self, name, a, b, slack=0.0, tags=None, msg=""):
        self.n_checks += 1
        a = np.asarray(a, dtype=float)
        b = np.asarray(b, dtype=float)
        ok = bool(np.all(a <= b + slack)) and not (np.isnan(a).any() or np.isnan(b).any())
        if not ok:
            self.fail(name, msg or "ordering/inequality violated", tags, lhs=a, rhs=b)
        return ok

    # -- result ------------------------------------------------------------
    def result(self, status=None, reason=None, wall=0.0):
        if status is None:
            status = "violated" if self.violations else "held"
        return {
            "case": self.case,
            "status": status,
            "reason": reason,
            "n_checks": self.n_checks,
            "nontrivial": bool(self.nontrivial),
            "violations": self.violations,
            "worst": self.worst,
            "cover": self.cover,
            "mon": self.mon,
            "info": self.info,
            "wall": round(wall, 3),
        }


def exception_site(exc, repo):
    """Innermost frame of the traceback that lies in the repository under test."""
    site = None
    for fs in traceback.extract_tb(exc.__traceback__):
        if fs.filename.startswith(repo + "/xeofs"):
            site = f"{fs.filename[len(repo) + 1:]}:{fs.name}"
    return site
