"""Source-free failpoints: raise an exception at the k-th executed statement inside the package under test.

sys.monitoring (3.12) LINE events are counted for code objects whose file lives under <repo>/xeofs; every other code
location is switched off on first sight (DISABLE), so numpy / xarray run at full speed.  The callback raises
`InjectedFault` at the chosen event: the exception propagates into the monitored code exactly as if the statement
itself had raised (an interrupt, a MemoryError, a failing backend call), and unwinds through whatever cleanup the
library has.  Nothing in the repository is edited.
"""
import os
import sys

from .boot import REPO

_TOOL = 3  # sys.monitoring tool id (0-5); 3 is not used by debuggers/coverage/profilers by convention
_PREFIX = os.path.join(os.path.realpath(REPO), "xeofs") + os.sep


class InjectedFault(RuntimeError):
    """raised by the failpoint (a RuntimeError: the kind of exception a backend call can raise mid-fit)"""


class _State:
    count = 0
    target = -1
    where = None
    active = False
    sites = None


def _on_line(code, line):
    fn = code.co_filename
    if not fn.startswith(_PREFIX):
        rp = os.path.realpath(fn)
        if not rp.startswith(_PREFIX):
            return sys.monitoring.DISABLE
    if not _State.active:
        return None
    _State.count += 1
    if _State.sites is not None:
        _State.sites.append(fn)
    if _State.count == _State.target:
        _State.where = f"{os.path.relpath(fn, os.path.dirname(_PREFIX.rstrip(os.sep)))}:{line}:{code.co_name}"
        _State.active = False
        raise InjectedFault(f"injected at statement #{_State.count} ({_State.where})")
    return None


def available():
    return hasattr(sys, "monitoring")


def run(fn, target=-1, trace=False):
    """Call fn() counting statements executed inside the package; raise InjectedFault at statement number `target`
    (1-based; -1 = never).  Returns dict(raised, where, count, result, error[, sites: file of every statement])."""
    mon = sys.monitoring
    mon.use_tool_id(_TOOL, "xv-failpoint")
    try:
        mon.register_callback(_TOOL, mon.events.LINE, _on_line)
        mon.set_events(_TOOL, mon.events.LINE)
        mon.restart_events()
        _State.count, _State.target, _State.where, _State.active = 0, int(target), None, True
        _State.sites = [] if trace else None
        out = dict(raised=False, where=None, result=None, error=None)
        try:
            out["result"] = fn()
        except InjectedFault as e:
            out["raised"] = True
            out["error"] = e
        except BaseException as e:  # noqa: BLE001  -- the library wrapped / replaced the injected exception
            if _State.where is None:
                raise
            out["raised"] = True
            out["error"] = e
        finally:
            _State.active = False
        out["where"] = _State.where
        out["count"] = _State.count
        if trace:
            out["sites"] = [os.path.basename(x) for x in _State.sites]
            _State.sites = None
        return out
    finally:
        mon.set_events(_TOOL, 0)
        mon.register_callback(_TOOL, mon.events.LINE, None)
        mon.free_tool_id(_TOOL)
