"""pytest plugin: run the repository's own tests as a workload under the harness's
universally valid post-conditions (icontract contracts of xv.mon).

    XEOFS_VERIF=1 XV_PLUGIN_OUT=/path/out.json  python -m pytest -p xv.pytest_plugin tests/...

Nothing is asserted inside the tests; the contracts record.  At session end the
counters and recorded failures (with the test id that was running) are dumped.
"""
import json
import os

_current = {"test": None}


def pytest_configure(config):
    from . import boot

    boot.setup_path()
    from . import mon

    mon.install_decomposer()
    mon.install_svd()
    mon.install_sanitizer()
    try:
        from .props import c11, c16  # optional extra monitors (rotation / whitening post-conditions)

        for m in (c11, c16):
            if hasattr(m, "install_monitors"):
                m.install_monitors()
    except Exception:
        pass


def pytest_runtest_setup(item):
    _current["test"] = item.nodeid


def pytest_runtest_teardown(item, nextitem):
    from . import mon

    with mon._lock:
        for f in mon.FAILS:
            f.setdefault("test", item.nodeid)


def pytest_sessionfinish(session, exitstatus):
    from . import mon

    out = os.environ.get("XV_PLUGIN_OUT")
    if not out:
        return
    with mon._lock:
        data = {
            "counts": dict(mon.COUNT),
            "fails": [
                {"name": f["name"], "msg": f["msg"], "tags": f["tags"], "test": f.get("test")} for f in mon.FAILS
            ],
            "exitstatus": int(exitstatus),
            "collected": getattr(session, "testscollected", None),
        }
    with open(out, "w") as fh:
        json.dump(data, fh)
