"""Monitors installed from the harness (never edits /repo).

Active only when XEOFS_VERIF=1.  Post-conditions are icontract `ensure`
contracts with *named* condition functions that record and return True (so a
contract never aborts what it observes); plain wrappers record back-end
invocations.  Everything is drained into the current case's Obs by drain().

All post-conditions here are universally valid (true for every legal call),
which is what allows running the repository's own test-suite under them.
"""
import os
import threading

import numpy as np

ACTIVE = os.environ.get("XEOFS_VERIF") == "1"

_lock = threading.Lock()
COUNT = {}
FAILS = []  # dicts: {"name", "msg", "tags", "detail"}
EVENTS = []  # back-end invocation events etc.
_installed = set()


class PostBroken(Exception):
    pass


def _count(name, n=1):
    with _lock:
        COUNT[name] = COUNT.get(name, 0) + n


def _fail(name, msg, tags=None, **detail):
    with _lock:
        FAILS.append({"name": name, "msg": msg, "tags": tags or {}, "detail": detail})


def event(kind, **kw):
    with _lock:
        EVENTS.append(dict(kind=kind, **kw))


def reset():
    with _lock:
        COUNT.clear()
        del FAILS[:]
        del EVENTS[:]


def drain(obs, advisory=False):
    """Move counters/failures recorded since the last reset into obs."""
    with _lock:
        counts = dict(COUNT)
        fails = list(FAILS)
        events = list(EVENTS)
        COUNT.clear()
        del FAILS[:]
        del EVENTS[:]
    for k, v in counts.items():
        obs.count(k, v)
        obs.n_checks += v if k.startswith("post:") else 0
    for f in fails:
        if advisory:
            obs.info.setdefault("advisory", []).append(f)
        else:
            obs.fail(f["name"], f["msg"], tags=dict(f["tags"], monitor=f["name"]), **f["detail"])
    return events


def _is_np(a):
    return isinstance(a, np.ndarray)


def _vals(x):
    d = getattr(x, "data", x)
    return d if _is_np(d) else None


# --------------------------------------------------------------------- M-DEC
def _svd_postcondition(name, U, s, V, real, flip, tol=1e-8):
    """U (n,k), s (k,), V (p,k) numpy.  Universally valid facts about a (truncated) SVD."""
    if U is None or s is None or V is None:
        _count(name + ":lazy")
        return
    _count("post:" + name)
    if s.size == 0:
        _fail(name, "no singular values returned", {"symptom": "empty"})
        return
    if not np.all(np.isfinite(s)):
        _fail(name, "non-finite singular values", {"symptom": "nonfinite_s"}, s=s)
        return
    if np.any(s < -1e-12 * max(1.0, abs(s).max())):
        _fail(name, "negative singular values", {"symptom": "negative_s"}, s=s)
    smax = float(np.max(np.abs(s)))
    if s.size > 1 and np.any(np.diff(s) > 1e-9 * smax):
        _fail(name, "singular values not in descending order", {"symptom": "unsorted_s"}, s=s)
    if smax == 0 or not (np.all(np.isfinite(U)) and np.all(np.isfinite(V))):
        if not (np.all(np.isfinite(U)) and np.all(np.isfinite(V))):
            _fail(name, "non-finite singular vectors", {"symptom": "nonfinite_vectors"})
        return
    k = s.size
    eu = float(np.max(np.abs(U.conj().T @ U - np.eye(k))))
    ev = float(np.max(np.abs(V.conj().T @ V - np.eye(k))))
    if eu > tol:
        _fail(name, f"left singular vectors not orthonormal (max dev {eu:.2e})", {"symptom": "U_not_orthonormal"}, err=eu)
    if ev > tol:
        _fail(name, f"right singular vectors not orthonormal (max dev {ev:.2e})", {"symptom": "V_not_orthonormal"}, err=ev)
    if real and flip:
        mx = V.max(axis=0)
        mn = V.min(axis=0)
        bad = np.abs(mn) > np.abs(mx) * (1 + 1e-9) + 1e-300
        if np.any(bad):
            _fail(
                name,
                "sign convention broken: largest-magnitude loading is negative for mode(s) %s" % (np.where(bad)[0] + 1).tolist(),
                {"symptom": "sign_convention"},
                max=mx,
                min=mn,
            )


def install_decomposer():
    if "dec" in _installed or not ACTIVE:
        return
    import icontract
    from xeofs.linalg import decomposer as D

    def decomposer_post(self, X):
        try:
            U, s, V = _vals(self.U_), _vals(self.s_), _vals(self.V_)
            if U is not None:
                U = np.asarray(self.U_.transpose(..., "mode").values)
                V = np.asarray(self.V_.transpose(..., "mode").values)
            real = not np.iscomplexobj(X.data)
            _svd_postcondition("Decomposer.fit", U, s, V, real, self.flip_signs)
        except Exception as e:  # monitor must never break the observed call
            _count("monitor_error:Decomposer.fit")
            event("monitor_error", where="Decomposer.fit", err=repr(e))
        return True

    D.Decomposer.fit = icontract.ensure(decomposer_post, error=PostBroken)(D.Decomposer.fit)

    orig_svd = D.Decomposer._svd

    def _svd(self, X, dims, func, kwargs):
        backend = getattr(func, "__name__", repr(func))
        _count("backend:" + backend)
        event(
            "backend",
            where="Decomposer",
            backend=backend,
            kwargs={k: (v if isinstance(v, (int, float, str, bool, type(None))) else repr(v)[:60]) for k, v in kwargs.items()},
            solver=self.solver,
            shape=tuple(X.shape),
        )
        return orig_svd(self, X, dims, func, kwargs)

    D.Decomposer._svd = _svd
    _installed.add("dec")


def install_svd():
    if "svd" in _installed or not ACTIVE:
        return
    import icontract
    from xeofs.linalg._numpy import _svd as S

    def svd_post(self, X, result):
        try:
            U, s, V = result
            if _is_np(U) and _is_np(s) and _is_np(V):
                real = not (np.iscomplexobj(X))
                _svd_postcondition("_SVD.fit_transform", U, s, V, real, self.flip_signs)
            else:
                _count("_SVD.fit_transform:lazy")
        except Exception as e:
            _count("monitor_error:_SVD.fit_transform")
            event("monitor_error", where="_SVD.fit_transform", err=repr(e))
        return True

    S._SVD.fit_transform = icontract.ensure(svd_post, error=PostBroken)(S._SVD.fit_transform)

    orig = S._SVD._svd

    def _svd(self, X, func, kwargs):
        backend = getattr(func, "__name__", repr(func))
        _count("backend:" + backend)
        event(
            "backend",
            where="_SVD",
            backend=backend,
            kwargs={k: (v if isinstance(v, (int, float, str, bool, type(None))) else repr(v)[:60]) for k, v in kwargs.items()},
            solver=self.solver,
            shape=tuple(X.shape),
        )
        return orig(self, X, func, kwargs)

    S._SVD._svd = _svd
    _installed.add("svd")


# --------------------------------------------------------------------- M-SAN
def install_sanitizer():
    if "san" in _installed or not ACTIVE:
        return
    import icontract
    from xeofs.preprocessing import sanitizer as Z

    def sanitizer_post(self, X, result):
        try:
            if self.check_nans:
                v = _vals(result)
                if v is not None:
                    _count("post:Sanitizer.transform")
                    if np.isnan(v).any():
                        _fail(
                            "Sanitizer.transform",
                            "NaN survives Sanitizer.transform with check_nans=True",
                            {"symptom": "nan_after_sanitizer"},
                        )
        except Exception as e:
            _count("monitor_error:Sanitizer.transform")
            event("monitor_error", where="Sanitizer.transform", err=repr(e))
        return True

    Z.Sanitizer.transform = icontract.ensure(sanitizer_post, error=PostBroken)(Z.Sanitizer.transform)
    _installed.add("san")


# --------------------------------------------------------------------- M-FPE
class FPE:
    """numpy floating-point error callback: records invalid/divide/overflow events with the xeofs call site."""

    def __init__(self, repo):
        self.repo = repo
        self.events = {}

    def __enter__(self):
        import sys

        def cb(kind, flag):
            f = sys._getframe(1)
            site = None
            while f is not None:
                fn = f.f_code.co_filename
                if fn.startswith(self.repo + "/xeofs"):
                    site = f"{fn[len(self.repo) + 1:]}:{f.f_code.co_name}"
                    break
                f = f.f_back
            key = f"{kind}@{site}"
            self.events[key] = self.events.get(key, 0) + 1

        self._old_call = np.seterrcall(cb)
        self._old = np.seterr(invalid="call", divide="call", over="call")
        return self

    def __exit__(self, *a):
        np.seterr(**self._old)
        np.seterrcall(self._old_call)
        return False
