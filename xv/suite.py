"""Workload 'repository test-suite under contracts': runs selected test files of the repo with
xv.pytest_plugin and folds the recorded post-condition evaluations / failures into an Obs."""
import json
import os
import subprocess
import sys
import tempfile

from .boot import REPO, VERIF


def run_suite(obs, paths, timeout=1500):
    out = tempfile.mktemp(prefix="xv-suite-", suffix=".json")
    env = dict(os.environ)
    env["XEOFS_VERIF"] = "1"
    env["XV_PLUGIN_OUT"] = out
    env["PYTHONPATH"] = VERIF + (os.pathsep + env["PYTHONPATH"] if env.get("PYTHONPATH") else "")
    cmd = [sys.executable, "-m", "pytest", "-q", "-x", "-p", "xv.pytest_plugin", "-p", "no:cacheprovider", "--timeout=900"] + list(paths)
    try:
        r = subprocess.run(cmd, cwd=REPO, env=env, capture_output=True, text=True, timeout=timeout)
    except subprocess.TimeoutExpired:
        e = RuntimeError("suite-under-contracts timed out")
        e._xv_harness = True
        raise e
    if not os.path.exists(out):
        e = RuntimeError("suite-under-contracts produced no monitor dump: " + (r.stdout or "")[-400:] + (r.stderr or "")[-400:])
        e._xv_harness = True
        raise e
    with open(out) as f:
        d = json.load(f)
    os.unlink(out)
    n_post = 0
    for k, v in d["counts"].items():
        obs.count("suite:" + k, v)
        if k.startswith("post:"):
            n_post += v
    obs.n_checks += n_post
    obs.note("suite_exitstatus", d["exitstatus"])
    obs.note("suite_collected", d.get("collected"))
    # the suite's own outcome is not this property's verdict (it is the baseline's); only contracts count
    for f in d["fails"]:
        obs.fail(
            f["name"],
            f"{f['msg']} (while running {f.get('test')})",
            tags=dict(f["tags"], monitor=f["name"], workload="repo_test_suite"),
        )
    obs.nontrivial = n_post > 0
    return d
