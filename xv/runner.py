"""./check <ID> <quick|thorough> [--replay PATH] [--jobs N]

Parent: derive the deterministic case list, shard it over worker
subprocesses (subprocess.run with a timeout, never multiprocessing.Pool),
aggregate, classify against known_findings.json, write evidence/<ID>.json,
print KNOWN-FINDING / VIOLATION / INCONCLUSIVE lines.

Exit: 0 held on everything explored; 1 violation (unlisted); 2 inconclusive.
"""
import hashlib
import importlib
import json
import os
import signal
import subprocess
import sys
import time
import traceback

from . import boot

TIERS = ("quick", "thorough")
CASE_TIMEOUT = {"quick": 150, "thorough": 400}
WORKER_TIMEOUT = {"quick": 1500, "thorough": 6 * 3600}
MAX_JOBS = 16


def canon(case):
    c = {k: v for k, v in case.items() if k != "id"}
    return json.dumps(c, sort_keys=True, default=str)


def _jsonable(o):
    import numpy as np

    if isinstance(o, dict):
        return {str(k): _jsonable(v) for k, v in o.items()}
    if isinstance(o, (list, tuple, set)):
        return [_jsonable(v) for v in o]
    if isinstance(o, (np.integer,)):
        return int(o)
    if isinstance(o, (np.floating,)):
        f = float(o)
        return f if f == f and abs(f) != float("inf") else repr(f)
    if isinstance(o, float):
        return o if o == o and abs(o) != float("inf") else repr(o)
    if isinstance(o, (np.bool_,)):
        return bool(o)
    if isinstance(o, (complex, np.complexfloating)):
        return str(o)
    if isinstance(o, np.ndarray):
        return _jsonable(o.tolist())
    if isinstance(o, (str, int, bool)) or o is None:
        return o
    return repr(o)[:300]


def load_prop(pid):
    return importlib.import_module(f"xv.props.{pid.lower()}")


def get_cases(mod, tier, seed):
    cases = mod.cases(tier, seed)
    for i, c in enumerate(cases):
        c["id"] = f"{i:05d}"
    return cases


# --------------------------------------------------------------------------
# worker
# --------------------------------------------------------------------------
class _CaseTimeout(Exception):
    pass


def _alarm(signum, frame):
    raise _CaseTimeout()


def run_one(mod, pid, case, timeout):
    from .obs import Ambiguous, Obs, Refused, exception_site

    obs = Obs(pid, case)
    t0 = time.time()
    signal.signal(signal.SIGALRM, _alarm)
    signal.alarm(int(timeout))
    try:
        mod.run_case(case, obs)
        res = obs.result(wall=time.time() - t0)
    except Refused as e:
        res = obs.result("refused" if not obs.violations else "violated", str(e), time.time() - t0)
    except Ambiguous as e:
        res = obs.result("ambiguous" if not obs.violations else "violated", str(e), time.time() - t0)
    except _CaseTimeout:
        res = obs.result("timeout", f"case exceeded {timeout}s", time.time() - t0)
    except MemoryError:
        res = obs.result("error", "MemoryError", time.time() - t0)
    except BaseException as e:  # noqa: BLE001
        if isinstance(e, KeyboardInterrupt):
            raise
        site = exception_site(e, boot.REPO)
        tb = traceback.format_exc()[-1800:]
        if site is not None and not getattr(e, "_xv_harness", False):
            # the code under test raised on a call the property says must succeed
            obs.n_checks += 1
            obs.fail(
                "unexpected_exception",
                f"{type(e).__name__}: {e}",
                tags={"symptom": "exception", "exc": type(e).__name__, "site": site},
                traceback=tb,
            )
            res = obs.result(wall=time.time() - t0)
        else:
            res = obs.result("error", f"harness error {type(e).__name__}: {e}\n{tb}", time.time() - t0)
    finally:
        signal.alarm(0)
    return res


def worker_main(argv):
    pid, tier, seed, shard, nshards, out = argv[0], argv[1], int(argv[2]), int(argv[3]), int(argv[4]), argv[5]
    boot.init_worker()
    mod = load_prop(pid)
    if hasattr(mod, "setup"):
        mod.setup(tier)
    if argv[6:] and argv[6] == "--replay":
        with open(argv[7]) as f:
            rec = json.load(f)
        cases = [rec["case"]]
        shard, nshards = 0, 1
    else:
        cases = get_cases(mod, tier, seed)
    results = []
    for i, case in enumerate(cases):
        if i % nshards != shard:
            continue
        results.append(run_one(mod, pid, case, CASE_TIMEOUT[tier]))
        if len(results) % 50 == 0:
            _dump(out + ".partial", results, mod)
    _dump(out, results, mod)
    return 0


def _dump(path, results, mod):
    extra = mod.worker_summary() if hasattr(mod, "worker_summary") else {}
    with open(path + ".tmp", "w") as f:
        json.dump(_jsonable({"results": results, "extra": extra}), f)
    os.replace(path + ".tmp", path)


# --------------------------------------------------------------------------
# parent
# --------------------------------------------------------------------------
def mech_key(tags):
    keep = {k: v for k, v in tags.items() if isinstance(v, (str, bool)) or v is None}
    return json.dumps(keep, sort_keys=True)


def parent_main(argv):
    import tempfile

    if len(argv) < 1:
        print(__doc__)
        return 2
    pid = argv[0].upper()
    tier = os.environ.get("VERIF_TIER", "quick")
    replay = None
    jobs = MAX_JOBS
    rest = argv[1:]
    i = 0
    while i < len(rest):
        a = rest[i]
        if a in TIERS:
            tier = a
        elif a == "--replay":
            replay = rest[i + 1]
            i += 1
        elif a == "--jobs":
            jobs = int(rest[i + 1])
            i += 1
        i += 1
    seed = int(os.environ.get("VERIF_SEED", "0"))
    t0 = time.time()

    env = boot.pin_env(dict(os.environ))
    boot.pin_env()
    boot.setup_path()
    if not boot.ensure_deps():
        print(f"INCONCLUSIVE property={pid} reason=icontract could not be installed from the wheelhouse")
        return 2
    mod = load_prop(pid)
    level = getattr(mod, "LEVEL", "exploration")

    if replay:
        with open(replay) as f:
            rec = json.load(f)
        cases = [rec["case"]]
        tier = rec.get("tier", tier)
    else:
        cases = get_cases(mod, tier, seed)
    n = len(cases)
    nshards = max(1, min(jobs, n))
    tmpdir = tempfile.mkdtemp(prefix=f"xv-{pid}-")
    procs = []
    for s in range(nshards):
        out = os.path.join(tmpdir, f"shard{s}.json")
        cmd = [sys.executable, "-m", "xv.runner", "--worker", pid, tier, str(seed), str(s), str(nshards), out]
        if replay:
            cmd += ["--replay", os.path.abspath(replay)]
        # worker output goes to files: a full pipe would block a chatty worker until the parent reads it
        errf = open(os.path.join(tmpdir, f"shard{s}.err"), "w+")
        p = subprocess.Popen(cmd, cwd=boot.VERIF, env=env, stdout=subprocess.DEVNULL, stderr=errf, text=True)
        procs.append((s, out, p, errf))
    results, extras, worker_problems = [], [], []
    deadline = time.time() + WORKER_TIMEOUT[tier]
    for s, out, p, errf in procs:
        try:
            p.wait(timeout=max(5, deadline - time.time()))
        except subprocess.TimeoutExpired:
            p.kill()
            p.wait()
            worker_problems.append(f"worker {s} exceeded the wall-clock watchdog")
        try:
            errf.seek(max(0, errf.tell() - 4000))
            se = errf.read()
        except Exception:
            se = ""
        errf.close()
        path = out if os.path.exists(out) else (out + ".partial" if os.path.exists(out + ".partial") else None)
        if p.returncode != 0:
            worker_problems.append(f"worker {s} exit {p.returncode}: {(se or '')[-600:]}")
        if path:
            with open(path) as f:
                d = json.load(f)
            results.extend(d["results"])
            extras.append(d.get("extra", {}))
    try:
        import shutil

        shutil.rmtree(tmpdir)
    except Exception:
        pass
    results.sort(key=lambda r: r["case"].get("id", ""))
    if os.environ.get("XV_KEEP"):
        with open(os.environ["XV_KEEP"], "w") as f:
            json.dump(results, f)
    rc = finish(mod, pid, tier, seed, level, cases, results, extras, worker_problems, t0, replay)
    return rc


def finish(mod, pid, tier, seed, level, cases, results, extras, worker_problems, t0, replay):
    from . import kf

    findings = kf.load()
    status_counts = {}
    mon, cover, worst = {}, {}, {}
    oracle_evals = 0
    nontrivial = set()
    for r in results:
        status_counts[r["status"]] = status_counts.get(r["status"], 0) + 1
        oracle_evals += r["n_checks"]
        for k, v in r["mon"].items():
            mon[k] = mon.get(k, 0) + v
        for k, v in r["cover"].items():
            cover[k] = cover.get(k, 0) + v
        for k, v in r["worst"].items():
            if isinstance(v, (int, float)) and v > worst.get(k, 0.0):
                worst[k] = v
        if r["nontrivial"] and r["status"] in ("held", "violated"):
            nontrivial.add(hashlib.sha1(canon(r["case"]).encode()).hexdigest())
    for e in extras:
        for k, v in (e.get("mon") or {}).items():
            mon[k] = mon.get(k, 0) + v

    # ---- violations --------------------------------------------------
    known = {}  # kfid -> {"n":..., "tagsets": set}
    unlisted = {}  # mech -> first (result, violation)
    n_viol = 0
    for r in results:
        for v in r["violations"]:
            n_viol += 1
            tags = dict(v["tags"])
            fid = kf.classify(pid, tags, findings)
            if fid:
                d = known.setdefault(fid, {"n": 0, "tagsets": set(), "first": (r, v)})
                d["n"] += 1
                d["tagsets"].add(mech_key(tags))
            else:
                unlisted.setdefault(mech_key(tags), (r, v, []))[2].append(r["case"].get("id"))

    # ---- inconclusive reasons ------------------------------------------
    inconclusive = list(worker_problems)
    if len(results) < len(cases):
        inconclusive.append(f"only {len(results)} of {len(cases)} cases reported")
    for st in ("timeout", "error"):
        if status_counts.get(st):
            first = next(r for r in results if r["status"] == st)
            inconclusive.append(
                f"{status_counts[st]} case(s) ended in '{st}' (first: case {first['case'].get('id')}: {str(first['reason'])[:400]})"
            )
    if not replay:
        req = mod.required(tier) if hasattr(mod, "required") else {}
        for m in req.get("mon", []):
            if mon.get(m, 0) == 0:
                inconclusive.append(f"deciding monitor '{m}' was never evaluated")
        for c in req.get("cover", []):
            if cover.get(c, 0) == 0:
                inconclusive.append(f"promised coverage cell '{c}' was never reached")
        max_ref = req.get("max_refused_share", 0.5)
        decided = status_counts.get("held", 0) + status_counts.get("violated", 0)
        if results and decided == 0:
            inconclusive.append("no case reached a verdict (all refused/ambiguous)")
        elif results and status_counts.get("refused", 0) > max_ref * len(results):
            inconclusive.append(
                f"{status_counts.get('refused', 0)} of {len(results)} cases refused (> {max_ref:.0%} budget)"
            )
        if oracle_evals == 0:
            inconclusive.append("no oracle evaluation happened")

    # ---- replays -------------------------------------------------------
    rdir = os.path.join(boot.VERIF, "replays", pid)
    lines = []
    fopen = {f["id"]: f for f in findings}
    for fid, d in sorted(known.items()):
        lines.append(f"KNOWN-FINDING: property={pid} {fopen[fid]['what']} [{fid}; {d['n']} observation(s)]")
    viol_lines = []
    if unlisted:
        os.makedirs(rdir, exist_ok=True)
    for k, (r, v, ids) in list(unlisted.items()):
        h = hashlib.sha1(k.encode()).hexdigest()[:10]
        path = os.path.join(rdir, f"{tier}-s{seed}-{r['case'].get('id', 'x')}-{h}.json")
        with open(path, "w") as f:
            json.dump(
                _jsonable(
                    {
                        "property": pid,
                        "tier": tier,
                        "seed": seed,
                        "case": r["case"],
                        "violation": v,
                        "all_violations_of_case": r["violations"],
                        "same_mechanism_cases": ids[:50],
                        "info": r.get("info"),
                        "replay_cmd": f"./check {pid} --replay {path}",
                    }
                ),
                f,
                indent=1,
            )
        viol_lines.append((path, v))

    # ---- evidence ------------------------------------------------------
    samples = []
    for r in results[:2] + results[len(results) // 2 : len(results) // 2 + 1]:
        samples.append({"case": r["case"], "status": r["status"], "n_checks": r["n_checks"], "worst": r["worst"]})
    ev = {
        "property_id": pid,
        "tier": tier,
        "seed": seed,
        "level": level,
        "coverage": {
            "evaluations": len(results),
            "distinct_nontrivial": len(nontrivial),
            "rule": getattr(mod, "RULE", ""),
            "samples": samples,
            "oracle_evaluations": oracle_evals,
            "status_counts": status_counts,
            "monitor_counters": mon,
            "coverage_cells": cover,
            "worst_error_over_tolerance": {k: round(v, 6) for k, v in sorted(worst.items())},
            "known_findings_observed": {
                fid: {"observations": d["n"], "distinct_tagsets": sorted(d["tagsets"])[:40]}
                for fid, d in known.items()
            },
            "unlisted_violation_mechanisms": len(unlisted),
            "inconclusive_reasons": inconclusive,
            "exhaustive": bool(getattr(mod, "EXHAUSTIVE", {}).get(tier, False)),
        },
        "assumptions": list(getattr(mod, "ASSUMPTIONS", [])),
        "wall_s": round(time.time() - t0, 2),
        "violations": len(unlisted),
    }
    if hasattr(mod, "evidence_extra"):
        try:
            ev["coverage"].update(mod.evidence_extra(results, extras))
        except Exception as e:  # noqa: BLE001
            ev["coverage"]["evidence_extra_error"] = repr(e)
    if not replay and not os.environ.get("XV_NO_EVIDENCE"):
        os.makedirs(os.path.join(boot.VERIF, "evidence"), exist_ok=True)
        with open(os.path.join(boot.VERIF, "evidence", f"{pid}.json"), "w") as f:
            json.dump(_jsonable(ev), f, indent=1)

    # ---- report --------------------------------------------------------
    print(
        f"[{pid} {tier} seed={seed}] cases={len(results)} {status_counts} oracle_evals={oracle_evals} "
        f"nontrivial={len(nontrivial)} wall={time.time() - t0:.1f}s"
    )
    if worst:
        w = sorted(worst.items(), key=lambda kv: -kv[1])[:4]
        print("  worst err/tol: " + ", ".join(f"{k}={v:.2e}" for k, v in w))
    for ln in lines:
        print(ln)
    for path, v in viol_lines[:25]:
        print(f"  violation: {v['tags']} :: {v['msg'][:300]}")
        print(f"VIOLATION property={pid} replay={path}")
    if len(viol_lines) > 25:
        print(f"  ... {len(viol_lines) - 25} further distinct mechanisms (replays written)")
    if viol_lines:
        return 1
    if inconclusive:
        for r in inconclusive:
            print(f"INCONCLUSIVE property={pid} reason={r}")
        return 2
    print(f"HELD property={pid} on everything explored")
    return 0


def main():
    argv = sys.argv[1:]
    if argv and argv[0] == "--worker":
        sys.exit(worker_main(argv[1:]))
    sys.exit(parent_main(argv))


if __name__ == "__main__":
    main()
