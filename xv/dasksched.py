"""M-DASK: observe every dask scheduler entry and every task completion.

`Sched` is installed as dask's scheduler callable (`dask.config.set(scheduler=...)`).
Every entry is recorded together with the innermost frame of the repository
under test, then delegated to the synchronous or the threaded scheduler.
A `dask.callbacks.Callback` records the order in which tasks finish and can
inject small sleeps before random tasks (schedule diversity under threads).

Monitor state is only touched in the scheduler entry (calling thread) and in
callbacks appending to a deque (atomic) -- the monitor cannot become the race.
"""
import collections
import hashlib
import random
import sys
import time

import dask
import dask.local
import dask.threaded
from dask.callbacks import Callback

from .boot import REPO


def _repo_site():
    f = sys._getframe(2)
    site = None
    chain = []
    while f is not None:
        fn = f.f_code.co_filename
        if fn.startswith(REPO + "/xeofs"):
            s = f"{fn[len(REPO) + 1:]}:{f.f_code.co_name}:{f.f_lineno}"
            chain.append(s)
            if site is None:
                site = s
        f = f.f_back
    return site, chain[:6]


class Sched(Callback):
    def __init__(self, mode="sync", workers=1, delay_p=0.0, delay_max=0.002, seed=0):
        self.mode = mode
        self.workers = workers
        self.entries = []  # dicts
        self.done = collections.deque()
        self.orders = []  # (n_tasks, hash) per graph execution
        self.delay_p = delay_p
        self.delay_max = delay_max
        self._rnd = random.Random(seed)
        self.phase = "idle"
        self._cur = None

    # ---- scheduler callable ---------------------------------------------------
    def __call__(self, dsk, keys, **kwargs):
        site, chain = _repo_site()
        try:
            ntasks = len(dsk)
        except Exception:
            ntasks = -1
        self.entries.append({"phase": self.phase, "site": site, "chain": chain, "ntasks": ntasks})
        mark = len(self.done)
        kwargs.pop("num_workers", None)
        if self.mode == "sync":
            out = dask.local.get_sync(dsk, keys, **kwargs)
        else:
            out = dask.threaded.get(dsk, keys, num_workers=self.workers, **kwargs)
        finished = list(self.done)[mark:]
        h = hashlib.sha1("|".join(finished).encode()).hexdigest()[:12]
        self.orders.append((len(finished), h))
        return out

    # ---- dask callback ----------------------------------------------------------
    def _pretask(self, key, dsk, state):
        if self.delay_p and self._rnd.random() < self.delay_p:
            time.sleep(self._rnd.random() * self.delay_max)

    def _posttask(self, key, result, dsk, state, worker_id):
        self.done.append(_stable_key(key))

    # ---- helpers ------------------------------------------------------------------
    def count(self, phase=None):
        return sum(1 for e in self.entries if phase is None or e["phase"] == phase)

    def sites(self, phase=None):
        return [e["site"] for e in self.entries if phase is None or e["phase"] == phase]

    def install(self):
        self._cfg = dask.config.set(scheduler=self)
        self._cfg.__enter__()
        self.register()
        return self

    def uninstall(self):
        try:
            self.unregister()
        except Exception:
            pass
        self._cfg.__exit__(None, None, None)


def _stable_key(key):
    """Task keys contain tokens that differ from run to run; keep the name prefix and the chunk index."""
    if isinstance(key, tuple):
        name = str(key[0])
        base = name.rsplit("-", 1)[0] if "-" in name else name
        return base + ":" + ",".join(str(k) for k in key[1:])
    name = str(key)
    return name.rsplit("-", 1)[0] if "-" in name else name
