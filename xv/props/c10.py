"""C10 -- named methods coincide with the general method at their special parameter values.

Relation between two executions of the REAL code: two differently named / parameterised models are
fitted on the same labelled data (solver="full") and every public result is compared mode by mode,
after estimating ONE sign (real) / ONE unit-modulus phase (complex-valued decomposition) per mode
from the field-1 components and applying it to all components and scores of that mode.  An
independent numpy oracle (c09_ref) supplies the singular spectrum of the problem only to decide
whether individual modes are unique (relative gap >= 1e-3, else skipped_ambiguous).

pairs:  mca_cpcca / cca_cpcca / rda_cpcca (x real, Complex, Hilbert)   named class == CPCCA(alpha)
        mca_xx_eof (x real, Complex, Hilbert)    MCA(X, X) == EOF(X): patterns, sigma == explained variance
        complex_on_real (ComplexEOF, ComplexMCA, ComplexCCA, ComplexRDA, ComplexCPCCA on real data)
        eeof1_eof      ExtendedEOF(embedding=1) == EOF
        spca0_eof      SparsePCA(alpha=0, beta=0) == EOF
        pca_all_vs_none   use_pca=True, n_pca_modes="all" == use_pca=False (n > p)
        multicca_crosscca  two-view multi.CCA(pca=False) vs cross.CCA: Pearson correlations of paired variates (1e-4)
"""
import copy
import warnings

import numpy as np

from .. import gen, mon, oracle, xu
from . import c09
from . import c09_ref as R

LEVEL = "exploration"
RULE = (
    "structured corpus (every pair x variant, 6 fixed draws each) + seeded random draws of the pair kind and of "
    "all free parameters (N 12..60, p 1..8 or p>n behind PCA / for alpha=1, n_modes 1..rank, per-field "
    "standardize/coslat/weights/PCA spec, alpha, Hilbert padding, tau, regulariser); the data are built with "
    "geometric spectra; a case whose reference spectrum has a relative gap < 1e-3 among the compared modes is "
    "skipped_ambiguous; non-trivial = at least one mode compared on a field with >= 2 features; distinct = "
    "distinct canonical case record"
)
ASSUMPTIONS = [
    "both members of a pair are fitted with solver='full'; PCA pre-reduction inside cross-set models uses its own "
    "default solver (exact or range-capturing randomised SVD on these sizes)",
    "mode-by-mode comparison is only asserted where the oracle spectrum has relative gaps >= 1e-3",
    "one sign per mode is estimated from the field-1 components and applied to all components and scores of that "
    "mode (one unit-modulus phase for complex-valued decompositions, DESIGN section 4)",
    "ExtendedEOF(embedding=1) is compared with EOF for center=True only (ExtendedEOF always centres the embedded data)",
    "multi.CCA vs cross.CCA: fields with covariance condition <= ~25 and unit scale, because the multi-set solver "
    "adds an ABSOLUTE ridge eps=1e-6; only the Pearson correlations of paired variates are compared (1e-4)",
]
TOL = 1e-9
FAMS = ("MCA", "CCA", "RDA")
VARS = ("real", "Complex", "Hilbert")
PREFIX = {"real": "", "Complex": "Complex", "Hilbert": "Hilbert"}
COMPLEX_ON_REAL = ("ComplexEOF", "ComplexMCA", "ComplexCCA", "ComplexRDA", "ComplexCPCCA")


def setup(tier):
    mon.install_decomposer()


def required(tier):
    cover = [f"pair:{f.lower()}_cpcca:{v}" for f in FAMS for v in VARS]
    cover += [f"pair:mca_xx_eof:{v}" for v in VARS]
    cover += [f"pair:complex_on_real:{c}" for c in COMPLEX_ON_REAL]
    cover += ["pair:eeof1_eof", "pair:spca0_eof", "pair:pca_all_vs_none", "pair:multicca_crosscca"]
    cover += [f"compared:{f.lower()}_cpcca:{v}" for f in FAMS for v in VARS]
    cover += [f"compared:mca_xx_eof:{v}" for v in VARS]
    cover += [f"compared:complex_on_real:{c}" for c in COMPLEX_ON_REAL]
    cover += ["compared:spca0_eof", "compared:pca_all_vs_none", "compared:multicca_crosscca", "multicca:unit_mix", "complex_on_real:dask", "complex_on_real:dask_auto"]
    # 'compared:eeof1_eof' is deliberately not promised: on the pinned tree the fit raises (known defect)
    return {"mon": ["post:Decomposer.fit"], "cover": cover}


# --------------------------------------------------------------------------- cases
def _moderate(c, rng):
    c["scale_exp"] = int(rng.choice([0, 0, 0, -3, -1, 2, 5]))
    c["solver"] = "full"
    c.pop("random_state", None)
    return c


def _single_field(rng, cplx=False, allow_wide=True):
    wide = bool(allow_wide and rng.random() < 0.15)
    n = int(rng.integers(12, 21)) if wide else int(rng.integers(12, 61))
    if wide:
        p, r = int(rng.integers(n + 1, n + 9)), int(rng.integers(2, 9))
    else:
        p = int(rng.integers(2, 9))
        r = p
    f = dict(
        p=p,
        r=r,
        standardize=bool(rng.random() < 0.3),
        coslat=bool(rng.random() < 0.25),
        weights=bool(rng.random() < 0.3),
        nfd=int(rng.integers(1, 3)),
        pca=["none"],
    )
    return n, f


def _draw(rng, pair=None, sub=None):
    kinds = ["named_cpcca", "mca_xx_eof", "complex_on_real", "eeof1_eof", "spca0_eof", "pca_all_vs_none", "multicca_crosscca"]
    pair = pair or str(rng.choice(kinds, p=[0.3, 0.14, 0.16, 0.08, 0.1, 0.12, 0.1]))
    if pair == "named_cpcca":
        fam, var = sub or (str(rng.choice(FAMS)), str(rng.choice(VARS)))
        c = c09._draw(rng, cls=PREFIX[var] + fam, data=str(rng.choice(["generic", "indep"], p=[0.85, 0.15])))
        c = _moderate(c, rng)
        c["pair"] = f"{fam.lower()}_cpcca"
        c["sub"] = var
        return c
    if pair == "mca_xx_eof":
        var = sub or str(rng.choice(VARS))
        n, f = _single_field(rng)
        if var == "Hilbert":
            n = max(n, 22)
        if f["p"] < n and rng.random() < 0.4:
            f["pca"] = ["all"]
        c = dict(pair=pair, sub=var, cls=PREFIX[var] + "MCA", alpha=[1.0, 1.0], n=n, fx=f, fy=copy.deepcopy(f), data="same",
                 cplx=bool(var == "Complex"), kfrac=float(np.round(rng.random(), 4)), dseed=int(rng.integers(0, 2**31 - 1)))
        if var == "Hilbert":
            c["padding"] = str(rng.choice(["exp", "none"]))
            c["decay"] = float(rng.choice([0.05, 0.2, 0.5]))
        return _moderate(c, rng)
    if pair == "complex_on_real":
        cls = sub or str(rng.choice(COMPLEX_ON_REAL))
        if cls == "ComplexEOF":
            n, f = _single_field(rng)
            c = dict(pair=pair, sub=cls, cls=cls, n=n, fx=f, fy=copy.deepcopy(f), data="same", cplx=False,
                     center=bool(rng.random() < 0.8), kfrac=float(np.round(rng.random(), 4)), dseed=int(rng.integers(0, 2**31 - 1)))
            return _moderate(c, rng)
        c = c09._draw(rng, cls=cls, data=str(rng.choice(["generic", "indep"], p=[0.85, 0.15])))
        c = _moderate(c, rng)
        c["cplx"] = False
        c["pair"] = pair
        c["sub"] = cls
        return c
    if pair in ("eeof1_eof", "spca0_eof"):
        n, f = _single_field(rng)
        c = dict(pair=pair, sub=None, cls="ExtendedEOF" if pair == "eeof1_eof" else "SparsePCA", n=n, fx=f, fy=copy.deepcopy(f),
                 data="same", cplx=False, kfrac=float(np.round(rng.random(), 4)), dseed=int(rng.integers(0, 2**31 - 1)))
        if pair == "eeof1_eof":
            c["tau"] = int(rng.integers(1, 4))
            c["center"] = True
            c["n_pca"] = bool(rng.random() < 0.3)
        else:
            c["center"] = bool(rng.random() < 0.8)
            c["regularizer"] = str(rng.choice(["l1", "l0"]))
            c["max_iter"] = int(rng.choice([20, 100, 500]))
        return _moderate(c, rng)
    if pair == "pca_all_vs_none":
        cls = sub or str(rng.choice(R.CLASSES))
        c = c09._draw(rng, cls=cls, pca_kind="none", data=str(rng.choice(["generic", "indep"], p=[0.85, 0.15])), wide=[False, False])
        c = _moderate(c, rng)
        c["pair"] = pair
        c["sub"] = cls
        c["which"] = str(rng.choice(["both", "x", "y"], p=[0.6, 0.2, 0.2]))
        return c
    if pair == "multicca_crosscca":
        c = c09._draw(rng, cls="CCA", pca_kind="none", data=str(rng.choice(["generic", "indep", "rho1"], p=[0.75, 0.15, 0.1])), wide=[False, False])
        c = _moderate(c, rng)
        c["scale_exp"] = 0
        c["spec_q"] = [0.82, 0.96]
        for f in (c["fx"], c["fy"]):
            f["standardize"] = False
            f["weights"] = False
            f["p"] = max(f["p"], 2)
            f["r"] = f["p"]
        cos = bool(rng.random() < 0.3)
        c["fx"]["coslat"] = c["fy"]["coslat"] = cos
        if c["data"] == "rho1":
            c["fy"]["p"] = c["fy"]["r"] = min(c["fy"]["p"], c["fx"]["p"])
        c["pair"] = pair
        c["sub"] = None
        if c["dseed"] % 3 == 0 and c["data"] != "rho1":
            # mixed units inside a field (half of the features 1e4 times larger): canonical correlations do not
            # depend on units, and the absolute ridge of the multi-set solver stays negligible
            c["unit_mix"] = [-4, -4] if c["dseed"] % 2 else [-4, 0]
        return c
    raise KeyError(pair)


def _structured():
    out = []
    for fam in FAMS:
        for var in VARS:
            out.append(("named_cpcca", (fam, var)))
    for var in VARS:
        out.append(("mca_xx_eof", var))
    for cls in COMPLEX_ON_REAL:
        out.append(("complex_on_real", cls))
    out += [("eeof1_eof", None), ("spca0_eof", None), ("multicca_crosscca", None)]
    for cls in R.CLASSES:
        out.append(("pca_all_vs_none", cls))
    return out


def cases(tier, seed):
    out = []
    i = 0
    for pair, sub in _structured():
        reps = 2 if pair == "pca_all_vs_none" else 6
        for _ in range(reps):
            out.append(_draw(gen.rng_for(1010, i), pair, sub))
            i += 1
    nrand = 420 if tier == "quick" else 12000
    for j in range(nrand):
        out.append(_draw(gen.rng_for(seed, 10, j)))
    return out


# --------------------------------------------------------------------------- helpers
def _fit(model, *args, **kw):
    with warnings.catch_warnings():
        warnings.simplefilter("ignore")
        model.fit(*args, **kw)
    return model


def _quiet(fn, *a, **k):
    with warnings.catch_warnings():
        warnings.simplefilter("ignore")
        return fn(*a, **k)


def read_cross(model, b, fields=(0, 1)):
    c = [b["coords"][fields[0]], b["coords"][fields[1]]]
    fd = [b["fdims"][fields[0]], b["fdims"][fields[1]]]
    s1, s2 = model.scores()
    p1, p2 = model.components()
    return dict(
        sv=np.asarray(model.data["singular_values"].sortby("mode").values, dtype=float),
        comps=[xu.feature_matrix(p1.sortby("mode"), fd[0], c[0]), xu.feature_matrix(p2.sortby("mode"), fd[1], c[1])],
        scores=[xu.sample_matrix(s1.sortby("mode"), ["time"], c[0]), xu.sample_matrix(s2.sortby("mode"), ["time"], c[1])],
    )


def read_single(model, b, eeof=False):
    c, fd = b["coords"][0], b["fdims"][0]
    comps = model.components()
    if eeof:
        comps = comps.isel(embedding=0, drop=True)
    return dict(
        sv=np.asarray(model.explained_variance().sortby("mode").values, dtype=float),
        comps=[xu.feature_matrix(comps.sortby("mode"), fd, c)],
        scores=[xu.sample_matrix(model.scores().sortby("mode"), ["time"], c)],
    )


def phases(A, B, cplx):
    """One factor g_i per mode with B[:, i] * g_i ~ A[:, i]: +-1 for real decompositions, unit modulus for complex."""
    ip = (B.conj() * A).sum(axis=0)
    if cplx:
        mod = np.abs(ip)
        return np.where(mod > 0, ip / np.where(mod > 0, mod, 1), 1.0)
    return np.where(np.real(ip) < 0, -1.0, 1.0)


def compare(obs, A, B, cplx, what="", sv_name="singular_values", pairs=None, tol=TOL):
    """A, B: dict(sv, comps[list], scores[list]).  pairs: list of (index in A, index in B) for comps/scores."""
    t = {"op": "compare"}
    k = A["sv"].size
    ok = B["sv"].size == k and all(x.shape[1] == k for x in A["comps"] + A["scores"] + B["comps"] + B["scores"])
    obs.check(what + "n_modes_equal", ok, f"{k} vs {B['sv'].size} modes", tags=dict(t, symptom="n_modes"))
    if not ok:
        return
    fin = all(np.isfinite(x).all() for x in [A["sv"], B["sv"]] + A["comps"] + A["scores"] + B["comps"] + B["scores"])
    if not obs.check(what + "finite", fin, "non-finite results", tags=dict(t, symptom="nonfinite")):
        return
    obs.close(what + sv_name, B["sv"], A["sv"], tol, scale=max(float(np.abs(A["sv"]).max()), np.finfo(float).tiny), tags=dict(t, symptom="values_differ", quantity=sv_name))
    pairs = pairs or [(i, i) for i in range(len(A["comps"]))]
    g = phases(A["comps"][pairs[0][0]], B["comps"][pairs[0][1]], cplx)
    obs.note("flips", int(np.sum(np.abs(g - 1) > 1e-6)))
    if cplx:
        obs.note("phase_max_deg", float(np.abs(np.angle(g, deg=True)).max()))
    for ia, ib in pairs:
        obs.close(what + f"components{ia + 1}", B["comps"][ib] * g, A["comps"][ia], tol, scale=max(float(np.abs(A["comps"][ia]).max()), np.finfo(float).tiny), tags=dict(t, symptom="components_differ", quantity="components"))
    for ia, ib in pairs:
        if ia < len(A["scores"]) and ib < len(B["scores"]):
            obs.close(what + f"scores{ia + 1}", B["scores"][ib] * g, A["scores"][ia], tol, scale=max(float(np.abs(A["scores"][ia]).max()), np.finfo(float).tiny), tags=dict(t, symptom="scores_differ", quantity="scores"))


def gaps_ok(obs, spec, k):
    """spec: reference spectrum (descending).  Modes 1..k must be separated from each other and from mode k+1."""
    s = np.asarray(spec, dtype=float)
    s0 = max(float(s[0]), np.finfo(float).tiny) if s.size else 1.0
    if s.size < k or s[k - 1] <= 1e-6 * s0:
        obs.ambiguous("a requested mode lies in the numerical null space of the problem")
    head = s[: min(k + 1, s.size)]
    if head.size > 1 and np.min(head[:-1] - head[1:]) < 1e-3 * s0:
        obs.ambiguous("reference spectrum has a relative gap < 1e-3 among the compared modes")


def cross_k_and_gap(obs, case, b, ax, ay):
    hs = R.hilbert_spec(case)
    try:
        rx = R.reduce_field(b["M"][0], case["fx"], b["w_cos"][0], b["w_user"][0], hs)
        ry = R.reduce_field(b["M"][1], case["fy"], b["w_cos"][1], b["w_user"][1], hs)
    except R.AmbiguousRef as e:
        obs.ambiguous(str(e))
    kmax = min(rx["q_model"], ry["q_model"])
    ref = R.cross_reference(rx["Z"], ry["Z"], ax, ay)
    for f, a in (("x", ax), ("y", ay)):
        if a < 1 and ref["cond" + f] > 1e10:
            obs.ambiguous("fractional whitening of a numerically singular covariance is not unique (condition > 1e10)")
    s = ref["sigmaK"]
    s0 = max(float(s[0]), np.finfo(float).tiny)
    live = int(np.sum(s > 1e-6 * s0))
    kmax = max(1, min(kmax, live))
    k = int(np.clip(1 + int(case["kfrac"] * kmax), 1, kmax))
    gaps_ok(obs, s, k)
    return k, rx, ry, ref


def single_k_and_gap(obs, case, b, center=True, hilbert=None):
    Xp = oracle.preprocess(b["M"][0], center, bool(case["fx"]["standardize"]), b["w_cos"][0], b["w_user"][0])
    if hilbert is not None:
        Xp = oracle.hilbert_augment(np.real(Xp), "exp" if hilbert[0] == "exp" else None, hilbert[1])
    lam = oracle.cov_eigs(Xp)
    l0 = max(float(lam[0]), np.finfo(float).tiny)
    live = int(np.sum(lam > 1e-10 * l0))
    kmax = max(1, min(live, Xp.shape[0] - 1 if center else Xp.shape[0], Xp.shape[1]))
    k = int(np.clip(1 + int(case["kfrac"] * kmax), 1, kmax))
    gaps_ok(obs, np.sqrt(lam), k)  # gaps of the singular values of the data matrix
    gaps_ok(obs, lam, k)
    return k, lam


def _cross_weights(b, same=False):
    if same:
        return dict(weights_X=b["W"][0], weights_Y=b["W"][0])
    return dict(weights_X=b["W"][0], weights_Y=b["W"][1])


def _extra_cross(obs, mA, mB, what=""):
    """Derived quantities that must coincide as well."""
    t = {"op": "compare"}
    a = np.asarray(_quiet(mA.squared_covariance_fraction).sortby("mode").values)
    bb = np.asarray(_quiet(mB.squared_covariance_fraction).sortby("mode").values)
    obs.close(what + "squared_covariance_fraction", bb, a, TOL, scale=1.0, tags=dict(t, symptom="values_differ", quantity="squared_covariance_fraction"))
    a = np.asarray(_quiet(mA.cross_correlation_coefficients).sortby("mode").values)
    bb = np.asarray(_quiet(mB.cross_correlation_coefficients).sortby("mode").values)
    obs.close(what + "cross_correlation_coefficients", bb, a, TOL, scale=1.0, tags=dict(t, symptom="values_differ", quantity="cross_correlation_coefficients"))


# --------------------------------------------------------------------------- the pairs
def run_case(case, obs):
    import xeofs as xe

    pair = case["pair"]
    sub = case.get("sub")
    label = pair if (sub is None or pair == "pca_all_vs_none") else f"{pair}:{sub}"
    obs.tag(pair=pair, cls=case["cls"], op="fit")
    if sub is not None:
        obs.tag(sub=str(sub))
    obs.cell("pair:" + label, f"scale_exp:{case.get('scale_exp', 0)}")
    b = R.build(case)
    mon.reset()
    try:
        _dispatch(xe, case, obs, b, pair, sub, label)
    finally:
        mon.drain(obs)


def _dispatch(xe, case, obs, b, pair, sub, label):
    n = case["n"]
    fx = case["fx"]

    if pair.endswith("_cpcca"):
        fam = pair.split("_")[0].upper()
        ax, ay = R.FAMILY_ALPHA[fam]
        k, rx, ry, ref = cross_k_and_gap(obs, case, b, ax, ay)
        kwA = R.model_kwargs(case, k)
        kwB = dict(kwA, alpha=[ax, ay])
        named = getattr(xe.cross, PREFIX[sub] + fam)
        general = getattr(xe.cross, PREFIX[sub] + "CPCCA")
        obs.tag(use_pca=bool(any(kwA["use_pca"])))
        mA = _fit(named(**kwA), b["da"][0], b["da"][1], dim="time", **_cross_weights(b))
        mB = _fit(general(**kwB), b["da"][0], b["da"][1], dim="time", **_cross_weights(b))
        cplx = sub == "Hilbert" or (sub == "Complex" and case["cplx"])
        obs.nontrivial = True
        obs.cell("compared:" + label)
        compare(obs, read_cross(mA, b), read_cross(mB, b), cplx)
        _extra_cross(obs, mA, mB)
        return

    if pair == "mca_xx_eof":
        hs = R.hilbert_spec(case)
        k, lam = single_k_and_gap(obs, case, b, True, hs)
        kw = R.model_kwargs(case, k)
        mca = getattr(xe.cross, case["cls"])(**kw)
        _fit(mca, b["da"][0], b["da"][0], dim="time", **_cross_weights(b, same=True))
        ekw = dict(n_modes=k, center=True, standardize=bool(fx["standardize"]), use_coslat=bool(fx["coslat"]), solver="full")
        if sub == "Hilbert":
            ekw.update(padding=kw["padding"], decay_factor=kw["decay_factor"])
        eof = getattr(xe.single, {"real": "EOF", "Complex": "ComplexEOF", "Hilbert": "HilbertEOF"}[sub])(**ekw)
        _fit(eof, b["da"][0], dim="time", weights=b["W"][0])
        cplx = sub == "Hilbert" or (sub == "Complex" and case["cplx"])
        bb = dict(b, coords=[b["coords"][0], b["coords"][0]], fdims=[b["fdims"][0], b["fdims"][0]])
        A = read_single(eof, b)
        B = read_cross(mca, bb)
        obs.nontrivial = True
        obs.cell("compared:" + label)
        obs.tag(use_pca=bool(any(kw["use_pca"])))
        # singular values of MCA(X, X) == explained variance of EOF(X); both component sets == EOF patterns;
        # scores1 (and scores2) == unnormalised EOF scores
        compare(obs, A, B, cplx, sv_name="mca_sv_vs_eof_explained_variance", pairs=[(0, 0), (0, 1)])
        # the amplitude-carrying patterns (normalized=False) are patterns too: same per-mode lengths, same direction
        c, fd = b["coords"][0], b["fdims"][0]
        Pe = xu.feature_matrix(_quiet(eof.components, normalized=False).sortby("mode"), fd, c)
        Pm = [xu.feature_matrix(x.sortby("mode"), fd, c) for x in _quiet(mca.components, normalized=False)]
        if Pe.shape == Pm[0].shape == Pm[1].shape and np.isfinite(Pe).all():
            g = phases(A["comps"][0], B["comps"][0], cplx)
            for j in (0, 1):
                obs.close(f"components{j + 1}_unnormalized", Pm[j] * g, Pe, TOL, scale=max(float(np.abs(Pe).max()), np.finfo(float).tiny), tags={"op": "compare", "symptom": "components_differ", "quantity": "components_unnormalized"})
            obs.count("relation:unnormalized_patterns")
        obs.close("oracle_explained_variance", A["sv"], lam[:k], TOL, scale=max(lam[0], np.finfo(float).tiny), tags={"op": "compare", "symptom": "values_differ", "quantity": "eof_explained_variance_vs_oracle"})
        return

    if pair == "complex_on_real":
        if sub == "ComplexEOF":
            k, lam = single_k_and_gap(obs, case, b, case["center"])
            ekw = dict(n_modes=k, center=case["center"], standardize=bool(fx["standardize"]), use_coslat=bool(fx["coslat"]), solver="full")
            X0 = b["da"][0]
            if case["dseed"] % 2 == 0 and X0.sizes["time"] >= max(X0.size // X0.sizes["time"], 1):
                # the same real data, dask-backed (tall: chunked along time only): "a Complex model fed real data
                # equals the real model" holds for whatever array type the real model accepts
                X0 = X0.chunk({"time": max(4, X0.sizes["time"] // 2)})
                obs.cell("complex_on_real:dask")
                obs.tag(dask_input=True)
                if case["dseed"] % 4 == 0:
                    # both members on the default solver with the same seed: the same computation twice
                    ekw.update(solver="auto", random_state=5)
                    obs.cell("complex_on_real:dask_auto")
            mA = _fit(xe.single.EOF(**ekw), X0, dim="time", weights=b["W"][0])
            mB = _fit(xe.single.ComplexEOF(**ekw), X0, dim="time", weights=b["W"][0])
            obs.nontrivial = True
            obs.cell("compared:" + label)
            compare(obs, read_single(mA, b), read_single(mB, b), False, sv_name="explained_variance")
            return
        ax, ay = R.alpha_of(case)
        k, rx, ry, ref = cross_k_and_gap(obs, dict(case, cls=sub[len("Complex"):]), b, ax, ay)
        kw = R.model_kwargs(case, k)
        obs.tag(use_pca=bool(any(kw["use_pca"])), alpha_lt1=bool(ax < 1 or ay < 1))
        mA = _fit(getattr(xe.cross, sub[len("Complex"):])(**kw), b["da"][0], b["da"][1], dim="time", **_cross_weights(b))
        mB = _fit(getattr(xe.cross, sub)(**kw), b["da"][0], b["da"][1], dim="time", **_cross_weights(b))
        obs.nontrivial = True
        obs.cell("compared:" + label)
        B = read_cross(mB, b)
        imag = max(float(np.abs(np.imag(x)).max()) for x in B["comps"] + B["scores"])
        obs.check("complex_model_on_real_data_is_real", imag <= 1e-12 * max(1.0, float(np.abs(B["scores"][0]).max())), f"imaginary part {imag:.3e}", tags={"op": "compare", "symptom": "imag_nonzero"})
        compare(obs, read_cross(mA, b), B, False)
        _extra_cross(obs, mA, mB)
        return

    if pair == "eeof1_eof":
        obs.tag(embedding=1)
        k, lam = single_k_and_gap(obs, case, b, True)
        ekw = dict(n_modes=k, center=True, standardize=bool(fx["standardize"]), use_coslat=bool(fx["coslat"]), solver="full")
        eof = _fit(xe.single.EOF(**ekw), b["da"][0], dim="time", weights=b["W"][0])
        q = None
        if case.get("n_pca"):
            q = int(min(len(lam[lam > 1e-10 * lam[0]]), k + 2))
            gaps_ok(obs, lam, q)
        obs.cell(f"eeof_pca:{q is not None}")
        ee = xe.single.ExtendedEOF(tau=int(case["tau"]), embedding=1, n_pca_modes=q, **ekw)
        _fit(ee, b["da"][0], dim="time", weights=b["W"][0])  # pinned tree: raises (slice(None, -0))
        obs.nontrivial = True
        obs.cell("compared:" + label)
        cd = ee.components().dims
        obs.check("eeof_embedding_dim", "embedding" in cd and ee.components().sizes["embedding"] == 1, f"dims {cd}", tags={"op": "compare", "symptom": "dims"})
        compare(obs, read_single(eof, b), read_single(ee, b, eeof=True), False, sv_name="explained_variance")
        return

    if pair == "spca0_eof":
        k, lam = single_k_and_gap(obs, case, b, case["center"])
        ekw = dict(n_modes=k, center=case["center"], standardize=bool(fx["standardize"]), use_coslat=bool(fx["coslat"]), solver="full")
        eof = _fit(xe.single.EOF(**ekw), b["da"][0], dim="time", weights=b["W"][0])
        sp = xe.single.SparsePCA(alpha=0.0, beta=0.0, regularizer=case["regularizer"], max_iter=int(case["max_iter"]), **ekw)
        _fit(sp, b["da"][0], dim="time", weights=b["W"][0])
        obs.nontrivial = True
        obs.cell("compared:" + label, f"regularizer:{case['regularizer']}")
        compare(obs, read_single(eof, b), read_single(sp, b), False, sv_name="explained_variance")
        return

    if pair == "pca_all_vs_none":
        ax, ay = R.alpha_of(case)
        k, rx, ry, ref = cross_k_and_gap(obs, case, b, ax, ay)
        kwB = R.model_kwargs(case, k)  # use_pca False on both fields
        kwA = copy.deepcopy(kwB)
        for i, f in enumerate(("x", "y")):
            if case["which"] in ("both", f):
                kwA["use_pca"][i] = True
                kwA["n_pca_modes"][i] = "all"
        obs.tag(alpha_lt1=bool(ax < 1 or ay < 1), which=case["which"])
        Cls = getattr(xe.cross, case["cls"])
        mA = _fit(Cls(**kwA), b["da"][0], b["da"][1], dim="time", **_cross_weights(b))
        mB = _fit(Cls(**kwB), b["da"][0], b["da"][1], dim="time", **_cross_weights(b))
        var = R.variant(case["cls"])
        cplx = var == "Hilbert" or (var == "Complex" and case["cplx"])
        obs.nontrivial = True
        obs.cell("compared:" + label, f"pca_all:{case['cls']}")
        # the fractional inverse power is applied in two different bases: allow cond * eps
        tol = TOL if (ax == 1 and ay == 1) else 1e-8
        compare(obs, read_cross(mB, b), read_cross(mA, b), cplx, tol=tol)
        return

    if pair == "multicca_crosscca":
        px, py = case["fx"]["p"], case["fy"]["p"]
        kmax = min(px, py)
        k = int(np.clip(1 + int(case["kfrac"] * kmax), 1, kmax))
        cos = bool(case["fx"]["coslat"])
        mm = xe.multi.CCA(n_modes=k, pca=False, use_coslat=cos)
        _quiet(mm.fit, [b["da"][0], b["da"][1]], dim="time")
        cc = _fit(xe.cross.CCA(n_modes=k, use_pca=False, standardize=False, use_coslat=[cos, cos], solver="full"), b["da"][0], b["da"][1], dim="time")
        vs = mm.scores()
        obs.check("multi_two_score_sets", len(vs) == 2, f"{len(vs)} score sets", tags={"op": "compare", "symptom": "n_views"})
        V1 = xu.sample_matrix(vs[0].sortby("mode"), ["time"], b["coords"][0])
        V2 = xu.sample_matrix(vs[1].sortby("mode"), ["time"], b["coords"][1])
        s1, s2 = cc.scores()
        S1 = xu.sample_matrix(s1.sortby("mode"), ["time"], b["coords"][0])
        S2 = xu.sample_matrix(s2.sortby("mode"), ["time"], b["coords"][1])
        r_multi = np.real(np.diag(R.corr_matrix(V1, V2)))
        r_cross = np.real(np.diag(R.corr_matrix(S1, S2)))
        obs.nontrivial = True
        obs.cell("compared:" + label)
        if case.get("unit_mix"):
            obs.cell("multicca:unit_mix")
        obs.close("paired_variate_correlations", r_multi, r_cross, 1e-4, scale=1.0, tags={"op": "compare", "symptom": "canonical_correlations_differ", "quantity": "pearson_r"})
        # both against the independent canonical correlations (QR + SVD)
        Zx = oracle.preprocess(b["M"][0], True, False, b["w_cos"][0], None)
        Zy = oracle.preprocess(b["M"][1], True, False, b["w_cos"][1], None)
        rho = R.canonical_correlations(Zx, Zy)[:k]
        obs.close("cross_cca_vs_oracle", r_cross, rho, 1e-8, scale=1.0, tags={"op": "compare", "symptom": "canonical_correlations_differ", "quantity": "cross_vs_oracle"})
        obs.close("multi_cca_vs_oracle", r_multi, rho, 1e-4, scale=1.0, tags={"op": "compare", "symptom": "canonical_correlations_differ", "quantity": "multi_vs_oracle"})
        return

    raise KeyError(pair)


def evidence_extra(results, extras):
    flips = {}
    phase = 0.0
    for r in results:
        info = r.get("info") or {}
        key = r["case"].get("pair")
        if "flips" in info:
            d = flips.setdefault(key, {"cases": 0, "cases_with_sign_or_phase_change": 0})
            d["cases"] += 1
            d["cases_with_sign_or_phase_change"] += int(info["flips"] > 0)
        phase = max(phase, float(info.get("phase_max_deg", 0.0)))
    return {"per_mode_alignment": flips, "largest_common_phase_applied_deg": phase}
