"""C09 -- cross-set models diagonalise the (partially whitened) cross-covariance.

Reference-model monitor.  For every generated pair of fields an independent numpy oracle
(xv/props/c09_ref.py) preprocesses the raw inputs, projects them on the leading PCA subspace,
forms the analytic signal for Hilbert variants and computes
    K = Cxx^((ax-1)/2) Cxy Cyy^((ay-1)/2)           (1/(N-1) covariances, eigh powers).
The REAL xeofs model is fitted on the same labelled inputs and every public result the statement
names is compared with the oracle:
  * data['singular_values'] >= 0, descending, == (N/(N-1))^((2-ax-ay)/2) * sigma(K)  (factor 1 for MCA),
  * scores1^H scores2 / (N-1) == diag(singular values),
  * stored state: data['total_squared_covariance'] == ||Cxy||_F^2 of the un-whitened (reduced) fields,
    data['idx_modes_sorted'] orders the singular values descending, PCA keeps the documented mode count,
  * MCA (alpha = 1,1): components orthonormal, SCF_i = sigma_i^2/||Cxy||_F^2, sum 1 at full rank,
  * CCA (alpha = 0,0): Pearson correlation of paired scores == canonical correlations (QR + SVD),
  * cross_correlation_coefficients / correlation_coefficients_X/Y: |.| <= 1, unit self-correlation,
    equal to the Pearson correlations of the returned scores,
  * homogeneous / heterogeneous patterns: |.| <= 1 and equal to the Pearson correlation of the
    (PCA-filtered, analytic for Hilbert) feature series with the returned scores.
Post-condition monitors (icontract): M-DEC on every Decomposer.fit (orthonormal singular vectors,
ordering, sign convention) and M-XCOV on CPCCA._compute_cross_covariance_numpy (== X^H Y/(N-1)).
"""
import warnings

import numpy as np

from .. import gen, mon, xu
from . import c09_ref as R

LEVEL = "exploration"
RULE = (
    "structured corpus (12 classes x PCA kind none/int/float/all x data kind generic/rho1, alpha grid for the "
    "CPCCA classes, p>n behind PCA, full-rank n_modes) + seeded random draws over N 12..60, p 1..8 (p>n: "
    "N+1..N+8 with exact rank 2..8), alpha in [0,1]^2 incl. corners, per-field standardize/coslat/weights/PCA "
    "spec, n_modes 1..rank, coupling, Hilbert padding; non-trivial = the cross matrix has >= 2 rows and columns; "
    "distinct = distinct canonical case record"
)
ASSUMPTIONS = [
    "numpy eigh/svd/qr and the harness's own preprocessing are the trusted reference",
    "each field has full column rank (condition of its covariance <= ~5e3) unless it sits behind a PCA that "
    "keeps only non-zero-variance modes or its alpha is 1: fractional whitening of a singular covariance is "
    "not defined by the statement",
    "Complex variants are combined only with PCA settings that take the exact SVD path ('all', float with "
    "pca_init_rank_reduction=1, int > 0.8 rank): the inexact complex path (scipy svds/lobpcg) is C15's subject",
    "homogeneous/heterogeneous patterns are compared with the correlation of the PCA-filtered (and, for "
    "Hilbert variants, analytic) feature series; without PCA truncation this is np.corrcoef(raw feature, score)",
    "complex correlations use the X^H Y orientation (conjugate of numpy.corrcoef(a,b)[0,1]); moduli are orientation free",
    "data scale 1e-3..1e6 plus a 4 % slice at 1e-10..1e-7 (physical units such as m/s rain rates); standardize is "
    "switched off in that slice (the documented float32-eps clip of the standard deviation is not the subject)",
    "correlations and patterns are only compared for modes whose two score series do not vanish numerically "
    "(a mode beyond the rank of the cross matrix has 0/0 correlations)",
    "a field whose (reduced) covariance has condition > 1e10 and alpha < 1 is skipped as ambiguous",
]
TOL = 1e-9
TOL_W = 1e-8  # quantities that pass through a fractional inverse power of a covariance
XCOV = "post:CPCCA._compute_cross_covariance_numpy"
CORR_OPS = ("cross_correlation_coefficients", "correlation_coefficients_X", "correlation_coefficients_Y")


# --------------------------------------------------------------------------- monitors
def setup(tier):
    mon.install_decomposer()
    if not mon.ACTIVE or "c09_xcov" in mon._installed:
        return
    import icontract
    from xeofs.cross import cpcca as M

    def crosscov_post(X, Y, result):
        try:
            if isinstance(X, np.ndarray) and isinstance(Y, np.ndarray) and isinstance(result, np.ndarray):
                mon._count(XCOV)
                n = X.shape[0]
                want = np.einsum("ni,nj->ij", X.conj(), Y) / (n - 1)
                sc = float(np.sqrt((np.abs(X) ** 2).sum(0).max() * (np.abs(Y) ** 2).sum(0).max()) / (n - 1))
                err = float(np.abs(result - want).max()) / max(sc, np.finfo(float).tiny)
                if not err <= 1e-10:
                    mon._fail(
                        "CPCCA._compute_cross_covariance_numpy",
                        f"cross-covariance differs from X^H Y/(N-1) by {err:.3e} (relative to the Cauchy-Schwarz bound)",
                        {"symptom": "crosscov_not_XhY_over_Nm1", "op": "fit"},
                        err=err,
                    )
            else:
                mon._count(XCOV + ":lazy")
        except Exception as e:  # a monitor never breaks the observed call
            mon._count("monitor_error:crosscov")
            mon.event("monitor_error", where="crosscov", err=repr(e))
        return True

    if not _xcov_hookable():
        # the inner function this advisory monitor wraps does not exist in the tree under test (refactored away):
        # the reference-model oracle below still decides, the monitor is reported as absent
        mon._count("hook_target_absent:CPCCA._compute_cross_covariance_numpy")
        mon._installed.add("c09_xcov")
        return
    orig = M.CPCCA.__dict__["_compute_cross_covariance_numpy"]
    orig = orig.__func__ if isinstance(orig, staticmethod) else orig
    M.CPCCA._compute_cross_covariance_numpy = staticmethod(icontract.ensure(crosscov_post, error=mon.PostBroken)(orig))
    mon._installed.add("c09_xcov")


def _xcov_hookable():
    try:
        from xeofs.cross import cpcca as M

        return "_compute_cross_covariance_numpy" in M.CPCCA.__dict__
    except Exception:  # noqa: BLE001
        return True


def required(tier):
    cover = [f"cls:{c}" for c in R.CLASSES]
    cover += [f"pca:{k}" for k in ("none", "int", "float", "all")]
    cover += ["data:generic", "data:rho1", "data:same", "shape:wide", "modes:full_rank", "modes:one", "cplx:True"]
    cover += ["alpha:11", "alpha:00", "alpha:01", "alpha:10", "alpha:interior", "flag:standardize", "flag:coslat", "flag:weights"]
    cover += ["checked:mca_scf_sum", "checked:cca_canonical", "checked:patterns"]
    return {"mon": ["post:Decomposer.fit", "history:prior_fit"] + ([XCOV] if _xcov_hookable() else []), "cover": cover}


# --------------------------------------------------------------------------- cases
ALPHA_GRID = [(1.0, 1.0), (0.0, 0.0), (0.0, 1.0), (1.0, 0.0), (0.5, 0.5), (0.2, 0.2), (0.0, 0.5), (1.0, 0.3), (0.75, 0.25)]


def _draw_alpha(rng):
    u = rng.random()
    if u < 0.35:
        return list(ALPHA_GRID[int(rng.integers(0, len(ALPHA_GRID)))])
    a = [float(np.round(rng.random(), 3)), float(np.round(rng.random(), 3))]
    if u < 0.5:
        a[int(rng.integers(0, 2))] = float(rng.choice([0.0, 1.0]))
    return a


def _draw_pca(rng, n, p, r, alpha, var, wide, kind=None):
    kinds = ["none", "int", "float", "all"]
    if wide:
        kinds.remove("none")
        if alpha < 1:
            kinds.remove("all")  # min(n,p) modes would include a zero-variance PC
    cplx = var == "Complex"
    lo = 1
    if cplx:
        lo = int(0.8 * min(n, p)) + 1  # exact SVD path only
        if lo > r:
            kinds.remove("int")
    if kind is None or kind not in kinds:
        kind = str(rng.choice(kinds))
    if kind == "none":
        return ["none"]
    if kind == "all":
        return ["all"]
    if kind == "int":
        return ["int", int(rng.integers(lo, r + 1))]
    f = float(rng.choice([0.5, 0.8, 0.9, 0.95, 0.99, 0.999]))
    irr = 1.0 if cplx else float(rng.choice([0.3, 0.6, 1.0]))
    return ["float", f, irr]


def _draw(rng, cls=None, pca_kind=None, data=None, alpha=None, wide=None, full=None, tiny=False):
    cls = cls or str(rng.choice(R.CLASSES))
    var = R.variant(cls)
    fam = R.family(cls)
    if fam == "CPCCA":
        alpha = list(alpha) if alpha is not None else _draw_alpha(rng)
    else:
        alpha = list(R.FAMILY_ALPHA[fam])
    data = data or str(rng.choice(["generic", "rho1", "same", "indep"], p=[0.6, 0.22, 0.08, 0.1]))
    if wide is None:
        wide = [bool(rng.random() < 0.12), bool(rng.random() < 0.12)]
    wide = list(wide)
    if data == "same":
        wide[1] = wide[0]
    n = int(rng.integers(12, 21)) if any(wide) else int(rng.integers(12, 61))
    if var == "Hilbert":
        # without padding the analytic signal of N samples has rank <= (N-1)//2: keep up to 8 columns independent
        n = max(n, 22)

    def dims(w):
        if w:
            return int(rng.integers(n + 1, n + 9)), int(rng.integers(2, 9))
        p = int(rng.choice([1, 2, 3, 4, 5, 6, 7, 8], p=[0.04, 0.1, 0.14, 0.16, 0.16, 0.16, 0.14, 0.1]))
        return p, p

    px, rx = dims(wide[0])
    py, ry = dims(wide[1])
    if data == "same":
        py, ry = px, rx
    if data == "rho1":
        ry = min(ry, rx)
        if not wide[1]:
            py = ry
    fx = dict(p=px, r=rx)
    fy = dict(p=py, r=ry)
    for f, a, w in ((fx, alpha[0], wide[0]), (fy, alpha[1], wide[1])):
        f["standardize"] = bool(rng.random() < 0.25)
        f["coslat"] = bool(rng.random() < 0.2)
        f["weights"] = bool(rng.random() < 0.25)
        f["nfd"] = int(rng.integers(1, 3))
        f["pca"] = _draw_pca(rng, n, f["p"], f["r"], a, var, w, pca_kind)
    c = dict(
        cls=cls,
        alpha=alpha,
        n=n,
        fx=fx,
        fy=fy,
        data=data,
        coupling=float(np.round(rng.uniform(0.2, 0.95), 3)),
        cplx=bool(var == "Complex" and rng.random() < 0.85),
        kfrac=0.9999 if (full or (full is None and rng.random() < 0.25)) else float(np.round(rng.random(), 4)),
        scale_exp=0,
        dseed=int(rng.integers(0, 2**31 - 1)),
        solver="full",
    )
    u = rng.random()
    if tiny or u < 0.04:
        # physical units such as m/s precipitation: variances below float eps
        c["scale_exp"] = int(rng.choice([-10, -9, -8, -7]))
        fx["standardize"] = fy["standardize"] = False  # the documented float32-eps clip of the std is not the subject
    elif u < 0.2:
        c["scale_exp"] = int(rng.choice([-3, -2, -1, 1, 2, 3, 6]))
    if var == "Hilbert":
        c["padding"] = str(rng.choice(["exp", "none"]))
        c["decay"] = float(rng.choice([0.05, 0.2, 0.5]))
    if var == "real" and rng.random() < 0.25:
        c["solver"] = str(rng.choice(["auto", "randomized"]))
        c["random_state"] = int(rng.integers(0, 1000))
    return c


def cases(tier, seed):
    out = []
    i = 0
    for cls in R.CLASSES:
        for pk in ("none", "int", "float", "all"):
            for data in ("generic", "rho1"):
                out.append(_draw(gen.rng_for(909, i), cls=cls, pca_kind=pk, data=data, wide=[False, False], full=(pk == "none")))
                i += 1
        # p > n behind PCA, identical fields
        out.append(_draw(gen.rng_for(909, i), cls=cls, data="generic", wide=[True, False]))
        out.append(_draw(gen.rng_for(909, i + 1), cls=cls, data="generic", wide=[True, True]))
        out.append(_draw(gen.rng_for(909, i + 2), cls=cls, data="same", wide=[False, False]))
        i += 3
    for v in R.VARIANTS:
        for a in ALPHA_GRID:
            for data in ("generic", "rho1"):
                out.append(_draw(gen.rng_for(909, i), cls=v + "CPCCA", alpha=a, data=data, wide=[False, False]))
                i += 1
    for cls in ("MCA", "CCA", "RDA", "CPCCA", "ComplexCCA", "HilbertCPCCA", "HilbertMCA"):
        for pk in ("none", "int"):
            out.append(_draw(gen.rng_for(909, i), cls=cls, pca_kind=pk, data="generic", wide=[False, False], tiny=True))
            i += 1
    # mixed units inside a field (std ratio 1e-4 -> covariance condition ~1e8..2e9): well above the numerical rank
    # threshold, so every direction has to survive the fractional whitening
    for cls in ("CCA", "RDA", "CPCCA", "ComplexCCA", "HilbertCCA", "HilbertCPCCA"):
        for rep in range(2 if tier == "quick" else 8):
            out.append(_unit_mix(_draw(gen.rng_for(909 if rep < 2 else seed, i), cls=cls, pca_kind="none", data="generic", wide=[False, False], full=(rep % 2 == 0)), rep))
            i += 1
    nrand = 450 if tier == "quick" else 12000
    for j in range(nrand):
        out.append(_draw(gen.rng_for(seed, 9, j)))
    return out


def _unit_mix(c, rep):
    c["unit_mix"] = [4, 0] if rep % 2 == 0 else [4, 4]
    c["spec_q"] = [0.8, 0.95]
    c["scale_exp"] = 0
    c["solver"] = "full"
    c.pop("random_state", None)
    for f in (c["fx"], c["fy"]):
        f["standardize"] = False
        f["p"] = f["r"] = max(f["p"], 3)
    if R.family(c["cls"]) == "CPCCA":
        c["alpha"] = [min(c["alpha"][0], 0.5), c["alpha"][1]]
    return c


# --------------------------------------------------------------------------- helpers
def _alpha_cell(ax, ay):
    if (ax, ay) in ((1.0, 1.0), (0.0, 0.0), (0.0, 1.0), (1.0, 0.0)):
        return f"alpha:{int(ax)}{int(ay)}"
    if 0 < ax < 1 and 0 < ay < 1:
        return "alpha:interior"
    return "alpha:edge"


def check_corr(obs, op, got, want, n, self_diag):
    """A reported correlation must be a correlation: |.| <= 1, unit self-correlation, equal to the Pearson value.
    ddof_scaled names the mechanism 'every entry is exactly N/(N-1) times the true correlation'."""
    got = np.asarray(got)
    want = np.asarray(want)
    ok_shape = got.shape == want.shape
    obs.check(op + ":shape", ok_shape, f"shape {got.shape} vs {want.shape}", tags={"op": op, "symptom": "shape"})
    if not ok_shape:
        return
    fac = n / (n - 1.0)
    ddof = bool(np.allclose(got, want * fac, rtol=0, atol=1e-9) and not np.allclose(got, want, rtol=0, atol=1e-9))
    t = {"op": op, "ddof_scaled": ddof}
    amax = float(np.nanmax(np.abs(got))) if got.size else 0.0
    obs.check(
        op + ":range",
        np.isfinite(got).all() and amax <= 1 + 1e-12,
        f"max |value| = {amax!r} > 1 (N={n}, N/(N-1)={fac!r})",
        tags=dict(t, symptom="corr_abs_gt_1"),
        got=got,
    )
    if self_diag:
        obs.close(op + ":self_diag", np.diag(got), np.ones(got.shape[0]), 1e-12, scale=1.0, tags=dict(t, symptom="self_corr_ne_1"))
    obs.close(op + ":value", got, want, TOL, scale=1.0, tags=dict(t, symptom="corr_value"))


def _mat(da, rows, cols):
    return np.asarray(da.transpose(rows, cols).values)


# --------------------------------------------------------------------------- the check
def run_case(case, obs):
    import xeofs as xe

    cls = case["cls"]
    var, fam = R.variant(cls), R.family(cls)
    ax, ay = R.alpha_of(case)
    n = case["n"]
    fx, fy = case["fx"], case["fy"]
    any_pca = fx["pca"][0] != "none" or fy["pca"][0] != "none"
    obs.tag(cls=cls, op="fit", alpha_lt1=bool(ax < 1 or ay < 1), use_pca=bool(any_pca))
    obs.cell(f"cls:{cls}", f"variant:{var}", f"family:{fam}", _alpha_cell(ax, ay), f"data:{case['data']}", f"cplx:{case['cplx']}")
    obs.cell(f"pca:{fx['pca'][0]}", f"pca:{fy['pca'][0]}", f"solver:{case['solver']}")
    if fx["p"] > n or fy["p"] > n:
        obs.cell("shape:wide")
    for f in (fx, fy):
        for flag in ("standardize", "coslat", "weights"):
            if f[flag]:
                obs.cell("flag:" + flag)

    b = R.build(case, lag=True)
    hs = R.hilbert_spec(case)
    try:
        rx = R.reduce_field(b["M"][0], fx, b["w_cos"][0], b["w_user"][0], hs)
        ry = R.reduce_field(b["M"][1], fy, b["w_cos"][1], b["w_user"][1], hs)
    except R.AmbiguousRef as e:
        obs.ambiguous(str(e))
    kmax = min(rx["q_model"], ry["q_model"])
    k = int(np.clip(1 + int(case["kfrac"] * kmax), 1, kmax))
    obs.note("n_modes", k)
    obs.nontrivial = bool(kmax >= 2)
    if k == kmax:
        obs.cell("modes:full_rank")
    if k == 1:
        obs.cell("modes:one")
    ref = R.cross_reference(rx["Z"], ry["Z"], ax, ay)
    # mechanism tag: a covariance that must be raised to a negative power has an eigenvalue (1/N normalised, as
    # the whitener forms it) at or below float eps in ABSOLUTE terms (tiny physical units), although it is
    # perfectly conditioned in relative terms (condition <= ~5e3 by construction)
    for f, a in (("x", ax), ("y", ay)):
        if a < 1 and ref["cond" + f] > 1e10:
            obs.ambiguous("fractional whitening of a numerically singular covariance is not unique (condition > 1e10)")
    eps = np.finfo(float).eps
    lam_min = min(
        [ref["var" + f] / ref["cond" + f] * (n - 1) / n for f, a in (("x", ax), ("y", ay)) if a < 1] or [np.inf]
    )
    tiny_eig = bool(lam_min <= 4 * eps)
    obs.tag(whiten_eig_le_eps=tiny_eig)
    obs.cell(f"whiten_eig_le_eps:{tiny_eig}", f"scale_exp:{case['scale_exp']}")

    kw = R.model_kwargs(case, k)
    if "random_state" in case:
        kw["random_state"] = case["random_state"]
    model = getattr(xe.cross, cls)(**kw)
    aged = int(case["dseed"]) % 3 == 0
    obs.cell("history:" + ("aged" if aged else "fresh"))
    obs.tag(history="aged" if aged else "fresh")
    with warnings.catch_warnings():
        warnings.simplefilter("ignore")
        if aged:
            # hostile history: the same object was fitted on other data of the same structure and EVERY accessor
            # (patterns, fractions, correlation coefficients) was used before the fit that is judged
            from xv import zoo

            try:
                oth = [zoo.perturbed(d) for d in b["da"]]
                model.fit(oth[0], oth[1], dim="time", weights_X=b["W"][0], weights_Y=b["W"][1])
                model.scores(), model.components()
                zoo.call_all_accessors(model)
                obs.count("history:prior_fit")
            except Exception:  # noqa: BLE001  (the perturbed data may be unusable on its own account)
                model = getattr(xe.cross, cls)(**kw)
                obs.count("history:prior_fit_raised")
        mon.reset()
        model.fit(b["da"][0], b["da"][1], dim="time", weights_X=b["W"][0], weights_Y=b["W"][1])
    mon.drain(obs)

    # ---- read results back by label ------------------------------------------------
    c1, c2 = b["coords"]
    sv = np.asarray(model.data["singular_values"].sortby("mode").values, dtype=float)
    # hostile query history first: accessors with the non-default switches must not change later answers
    # (an in-place normalisation of the stored scores / components would)
    model.scores(normalized=True)
    model.components(normalized=False)
    model.scores(normalized=True)
    s1, s2 = model.scores()
    p1, p2 = model.components()
    for i_, (s_, c_) in enumerate(((s1, c1), (s2, c2))):
        own = "time" in s_.dims and np.array_equal(np.sort(np.asarray(s_["time"].values)), np.sort(np.asarray(c_["time"])))
        if not obs.check(
            "scores_labelled_by_own_samples",
            bool(own),
            f"scores of field {i_ + 1} are not labelled by that field's own sample coordinates",
            tags={"op": "scores", "symptom": "scores_labels", "field": f"f{i_}"},
        ):
            return
    S1 = xu.sample_matrix(s1.sortby("mode"), ["time"], c1)
    S2 = xu.sample_matrix(s2.sortby("mode"), ["time"], c2)
    P1 = xu.feature_matrix(p1.sortby("mode"), b["fdims"][0], c1)
    P2 = xu.feature_matrix(p2.sortby("mode"), b["fdims"][1], c2)
    obs.check(
        "n_modes_returned",
        sv.shape == (k,) and S1.shape == (n, k) and S2.shape == (n, k) and P1.shape == (fx["p"], k) and P2.shape == (fy["p"], k),
        f"asked {k} modes: sv {sv.shape} scores {S1.shape},{S2.shape} comps {P1.shape},{P2.shape}",
    )
    if not obs.check("finite_results", all(np.isfinite(a).all() for a in (sv, S1, S2, P1, P2)), tags={"symptom": "nonfinite"}):
        return
    for i, (pm, r) in enumerate(((model.pca1, rx), (model.pca2, ry))):
        if pm.use_pca:
            q_obs = int(pm.V.sizes["mode"])
            obs.check(
                "pca_mode_count",
                q_obs == r["q_model"],
                f"field {i + 1}: PCA kept {q_obs} modes, documentation promises {r['q_model']} for {(fx, fy)[i]['pca']}",
                tags={"op": "pca", "symptom": "pca_mode_count", "pca_kind": (fx, fy)[i]["pca"][0]},
            )

    # ---- singular values ------------------------------------------------------------
    sK = ref["sigmaK"]
    sK = np.concatenate([sK, np.zeros(max(0, k - sK.size))])[:k]
    fac = R.expected_factor(n, ax, ay)
    want = fac * sK
    s0 = max(float(want[0]), np.finfo(float).tiny)
    tol_sv = TOL if (ax == 1 and ay == 1) else TOL_W
    obs.le("sv_nonneg", -sv, np.zeros_like(sv), slack=0.0, tags={"symptom": "sv_negative"})
    obs.le("sv_descending", sv[1:], sv[:-1], slack=1e-12 * s0, tags={"symptom": "sv_not_descending"})
    sel = sK > 1e-6 * max(sK[0], np.finfo(float).tiny)
    ratios = sv[sel] / sK[sel]
    spread = float(np.ptp(ratios) / np.abs(ratios).max()) if ratios.size else 0.0
    sym = "sv_factor_wrong" if spread <= 1e-7 else "sv_not_proportional_to_sigmaK"
    obs.close("sv_vs_factor_sigmaK", sv, want, tol_sv, scale=s0, tags={"symptom": sym})
    if ratios.size:
        obs.close("sv_ratio_constant", ratios, np.full_like(ratios, ratios[0]), 1e-6, scale=abs(ratios[0]), tags={"symptom": "sv_not_proportional_to_sigmaK"})
        obs.note("factor", [n, ax, ay, float(np.median(ratios)), fac, tiny_eig])

    # stored ordering index and total squared covariance (state named by the property's anchors)
    idx = np.asarray(model.data["idx_modes_sorted"].values).astype(int)
    ok_idx = idx.shape == (k,) and sorted(idx.tolist()) == list(range(k))
    obs.check("idx_modes_sorted_is_permutation", ok_idx, f"idx {idx.tolist()}", tags={"symptom": "idx_modes_sorted"})
    if ok_idx:
        obs.le("idx_modes_sorted_descending", sv[idx][1:], sv[idx][:-1], slack=1e-12 * s0, tags={"symptom": "idx_modes_sorted"})
    tsc_got = float(np.real(model.data["total_squared_covariance"].values))
    obs.close("total_squared_covariance", tsc_got, ref["tsc"], tol_sv, scale=max(ref["tsc"], np.finfo(float).tiny), tags={"symptom": "total_squared_covariance"})

    # ---- scores diagonalise the cross-covariance -------------------------------------
    G = S1.conj().T @ S2 / (n - 1)
    bound = float(np.sqrt((np.abs(S1) ** 2).sum(0).max() * (np.abs(S2) ** 2).sum(0).max()) / (n - 1))
    obs.close("scores_crosscov_is_diag_sv", G, np.diag(sv), TOL, scale=max(bound, np.finfo(float).tiny), tags={"symptom": "scores_crosscov"})
    # the diagonal itself, relative to the leading singular value (N vs N-1 shows here at 1/N)
    obs.close("scores_crosscov_diagonal", np.diag(G), sv, 1e-7, scale=max(sv[0], 1e-3 * bound, np.finfo(float).tiny), tags={"symptom": "scores_crosscov_diag"})

    # ---- MCA ---------------------------------------------------------------------------
    if ax == 1 and ay == 1:
        I = np.eye(k)
        obs.close("mca_components1_orthonormal", P1.conj().T @ P1, I, TOL, scale=1.0, tags={"op": "components", "symptom": "components_not_orthonormal"})
        obs.close("mca_components2_orthonormal", P2.conj().T @ P2, I, TOL, scale=1.0, tags={"op": "components", "symptom": "components_not_orthonormal"})
        with warnings.catch_warnings():
            warnings.simplefilter("ignore")
            scf = np.asarray(model.squared_covariance_fraction().sortby("mode").values, dtype=float)
        tsc = max(ref["tsc"], np.finfo(float).tiny)
        obs.close("mca_scf", scf, sK**2 / tsc, TOL, scale=1.0, tags={"op": "squared_covariance_fraction", "symptom": "scf"})
        obs.le("mca_scf_sum_le_1", [float(scf.sum())], [1 + 1e-9], tags={"op": "squared_covariance_fraction", "symptom": "scf_sum_gt_1"})
        if k == kmax:
            obs.cell("checked:mca_scf_sum")
            obs.close("mca_scf_sum_full_rank", float(scf.sum()), 1.0, TOL, scale=1.0, tags={"op": "squared_covariance_fraction", "symptom": "scf_sum_ne_1"})

    # ---- correlations of the returned scores ---------------------------------------------
    # a correlation with a numerically vanishing score series (mode beyond the rank of the cross matrix) is 0/0:
    # only modes whose two score series are alive are compared
    nr1 = np.sqrt((np.abs(S1 - S1.mean(0)) ** 2).sum(0))
    nr2 = np.sqrt((np.abs(S2 - S2.mean(0)) ** 2).sum(0))
    live = (nr1 > 1e-8 * max(nr1.max(), np.finfo(float).tiny)) & (nr2 > 1e-8 * max(nr2.max(), np.finfo(float).tiny))
    if not live.all():
        obs.cell("modes:some_dead")
    if not live.any():
        obs.check("scores_all_vanish", bool(sK[0] <= 1e-12 * np.sqrt(ref["varx"] * ref["vary"])), "every score series vanishes although the cross matrix does not", tags={"symptom": "scores_vanish"})
        return
    C12 = R.corr_matrix(S1, S2)
    paired = np.diag(C12)[live]
    if ax == 0 and ay == 0:
        rho = R.canonical_correlations(rx["Z"], ry["Z"])
        rho = np.concatenate([rho, np.zeros(max(0, k - rho.size))])[:k][live]
        obs.cell("checked:cca_canonical")
        obs.close("cca_paired_score_corr_is_canonical", paired, rho.astype(paired.dtype), TOL_W, scale=1.0, tags={"op": "scores", "symptom": "cca_corr_ne_canonical"})
    with warnings.catch_warnings():
        warnings.simplefilter("ignore")
        ccc = np.asarray(model.cross_correlation_coefficients().sortby("mode").values)
        cx = model.correlation_coefficients_X()
        cy = model.correlation_coefficients_Y()
    if ccc.shape == (k,):
        ccc = ccc[live]
    check_corr(obs, CORR_OPS[0], ccc, paired.real, n, self_diag=False)
    for op, cda, S in ((CORR_OPS[1], cx, S1), (CORR_OPS[2], cy, S2)):
        dm = [d for d in cda.dims]
        ok = len(dm) == 2 and all(str(d).startswith("mode") for d in dm)
        obs.check(op + ":dims", ok, f"dims {cda.dims}", tags={"op": op, "symptom": "dims"})
        if ok:
            cda = cda.sortby(dm[0]).sortby(dm[1])
            got = _mat(cda, dm[0], dm[1])
            if got.shape == (k, k):
                got = got[np.ix_(live, live)]
            check_corr(obs, op, got, R.corr_matrix(S[:, live], S[:, live]), n, self_diag=True)

    # ---- homogeneous / heterogeneous patterns -----------------------------------------------
    F1 = rx["Z"] @ rx["P"].conj().T
    F2 = ry["Z"] @ ry["P"].conj().T
    v1 = (np.abs(F1 - F1.mean(0)) ** 2).sum(0)
    v2 = (np.abs(F2 - F2.mean(0)) ** 2).sum(0)
    if min(v1.min() / v1.max(), v2.min() / v2.max()) < 1e-16:
        obs.cell("patterns:skipped_constant_feature")
    else:
        obs.cell("checked:patterns")
        with warnings.catch_warnings():
            warnings.simplefilter("ignore")
            (h1, h2), _ = model.homogeneous_patterns()
            (g1, g2), _ = model.heterogeneous_patterns()
        for op, da, fd, co, F, S in (
            ("homogeneous_patterns", h1, b["fdims"][0], c1, F1, S1),
            ("homogeneous_patterns", h2, b["fdims"][1], c2, F2, S2),
            ("heterogeneous_patterns", g1, b["fdims"][0], c1, F1, S2),
            ("heterogeneous_patterns", g2, b["fdims"][1], c2, F2, S1),
        ):
            got = xu.feature_matrix(da.sortby("mode"), fd, co)
            wantp = R.corr_matrix(F, S)
            if got.shape == wantp.shape:
                got, wantp = got[:, live], wantp[:, live]
            amax = float(np.nanmax(np.abs(got)))
            obs.check(op + ":range", np.isfinite(got).all() and amax <= 1 + 1e-12, f"max |value| = {amax!r}", tags={"op": op, "symptom": "corr_abs_gt_1"})
            obs.close(op + ":value", got, wantp, TOL_W, scale=1.0, tags={"op": op, "symptom": "pattern_ne_corr"})


def evidence_extra(results, extras):
    """The measured proportionality factor reported/sigma(K) against (N/(N-1))^((2-ax-ay)/2)."""
    dev = 0.0
    dev_mca = 0.0
    samples = []
    nfac = 0
    nzone = 0
    for r in results:
        f = (r.get("info") or {}).get("factor")
        if not f:
            continue
        nfac += 1
        N, ax, ay, got, want, tiny_eig = f
        if tiny_eig:
            nzone += 1
            continue
        d = abs(got / want - 1)
        dev = max(dev, d)
        if ax == 1 and ay == 1:
            dev_mca = max(dev_mca, abs(got - 1))
        if len(samples) < 12 and (nfac % 37 == 1):
            samples.append({"N": N, "alpha": [ax, ay], "measured": got, "expected": want})
    return {
        "factor_reported_over_sigmaK": {
            "formula": "(N/(N-1))^((2-alpha_x-alpha_y)/2)",
            "cases": nfac - nzone,
            "cases_excluded_whiten_eig_le_eps": nzone,
            "max_rel_deviation_from_formula": dev,
            "max_abs_deviation_from_1_for_MCA": dev_mca,
            "samples": samples,
        }
    }
