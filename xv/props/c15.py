"""C15 -- solver choice, variance thresholds, seeds, sign convention and pass-through solver options.

Runtime monitors on the real code (Decomposer, _SVD, SVD, PCA and the model classes):

(a) thr   fractional n_modes: kept count == smallest k with cumulative explained-variance ratio >= f
          among the int(rank*init_rank_reduction) pre-computed modes (oracle: LAPACK eigvalsh of the
          Gram matrix), or all of them plus a warning.  Second, oracle-free post-condition on the
          returned singular values themselves (cum[k-2] < f <= cum[k-1]).
(b) cmp   exact vs randomised solver on inputs with a gap after the last requested mode: leading singular
          values and principal angles agree to 1e-6 (numpy: sklearn randomized_svd, complex: scipy
          svds(lobpcg), dask: svd_compressed), both against the exact xeofs run and against the oracle.
(c) auto  M-BACK trace: the back-ends invoked under solver='auto' are a subset of {exact, the randomised
          one for that dtype/container}, and the 'auto' result is bit-identical to the 'full' or to the
          'randomized' result with the same seed.
(d) seed  equal input + equal random_state -> bit-identical U, s, V; trace check that every randomised
          back-end call received exactly the seed the user gave (component level and model level).
(e)       sign convention for real data: M-DEC post-condition (mon) on every decomposition plus an own
          check on every returned V.
(f) kw    every class whose constructor advertises `solver_kwargs` (inspect.signature) is constructed with
          a valid option of the back-end it will use and fitted: no exception, and M-BACK saw the option
          arrive.
"""
import warnings

import numpy as np

from .. import gen, mon, xu, zoo

LEVEL = "exploration"
RULE = (
    "structured corpus (kind x target x container x solver grids; every class advertising solver_kwargs x "
    "back-end option) + seeded random draws over n, p, spectrum kind, fraction (random / just below / just "
    "above / at a cumulative value / unreachable), init_rank_reduction, k, gap, scale 1e-6..1e6, chunking, "
    "integer seeds 0..2^32-1; non-trivial: thr = more than one pre-computed mode; cmp/auto/seed = a "
    "randomised back-end really ran (trace); kw = a back-end event was observed; distinct = canonical case record"
)
ASSUMPTIONS = [
    "numpy.linalg.eigvalsh/eigh of the explicitly formed Gram/covariance matrix is the trusted reference",
    "threshold cases use centred data (columns orthogonal to the ones vector): 'explained variance ratio' "
    "is only a ratio in [0,1] for centred input, which is what every model hands to the decomposer by default",
    "two-sided exact-vs-randomised closeness (1e-6) is asserted only on spectra built with a gap (factor "
    "1e-1..1e-3) right after the last requested mode; without such a gap nothing is promised",
    "scipy svds(lobpcg) (complex non-exact path) has an absolute residual tolerance (~1.5e-8 * n on the residual "
    "of X^H X): with sigma_k/sigma_1 >= 0.4 data scales 1e0 and 1e1 are the transition zone (errors 3e-7 / 2e-8, "
    "less than 100x head-room) and are not generated for the exact-vs-randomised comparison; scales <= 1e-1 are "
    "generated and judged with the common 1e-6 tolerance (known defect, tags backend=svds, scale_exp)",
    "dask svd_compressed as configured by xeofs (n_power_iter=4, un-normalised 'power' iterator) loses modes with "
    "sigma_k/sigma_1 below ~eps^(1/9): 0.8 < log10(sigma_1/sigma_k) < 1.6 is the transition zone (errors 1e-9..1e-5) "
    "and is not generated for that back-end; larger dynamic ranges are generated and judged with the common 1e-6 "
    "(known defect, tags backend=svd_compressed, dyn_exp)",
    "integer seeds are drawn from 0..2^32-1 (the domain numpy RandomState / sklearn accept)",
    "dask inputs are chunked along the sample dimension only when an exact (tsqr) decomposition may be "
    "selected; dask's own NotImplementedError for 2-D chunking and scipy's refusal of k >= min(shape) are refusals",
    "float n_modes with dask input is refused by xeofs by documented design (ValueError) and is not generated",
    "solver_kwargs for the exact back-end on dask input are not generated (dask.array.linalg.svd has no "
    "option shared with numpy.linalg.svd)",
]

COMPONENTS = ("Decomposer", "_SVD", "SVD", "PCA")
CONTAINERS = ("np", "cplx", "dask")
RAND_BACKEND = {"np": "randomized_svd", "cplx": "svds", "dask": "svd_compressed"}
SEED_KEY = {"randomized_svd": "random_state", "svds": "random_state", "svd_compressed": "seed"}
THR_SPECS = ("geometric", "flat", "clustered", "rankdef", "linear")
FMODES = ("random", "just_below", "just_above", "at", "one", "tiny")
# classes whose constructor advertises solver_kwargs / random_state at the time of writing; the
# `discover` case re-derives the list with inspect.signature and fails the run (inconclusive) if stale.
KW_CLASSES = tuple(zoo.SINGLE) + tuple(zoo.CROSS)
SPECIAL_SEEDS = (0, 1, 42, 2**31 - 1, 2**31, 2**32 - 1)

KW_OPTS = {
    "svd": [("full_matrices", False)],
    "randomized_svd": [("n_oversamples", 7), ("n_iter", 3), ("power_iteration_normalizer", "QR")],
    "svds": [("tol", 1e-10), ("maxiter", 200)],
    "svd_compressed": [("n_power_iter", 2), ("n_oversamples", 8)],
}


def setup(tier):
    mon.install_decomposer()
    mon.install_svd()


def required(tier):
    cover = [f"kind:{k}" for k in ("thr", "cmp", "auto", "seed", "seed_model", "kw", "discover")]
    cover += [f"target:{t}" for t in COMPONENTS + ("EOF",)]
    cover += [f"container:{c}" for c in CONTAINERS]
    cover += ["auto->svd", "auto->randomized_svd", "auto->svds", "auto->svd_compressed", "auto:large"]
    # the policy itself is not asserted (the statement only says 'auto' picks one of the two), but both of its
    # branches must have been observed for every entry point, otherwise "held" would be vacuous
    cover += [f"auto:{t}->{b}" for t in COMPONENTS + ("EOF",) for b in ("exact", "randomised")]
    cover += ["thr:warned", "thr:truncated", "thr:all_kept_reached"]
    cover += [f"kw:{c}" for c in KW_CLASSES] + [f"kw:{c}" for c in COMPONENTS] + ["kw:ExtendedEOF+pca"]
    cover += [f"kwbackend:{b}" for b in KW_OPTS]
    return {
        "mon": [
            "post:Decomposer.fit",
            "post:_SVD.fit_transform",
            "backend:svd",
            "backend:randomized_svd",
            "backend:svds",
            "backend:svd_compressed",
            "own:sign_checks",
        ],
        "cover": cover,
        "max_refused_share": 0.2,
    }


# --------------------------------------------------------------------------- cases
def _shape(rng, cls):
    if cls == "small":
        n = int(rng.integers(8, 41))
        p = int(rng.integers(3, 25))
    elif cls == "big":  # the sketch (k + 10) is smaller than the rank
        n = int(rng.integers(45, 71))
        p = int(rng.integers(28, 45))
    else:  # large: max(shape) >= 500 -> 'auto' leaves the exact branch
        n = int(rng.integers(500, 561))
        p = int(rng.integers(4, 11))
    return n, p


def _seed_draw(rng):
    if rng.random() < 0.3:
        return int(SPECIAL_SEEDS[int(rng.integers(0, len(SPECIAL_SEEDS)))])
    return int(rng.integers(0, 2**32, dtype=np.uint64))


def _thr_case(rng, target=None, spec=None, solver=None, container=None, fmode=None):
    target = target or str(rng.choice(COMPONENTS + ("EOF", "ComplexEOF"), p=[0.3, 0.2, 0.15, 0.15, 0.12, 0.08]))
    container = container or str(rng.choice(["np", "cplx"], p=[0.7, 0.3]))
    if target == "EOF":
        container = "np"
    if target == "ComplexEOF":
        container = "cplx"
    solver = solver or str(rng.choice(["auto", "full", "randomized"], p=[0.4, 0.35, 0.25]))
    if target == "PCA":
        solver = "auto"
    n, p = _shape(rng, str(rng.choice(["small", "big"], p=[0.8, 0.2])))
    if rng.random() < 0.25:
        n, p = min(n, p), max(n, p) + 1  # wide
        n = max(n, 5)
    irr = float(rng.choice([1.0, 0.3, 0.5, 0.75, 0.1, round(float(rng.uniform(0.05, 1.0)), 3)]))
    if target in ("EOF", "ComplexEOF"):
        irr = 0.3  # not exposed by the models
    return dict(
        kind="thr",
        target=target,
        container=container,
        solver=solver,
        spec=spec or str(rng.choice(THR_SPECS)),
        n=n,
        p=p,
        irr=irr,
        fmode=fmode or str(rng.choice(FMODES, p=[0.4, 0.2, 0.2, 0.05, 0.05, 0.1])),
        fu=float(rng.random()),
        scale_exp=int(rng.integers(1, 4)) if container == "cplx" else int(rng.integers(-6, 7)),
        dseed=int(rng.integers(0, 2**31 - 1)),
        rs=_seed_draw(rng),
    )


def _cmp_case(rng, target=None, container=None, shape=None):
    target = target or str(rng.choice(["Decomposer", "_SVD", "SVD"]))
    container = container or str(rng.choice(CONTAINERS))
    shape = shape or str(rng.choice(["small", "big"]))
    n, p = _shape(rng, shape)
    if container == "cplx":
        se = int(rng.choice([-6, -3, -2, -1, 2, 3, 6]))
        kmax = 4
        dyn = float(rng.uniform(0, 0.4))  # sigma_k / sigma_1 >= 0.4 (svds' absolute tolerance, see ASSUMPTIONS)
    else:
        se = int(rng.integers(-6, 7))
        kmax = 8
        dyn = float(rng.uniform(0, 3))
        if container == "dask":
            # 0.8 .. 1.6 is the transition zone of svd_compressed's un-normalised power iteration
            dyn = float(rng.uniform(0, 0.8)) if rng.random() < 0.7 else float(rng.uniform(1.6, 3))
    return dict(
        kind="cmp",
        target=target,
        container=container,
        shape=shape,
        n=n,
        p=p,
        kmax=kmax,
        ku=float(rng.random()),
        gap_exp=float(rng.uniform(1.0, 3.0)),
        dyn_exp=dyn,
        scale_exp=se,
        rowchunk=int(rng.integers(4, 30)),
        chunk2d=bool(rng.random() < 0.3),
        dseed=int(rng.integers(0, 2**31 - 1)),
        rs=_seed_draw(rng),
    )


def _auto_case(rng, target=None, container=None, shape=None):
    target = target or str(rng.choice(COMPONENTS + ("EOF",), p=[0.3, 0.25, 0.2, 0.15, 0.1]))
    container = container or str(rng.choice(CONTAINERS, p=[0.45, 0.3, 0.25]))
    shape = shape or str(rng.choice(["small", "big", "large"], p=[0.6, 0.25, 0.15]))
    n, p = _shape(rng, shape)
    if target == "EOF" and container == "cplx":
        container = "np"
    return dict(
        kind="auto",
        target=target,
        container=container,
        shape=shape,
        n=n,
        p=p,
        ku=float(rng.random()),
        many=bool(rng.random() < 0.5),  # ask for > 80 % of the rank (exact branch of the policy)
        frac=bool(rng.random() < 0.2) and container != "dask",
        irr=float(rng.choice([1.0, 0.3, 0.6])),
        scale_exp=int(rng.integers(1, 4)) if container == "cplx" else int(rng.integers(-3, 4)),
        rowchunk=int(rng.integers(4, 30)) if shape != "large" else int(rng.integers(100, 300)),
        dseed=int(rng.integers(0, 2**31 - 1)),
        rs=_seed_draw(rng),
    )


def _seed_case(rng, target=None, container=None, solver=None):
    target = target or str(rng.choice(COMPONENTS))
    container = container or str(rng.choice(CONTAINERS))
    solver = solver or str(rng.choice(["randomized", "auto"], p=[0.7, 0.3]))
    if target == "PCA":
        solver = "auto"
    n, p = _shape(rng, str(rng.choice(["small", "big"])))
    return dict(
        kind="seed",
        target=target,
        container=container,
        solver=solver,
        n=n,
        p=p,
        ku=float(rng.random()),
        scale_exp=int(rng.integers(1, 4)) if container == "cplx" else int(rng.integers(-3, 4)),
        rowchunk=int(rng.integers(4, 30)),
        chunk2d=bool(rng.random() < 0.3),
        dseed=int(rng.integers(0, 2**31 - 1)),
        rs=_seed_draw(rng),
    )


def cases(tier, seed):
    out = []
    i = 0

    def r():
        nonlocal i
        i += 1
        return gen.rng_for(1015, i)

    # ---- structured corpus (seed independent) ------------------------------------------
    for target in COMPONENTS + ("EOF", "ComplexEOF"):
        for spec in THR_SPECS:
            for fmode in FMODES:
                out.append(_thr_case(r(), target=target, spec=spec, fmode=fmode))
    for target in ("Decomposer", "_SVD", "SVD"):
        for container in CONTAINERS:
            for shape in ("small", "big"):
                for _ in range(3):
                    out.append(_cmp_case(r(), target, container, shape))
    # the scale sweep that delimits the svds defect
    for se in (-6, -3, -2, -1, 2, 3, 4, 6):
        for target in ("Decomposer", "_SVD"):
            c = _cmp_case(r(), target, "cplx", "big")
            c["scale_exp"] = se
            out.append(c)
    for dyn in (0.5, 0.8, 2.0, 3.0):
        for target in ("Decomposer", "_SVD"):
            c = _cmp_case(r(), target, "dask", "big")
            c["dyn_exp"] = dyn
            out.append(c)
    for target in COMPONENTS + ("EOF",):
        for container in CONTAINERS:
            for shape in ("small", "big", "large"):
                for many in (False, True):
                    c = _auto_case(r(), target, container, shape)
                    c["many"] = many
                    out.append(c)
    for target in COMPONENTS:
        for container in CONTAINERS:
            for s in SPECIAL_SEEDS:
                c = _seed_case(r(), target, container)
                c["rs"] = int(s)
                out.append(c)
    for cls in KW_CLASSES:
        for container in ("np", "dask"):
            if container == "dask" and (cls.startswith("Complex") or cls.startswith("Hilbert")):
                continue
            for solver in ("randomized", "auto"):
                if container == "dask" and solver == "auto":
                    continue
                for pca in ("all", "few"):
                    if pca == "few" and cls not in zoo.CROSS and cls not in ("ExtendedEOF", "POP", "OPA"):
                        continue
                    out.append(dict(kind="seed_model", cls=cls, container=container, solver=solver, pca=pca, rs=int(r().integers(0, 2**32, dtype=np.uint64)), dseed=int(r().integers(0, 2**31 - 1))))
    for cls in KW_CLASSES + COMPONENTS + ("ExtendedEOF+pca", "POP-nopca"):
        out.extend(_kw_cases(cls))
    out.append(dict(kind="discover"))

    # ---- seeded random part ---------------------------------------------------------------
    mult = 1 if tier == "quick" else 30
    for j in range(260 * mult):
        out.append(_thr_case(gen.rng_for(seed, 15, 1, j)))
    for j in range(140 * mult):
        out.append(_cmp_case(gen.rng_for(seed, 15, 2, j)))
    for j in range(120 * mult):
        out.append(_auto_case(gen.rng_for(seed, 15, 3, j)))
    for j in range(150 * mult):
        out.append(_seed_case(gen.rng_for(seed, 15, 4, j)))
    return out


def _kw_cases(cls):
    base = cls.split("+")[0].split("-")[0]
    is_c = base.startswith("Complex") or base.startswith("Hilbert")
    out = []
    combos = [("full", "np" if not is_c else "cplx", "svd")]
    if is_c:
        combos.append(("randomized", "cplx", "svds"))
    else:
        combos.append(("randomized", "np", "randomized_svd"))
        combos.append(("randomized", "dask", "svd_compressed"))
        if base in COMPONENTS:
            combos.append(("randomized", "cplx", "svds"))
            combos.append(("full", "cplx", "svd"))
    for solver, container, backend in combos:
        for opt, val in KW_OPTS[backend]:
            if cls == "PCA" and solver == "full":
                continue  # PCA has no solver argument: the back-end follows the 'auto' policy
            out.append(dict(kind="kw", cls=cls, solver=solver, container=container, backend=backend, opt=opt, val=val))
    return out


# --------------------------------------------------------------------------- helpers
def sin_angle(A, B):
    """sin of the largest principal angle between span(A) and span(B), accurate for small angles."""
    Qa, _ = np.linalg.qr(A)
    Qb, _ = np.linalg.qr(B)
    R = Qb - Qa @ (Qa.conj().T @ Qb)
    return float(np.linalg.norm(R, 2))


def _eigs(X):
    """(eigenvalues of X^H X descending clipped at 0, right eigenvectors) via LAPACK eigh of the explicit matrix."""
    C = X.conj().T @ X
    C = (C + C.conj().T) / 2
    ev, V = np.linalg.eigh(C)
    return np.clip(ev[::-1].real, 0, None), V[:, ::-1]


def _gram_eigs(X):
    n, p = X.shape
    G = X.conj().T @ X if p <= n else X @ X.conj().T
    G = (G + G.conj().T) / 2
    return np.clip(np.linalg.eigvalsh(G)[::-1].real, 0, None)


def _wrap(M, container, rowchunk=None, chunk2d=False):
    if container != "dask":
        return M
    import dask.array as dsa

    rows = int(min(max(2, rowchunk or 10), M.shape[0]))
    cols = max(1, M.shape[1] // 2) if chunk2d else -1
    return dsa.from_array(M, chunks=(rows, cols))


def _np(a):
    import dask

    if hasattr(a, "values"):
        a = a.values
    if hasattr(a, "compute"):
        a = dask.compute(a)[0]
    return np.asarray(a)


SVDS_K = ("must be an integer satisfying", "k must be", "0 < k < min")


def _is_svds_k_refusal(e):
    return isinstance(e, ValueError) and any(t in str(e) for t in SVDS_K)


def _is_dask_chunk_refusal(e):
    return isinstance(e, NotImplementedError) and "chunk" in str(e)


def call(target, A, n_modes, solver, rs, irr=None, skw=None):
    """Run one decomposition through the real code; returns dict(U, s, V, warns, events) with numpy values
    (U may be None for PCA).  Exceptions propagate."""
    import xarray as xr

    kw = {}
    if irr is not None:
        kw["init_rank_reduction"] = irr
    if skw is not None:
        kw["solver_kwargs"] = skw
    mon.reset()
    U = s = V = None
    with warnings.catch_warnings(record=True) as wl:
        warnings.simplefilter("always")
        if target == "Decomposer":
            from xeofs.linalg.decomposer import Decomposer

            X = xr.DataArray(A, dims=("sample", "feature"))
            d = Decomposer(n_modes=n_modes, solver=solver, random_state=rs, **kw)
            d.fit(X)
            U = _np(d.U_.transpose("sample", "mode"))
            s = _np(d.s_)
            V = _np(d.V_.transpose("feature", "mode"))
        elif target == "_SVD":
            from xeofs.linalg._numpy._svd import _SVD

            U, s, V = _SVD(n_modes=n_modes, solver=solver, random_state=rs, **kw).fit_transform(A)
            U, s, V = _np(U), _np(s), _np(V)
        elif target == "SVD":
            from xeofs.linalg.svd import SVD

            X = xr.DataArray(A, dims=("sample", "feature"))
            U, s, V = SVD(n_modes=n_modes, solver=solver, random_state=rs, **kw).fit_transform(X)
            U = _np(U.transpose("sample", "mode"))
            s = _np(s)
            V = _np(V.transpose("feature", "mode"))
        elif target == "PCA":
            from xeofs.preprocessing.pca import PCA

            X = xr.DataArray(A, dims=("sample", "feature"))
            pca = PCA(n_modes=n_modes, random_state=rs, compute_eagerly=True, **kw)
            pca.fit(X)
            V = _np(pca.V.transpose("feature", "mode"))
        elif target in ("EOF", "ComplexEOF"):
            import xeofs as xe

            X = xr.DataArray(A, dims=("time", "x"), coords={"time": np.arange(A.shape[0]), "x": np.arange(A.shape[1])})
            mkw = {}
            if skw is not None:
                mkw["solver_kwargs"] = skw
            m = getattr(xe.single, target)(n_modes=n_modes, solver=solver, random_state=rs, **mkw)
            m.fit(X, dim="time")
            V = _np(m.components().transpose("x", "mode"))
            s = _np(m.singular_values())
            U = _np(m.scores(normalized=True).transpose("time", "mode"))
        else:
            raise KeyError(target)
    return dict(U=U, s=s, V=V, warns=[str(w.message) for w in wl], events=None)


def drain(obs):
    ev = mon.drain(obs)
    return [e for e in ev if e.get("kind") == "backend"]


def own_sign_check(obs, V, what):
    """(e) for real data the largest-magnitude loading of every mode is positive (ties skipped)."""
    if V is None or np.iscomplexobj(V) or V.size == 0:
        return
    obs.count("own:sign_checks")
    mx = V.max(axis=0)
    mn = V.min(axis=0)
    amax = np.maximum(np.abs(mx), np.abs(mn))
    tie = np.abs(np.abs(mx) - np.abs(mn)) <= 1e-9 * np.maximum(amax, 1e-300)
    bad = (np.abs(mn) > np.abs(mx)) & ~tie
    obs.check(
        "sign_convention",
        not bad.any(),
        f"{what}: largest-magnitude loading negative for mode(s) {(np.where(bad)[0] + 1).tolist()}",
        tags={"symptom": "sign_convention"},
    )


def bit_identical(a, b):
    for k in ("U", "s", "V"):
        x, y = a.get(k), b.get(k)
        if x is None and y is None:
            continue
        if x is None or y is None or x.shape != y.shape or not np.array_equal(x, y, equal_nan=True):
            return False
    return True


def max_diff(a, b):
    m = 0.0
    for k in ("U", "s", "V"):
        x, y = a.get(k), b.get(k)
        if x is None or y is None:
            continue
        if x.shape != y.shape:
            return float("inf")
        if x.size:
            m = max(m, float(np.nanmax(np.abs(x - y))))
    return m


def seed_trace_check(obs, events, rs, what):
    """Every randomised back-end call must have received exactly the user's seed."""
    unseeded = []
    n = 0
    for e in events:
        key = SEED_KEY.get(e["backend"])
        if key is None:
            continue
        n += 1
        if e["kwargs"].get(key) != rs:
            unseeded.append(f"{e['where']}:{e['backend']}")
    if n:
        obs.check(
            "seed_forwarded",
            not unseeded,
            f"{what}: random_state={rs} but randomised back-end call(s) {sorted(set(unseeded))} received another seed",
            tags={"symptom": "seed_not_forwarded", "unseeded": ",".join(sorted(set(unseeded)))},
        )
    return n


# --------------------------------------------------------------------------- data
def thr_matrix(case):
    rng = gen.rng_for(case["dseed"], 151)
    n, p = case["n"], case["p"]
    r = min(n - 1, p)
    s = gen.spectrum(case["spec"], r, rng)
    M, _, _ = gen.low_rank(n, p, s, rng, cplx=case["container"] == "cplx", perp_ones=True)
    return M * 10.0 ** case["scale_exp"]


def gap_matrix(case):
    rng = gen.rng_for(case["dseed"], 152)
    n, p = case["n"], case["p"]
    r = min(n - 1, p)
    k = int(np.clip(1 + int(case["ku"] * case["kmax"]), 1, min(case["kmax"], r - 1)))
    gap = 10.0 ** (-case["gap_exp"])
    lead = 10.0 ** (-case["dyn_exp"] * np.arange(k) / max(1, k - 1))  # sigma_k / sigma_1 = 10^-dyn_exp
    s = np.r_[lead, lead[-1] * gap * 0.8 ** np.arange(r - k)]
    M, _, _ = gen.low_rank(n, p, s, rng, cplx=case["container"] == "cplx", perp_ones=True)
    return M * 10.0 ** case["scale_exp"], k, s * 10.0 ** case["scale_exp"]


def generic_matrix(case, kind="geometric"):
    rng = gen.rng_for(case["dseed"], 153)
    n, p = case["n"], case["p"]
    r = min(n - 1, p)
    q = rng.uniform(0.8, 0.97)
    s = q ** np.arange(r)
    M, _, _ = gen.low_rank(n, p, s, rng, cplx=case["container"] == "cplx", perp_ones=True)
    return M * 10.0 ** case["scale_exp"]


# --------------------------------------------------------------------------- (a)
def run_thr(case, obs):
    target, container, solver = case["target"], case["container"], case["solver"]
    obs.tag(op="threshold", cls=target, container=container, solver=solver)
    X = thr_matrix(case)
    n, p = X.shape
    rank = min(n, p)
    irr = case["irr"]
    kpre = max(1, int(rank * irr))
    lam = _gram_eigs(X)  # eigenvalues of X^H X (descending)
    Xc = X - X.mean(axis=0)
    tot = float((np.abs(Xc) ** 2).sum())  # (n-1) * total variance
    lam_full = np.zeros(rank)
    lam_full[: min(rank, lam.size)] = lam[:rank]
    cum = np.cumsum(lam_full[:kpre]) / tot
    # the requested fraction
    fm = case["fmode"]
    j = int(case["fu"] * kpre) % kpre
    delta = 1e-4 if container == "cplx" else 1e-6  # must stay outside the ambiguity margin of the back-end
    if fm == "random":
        f = float(np.clip(0.02 + 0.98 * case["fu"], 1e-6, 1.0))
    elif fm == "just_below":
        f = float(cum[j] * (1 - delta))
    elif fm == "just_above":
        f = float(cum[j] * (1 + delta))
    elif fm == "at":
        f = float(cum[j])
    elif fm == "one":
        f = 1.0
    else:
        f = float(10.0 ** (-1 - 5 * case["fu"]))
    f = float(min(max(f, 1e-12), 1.0))
    obs.note("f", f)
    obs.note("kpre", kpre)
    obs.cell(f"fmode:{fm}", f"spec:{case['spec']}")
    try:
        res = call(target, X, f, solver, case["rs"], irr=None if target in ("EOF", "ComplexEOF") else irr)
    except ValueError as e:
        drain(obs)
        if _is_svds_k_refusal(e):
            obs.refuse("scipy svds refuses k >= min(shape)")
        raise
    events = drain(obs)
    last = events[-1]["backend"] if events else None
    obs.tag(backend=last, scale_exp=case["scale_exp"])
    obs.cell(f"thr_backend:{last}")
    obs.check("one_backend_call", len(events) == 1, f"{len(events)} back-end calls for one decomposition")
    V, s = res["V"], res["s"]
    k_ret = V.shape[1]
    obs.nontrivial = kpre > 1
    warned = any("explained variance was requested" in w for w in res["warns"])
    own_sign_check(obs, V, target)
    ok = obs.check("kept_le_precomputed", 1 <= k_ret <= kpre, f"kept {k_ret} modes, pre-computed {kpre}", tags={"symptom": "too_few_modes" if k_ret < 1 else "too_many_modes"})
    if k_ret < 1:
        return
    if s is not None:
        obs.check("shapes_consistent", s.shape == (k_ret,) and res["U"].shape == (n, k_ret), f"U{res['U'].shape} s{s.shape} V{V.shape}")
        # ---- post-condition on the returned values themselves (valid for every back-end) -------------
        cum_ret = np.cumsum(s.astype(float) ** 2) / tot
        m_self = 1e-9
        if k_ret > 1 and abs(cum_ret[k_ret - 2] - f) > m_self:
            obs.check(
                "fewer_modes_would_not_suffice",
                cum_ret[k_ret - 2] < f,
                f"{k_ret} modes kept but the first {k_ret - 1} already explain {cum_ret[k_ret - 2]:.12f} >= {f:.12f}",
                tags={"symptom": "too_many_modes"},
            )
        if abs(cum_ret[-1] - f) > m_self:
            if cum_ret[-1] < f:
                obs.check(
                    "fraction_reached_or_all_kept",
                    k_ret == kpre,
                    f"{k_ret} of {kpre} modes kept but they explain only {cum_ret[-1]:.12f} < {f:.12f}",
                    tags={"symptom": "too_few_modes"},
                )
                obs.check("warning_when_unreachable", warned, "fraction not reached but no warning", tags={"symptom": "missing_warning"})
    # ---- independent oracle --------------------------------------------------------------------------
    exact = last == "svd"
    numrank = int((lam > lam[0] * 1e-20).sum()) if lam.size and lam[0] > 0 else 0
    if exact:
        margin = 1e-9
    elif last == "randomized_svd" and kpre + 10 >= min(numrank, rank):
        margin = 1e-9  # the sketch spans the whole range: the range finder is exact up to round-off
    elif last == "svds":
        margin = 1e-6
    else:
        obs.cell("thr:oracle_skipped_inexact_backend")
        return
    if np.min(np.abs(cum - f)) <= margin:
        obs.ambiguous(f"requested fraction within {margin:g} of a cumulative value")
    reach = np.nonzero(cum >= f)[0]
    if reach.size:
        k_exp = int(reach[0]) + 1
        obs.cell("thr:truncated" if k_exp < kpre else "thr:all_kept_reached")
        obs.check(
            "threshold_count",
            k_ret == k_exp,
            f"f={f!r}: kept {k_ret} modes, smallest sufficient count is {k_exp} (cum={cum[max(0, k_exp - 2):k_exp + 1]})",
            tags={"symptom": "too_many_modes" if k_ret > k_exp else "too_few_modes"},
        )
        obs.check("no_warning_when_reachable", not warned, "fraction reached but the 'not reached' warning was raised", tags={"symptom": "spurious_warning"})
    else:
        obs.cell("thr:warned")
        obs.check("threshold_count", k_ret == kpre, f"unreachable f={f!r}: kept {k_ret}, expected all {kpre}", tags={"symptom": "too_few_modes"})
        obs.check("warning_when_unreachable", warned, "fraction not reachable but no warning", tags={"symptom": "missing_warning"})


# --------------------------------------------------------------------------- (b)
def run_cmp(case, obs):
    target, container = case["target"], case["container"]
    be = RAND_BACKEND[container]
    X, k, s_true = gap_matrix(case)
    dyn = float(np.log10(s_true[0] / s_true[k - 1]))
    obs.tag(op="exact_vs_randomized", cls=target, container=container, backend=be, scale_exp=case["scale_exp"], dyn_exp=round(dyn, 3))
    n, p = X.shape
    obs.note("k", k)
    A_row = _wrap(X, container, case["rowchunk"], False)
    A = _wrap(X, container, case["rowchunk"], case["chunk2d"])
    full = call(target, A_row, k, "full", case["rs"])
    ev_f = drain(obs)
    try:
        rnd = call(target, A, k, "randomized", case["rs"])
    except ValueError as e:
        drain(obs)
        if _is_svds_k_refusal(e):
            obs.refuse("scipy svds refuses k >= min(shape)")
        raise
    ev_r = drain(obs)
    obs.check("full_used_exact", [e["backend"] for e in ev_f] == ["svd"], f"solver='full' ran {[e['backend'] for e in ev_f]}")
    obs.check("randomized_used_randomised", [e["backend"] for e in ev_r] == [be], f"solver='randomized' ran {[e['backend'] for e in ev_r]}, expected {be}")
    obs.nontrivial = bool(ev_r and ev_r[0]["backend"] == be)
    if k + 10 < min(n - 1, p):
        obs.cell("cmp:sketch_smaller_than_rank")
    for r_, nm in ((full, "full"), (rnd, "randomized")):
        own_sign_check(obs, r_["V"], f"{target}[{nm}]")
        obs.check("n_modes_returned", r_["s"].shape == (k,) and r_["V"].shape == (p, k) and r_["U"].shape == (n, k), f"{nm}: {r_['U'].shape} {r_['s'].shape} {r_['V'].shape}")
    lam, Vo = _eigs(X)
    s_or = np.sqrt(lam[:k])
    s1 = float(s_or[0])
    # separate head-room statistics for svds, and for the scale range in which svds is known to break
    sfx = ("_svds_smallscale" if case["scale_exp"] < 0 else "_svds") if be == "svds" else ""
    if be == "svd_compressed" and dyn > 1.5:
        sfx = "_dask_lowmodes"  # known round-off loss of dask's un-normalised power iteration
    tg = {"symptom": "randomized_ne_exact", "check": "randomized_vs_exact"}
    obs.close("exact_sv_vs_oracle", full["s"], s_or, 1e-9, scale=s1, tags={"symptom": "exact_ne_oracle"})
    # the oracle diagonalises X^H X, so ITS eigenvectors carry ~eps*(sigma_1/sigma_k)^2: 1e-8 up to a dynamic
    # range of 1e2, 1e-6 beyond (measured 1e-10 at 1e3)
    obs.close("exact_angle_vs_oracle", sin_angle(full["V"], Vo[:, :k]), 0.0, 1e-8 if dyn <= 2 else 1e-6, scale=1.0, tags={"symptom": "exact_ne_oracle"})
    obs.close("rand_sv_vs_oracle" + sfx, rnd["s"], s_or, 1e-6, scale=s1, tags=tg)
    obs.close("rand_sv_vs_exact" + sfx, rnd["s"], full["s"], 1e-6, scale=s1, tags=tg)
    obs.close("rand_angle_V_vs_oracle" + sfx, sin_angle(rnd["V"], Vo[:, :k]), 0.0, 1e-6, scale=1.0, tags=tg)
    obs.close("rand_angle_V_vs_exact" + sfx, sin_angle(rnd["V"], full["V"]), 0.0, 1e-6, scale=1.0, tags=tg)
    obs.close("rand_angle_U_vs_exact" + sfx, sin_angle(rnd["U"], full["U"]), 0.0, 1e-6, scale=1.0, tags=tg)
    # structural facts valid for any range-finder result
    obs.le("rand_sv_le_true", rnd["s"], s_or * (1 + 1e-9) + 1e-12 * s1, tags={"symptom": "sv_above_true"})


# --------------------------------------------------------------------------- (c)
def _k_for(case, rank, cap=None):
    if case.get("many"):
        lo = int(0.8 * rank) + 1
        k = lo + int(case["ku"] * (rank - lo + 1))
    else:
        k = 1 + int(case["ku"] * max(1, int(0.8 * rank)))
    k = int(np.clip(k, 1, rank))
    if cap:
        k = min(k, cap)
    return k


def run_auto(case, obs):
    target, container = case["target"], case["container"]
    obs.tag(op="auto_policy", cls=target, container=container)
    X = generic_matrix(case)
    n, p = X.shape
    rank = min(n, p)
    if case["frac"]:
        n_modes = float(np.clip(0.3 + 0.69 * case["ku"], 0.05, 0.99))
        irr = case["irr"] if target not in ("EOF",) else None
    else:
        n_modes = _k_for(case, rank)
        irr = None
    obs.note("n_modes", n_modes)
    obs.cell(f"auto:{case['shape']}")
    A = _wrap(X, container, case["rowchunk"], False)
    try:
        auto = call(target, A, n_modes, "auto", case["rs"], irr=irr)
    except ValueError as e:
        drain(obs)
        if _is_svds_k_refusal(e):
            obs.refuse("scipy svds refuses k >= min(shape)")
        raise
    ev = drain(obs)
    own_sign_check(obs, auto["V"], f"{target}[auto]")
    ran = [e["backend"] for e in ev]
    allowed = {"svd", RAND_BACKEND[container]}
    obs.note("auto_backends", ran)
    for b in set(ran):
        obs.cell("auto->" + b, f"auto:{target}->{'exact' if b == 'svd' else 'randomised'}")
    obs.check("auto_backend_subset", set(ran) <= allowed and len(ran) == 1, f"'auto' invoked {ran}; allowed exactly one of {sorted(allowed)}", tags={"symptom": "auto_other_backend"})
    seed_trace_check(obs, ev, case["rs"], f"{target}[auto]")
    obs.nontrivial = bool(ran and ran[0] != "svd")
    ref_target = "SVD" if target == "PCA" else target
    refs = {}
    for solver in ("full", "randomized"):
        try:
            r_ = call(ref_target, A, n_modes, solver, case["rs"], irr=irr)
            drain(obs)
            if target == "PCA":
                r_ = dict(U=None, s=None, V=r_["V"])
            refs[solver] = r_
        except (ValueError, NotImplementedError) as e:
            drain(obs)
            if _is_svds_k_refusal(e) or _is_dask_chunk_refusal(e):
                obs.cell(f"auto:ref_{solver}_refused")
                continue
            raise
    if not refs:
        obs.refuse("neither reference solver available for this input")
    same = {sv: bit_identical(auto, r_) for sv, r_ in refs.items()}
    want = "full" if ran == ["svd"] else "randomized"
    msg = "; ".join(f"max|auto-{sv}|={max_diff(auto, r_):.3e}" for sv, r_ in refs.items())
    if want in refs:
        obs.check(
            "auto_bit_identical_to_selected",
            same[want],
            f"'auto' ran {ran} but differs from solver='{want}' with the same seed ({msg})",
            tags={"symptom": "auto_ne_selected"},
        )
    else:
        obs.check("auto_bit_identical_to_one", any(same.values()), f"'auto' equals neither available reference ({msg})", tags={"symptom": "auto_ne_selected"})


# --------------------------------------------------------------------------- (d)
def run_seed(case, obs):
    target, container, solver = case["target"], case["container"], case["solver"]
    obs.tag(op="seed_repro", level="component", cls=target, container=container, solver=solver)
    X = generic_matrix(case)
    n, p = X.shape
    rank = min(n, p)
    k = 1 + int(case["ku"] * (rank - 1))
    if container == "cplx":
        k = min(k, rank - 1)
    k = max(1, k)
    obs.note("k", k)
    runs = []
    evs = []
    for rep in range(2):
        A = _wrap(X.copy(), container, case["rowchunk"], case["chunk2d"] and solver == "randomized")
        try:
            runs.append(call(target, A, k, solver, case["rs"]))
        except (ValueError, NotImplementedError) as e:
            drain(obs)
            if _is_svds_k_refusal(e):
                obs.refuse("scipy svds refuses k >= min(shape)")
            if _is_dask_chunk_refusal(e):
                obs.refuse("dask svd refuses 2-D chunking")
            raise
        evs.append(drain(obs))
        own_sign_check(obs, runs[-1]["V"], f"{target}[{solver}]")
    nrand = seed_trace_check(obs, evs[0], case["rs"], target)
    obs.nontrivial = nrand > 0
    obs.check("same_backends_both_runs", [e["backend"] for e in evs[0]] == [e["backend"] for e in evs[1]], "back-end choice differs between identical calls")
    obs.check(
        "bit_identical",
        bit_identical(runs[0], runs[1]),
        f"random_state={case['rs']}: two identical calls differ, max diff {max_diff(runs[0], runs[1]):.3e} (back-ends {[e['backend'] for e in evs[0]]})",
        tags={"symptom": "not_bit_identical", "backend": evs[0][-1]["backend"] if evs[0] else None},
    )


def _model_data(case, cls):
    rng = gen.rng_for(case["dseed"], 154)
    n = 40

    def mk(p):
        s = 0.9 ** np.arange(min(n - 1, p))
        M, _, _ = gen.low_rank(n, p, s, rng, cplx=cls in zoo.COMPLEX_INPUT_OK)
        da = xu.make_da(M, sample_dim="time")
        if case["container"] == "dask":
            da = da.chunk({"time": 16, "x": -1})
        return da

    data = [mk(24)]
    if zoo.kind(cls) == "cross":
        data.append(mk(18))
    return data


def run_seed_model(case, obs):
    cls = case["cls"]
    obs.tag(op="seed_repro", level="model", cls=cls, container=case["container"])
    obs.note("config", dict(solver=case["solver"], pca=case["pca"]))
    obs.cell(f"seedmodel:{cls}")
    data = _model_data(case, cls)
    kw = zoo.default_kwargs(cls, n_modes=3, solver=case["solver"], random_state=case["rs"])
    if case["pca"] == "few":
        kw["n_pca_modes"] = 4  # few enough that svds(lobpcg) really iterates (5k < p) instead of its dense fallback
    res, evs = [], []
    for rep in range(2):
        mon.reset()
        f = zoo.fit(cls, data, "time", kw)
        out = [np.asarray(a.values) for a in f.components()] + [np.asarray(a.values) for a in f.scores()]
        evs.append(drain(obs))
        res.append(out)
    nrand = sum(1 for e in evs[0] if e["backend"] in SEED_KEY)
    obs.note("backends", [f"{e['where']}:{e['backend']}" for e in evs[0]])
    obs.nontrivial = nrand > 0
    same = all(a.shape == b.shape and np.array_equal(a, b, equal_nan=True) for a, b in zip(*res))
    md = max((float(np.nanmax(np.abs(a - b))) if a.shape == b.shape and a.size else 0.0) for a, b in zip(*res))
    unseeded = sorted({f"{e['where']}:{e['backend']}" for e in evs[0] if e["backend"] in SEED_KEY and e["kwargs"].get(SEED_KEY[e["backend"]]) != case["rs"]})
    # one verdict per case: the outputs must be bit-identical AND (trace) every randomised back-end call
    # must have received the user's seed -- the second catches the same mechanism when the input happens to be
    # so small that the unseeded back-end falls back to a deterministic dense path.
    obs.check(
        "model_seed_reproducible",
        same and not unseeded,
        f"{cls}(random_state={case['rs']}, solver={case['solver']!r}) fitted twice on the same data: "
        + (f"components/scores differ (max {md:.3e}); " if not same else "outputs bit-identical, but ")
        + f"randomised back-end calls that did not receive the user's seed: {unseeded}",
        tags={"symptom": "not_bit_identical" if not same else "seed_not_forwarded", "unseeded": ",".join(unseeded)},
    )


# --------------------------------------------------------------------------- (f)
def run_kw(case, obs):
    cls_tag = case["cls"]
    cls = cls_tag.split("+")[0].split("-")[0]
    container, solver, backend = case["container"], case["solver"], case["backend"]
    opt, val = case["opt"], case["val"]
    n_pca = cls_tag.endswith("+pca")
    obs.tag(op="solver_kwargs", cls=cls, container=container, n_pca=n_pca, use_pca=not cls_tag.endswith("-nopca"))
    obs.note("config", dict(solver=solver, want_backend=backend, opt=opt, val=val))
    obs.cell(f"kw:{cls_tag}", f"kwbackend:{backend}")
    skw = {opt: val}
    rng = gen.rng_for(1515, len(cls_tag), len(opt))
    n, p = 30, 9
    cplx = container == "cplx"
    if cls in COMPONENTS:
        s = 0.7 ** np.arange(min(n - 1, p))
        M, _, _ = gen.low_rank(n, p, s, rng, cplx=cplx)
        A = _wrap(M, container, 10, False)
        k = 3 if solver == "randomized" or cls == "PCA" else p
        if cls == "PCA":
            # 'auto' policy: few modes -> randomised back-end, which is the one the option is for
            k = 2
        call(cls, A, k, solver, 3, skw=skw)
        events = drain(obs)
    else:
        def mk(pp):
            s = 0.7 ** np.arange(min(n - 1, pp))
            M, _, _ = gen.low_rank(n, pp, s, rng, cplx=cls in zoo.COMPLEX_INPUT_OK)
            da = xu.make_da(M, sample_dim="time")
            if container == "dask":
                da = da.chunk({"time": 10, "x": -1})
            return da

        data = [mk(p)]
        if zoo.kind(cls) == "cross":
            data.append(mk(7))
        kw = zoo.default_kwargs(cls, n_modes=2, solver=solver, solver_kwargs=skw, random_state=5)
        if n_pca:
            kw["n_pca_modes"] = 3 if solver == "full" else 8
        if cls_tag.endswith("-nopca"):
            kw["use_pca"] = False
        elif cls == "POP":
            # POP's PCA step has no solver argument: its back-end follows the 'auto' policy, so the option has
            # to be one of the back-end that policy selects (many modes -> exact, few -> randomised)
            kw["n_pca_modes"] = p if backend == "svd" else 2
        mon.reset()
        zoo.fit(cls, data, "time", kw)
        events = drain(obs)
    obs.note("backends", [(e["where"], e["backend"], e["kwargs"].get(opt, "<absent>")) for e in events])
    obs.nontrivial = bool(events)
    hit = [e for e in events if e["backend"] == backend]
    if not events:
        obs.cell(f"kw_no_backend:{cls_tag}")
        obs.check("fit_completed", True)
        return
    if not hit:
        # the class decomposes, but never with the back-end the solver argument names
        obs.check("expected_backend_ran", False, f"solver={solver!r} on {container} data never reached {backend}; ran {[e['backend'] for e in events]}", tags={"symptom": "backend_not_used"})
        return
    obs.check(
        "option_arrived",
        any(e["kwargs"].get(opt, "<absent>") == val for e in hit),
        f"solver_kwargs={{{opt!r}: {val!r}}} was not seen by any {backend} call: {[(e['where'], e['kwargs']) for e in hit]}",
        tags={"symptom": "option_dropped"},
    )


def run_discover(case, obs):
    import inspect

    import xeofs as xe

    obs.tag(op="discover")
    found_kw, found_rs = set(), set()
    for modname in ("single", "cross"):
        for name, c in vars(getattr(xe, modname)).items():
            if inspect.isclass(c):
                try:
                    prm = inspect.signature(c.__init__).parameters
                except (TypeError, ValueError):
                    continue
                if "solver_kwargs" in prm:
                    found_kw.add(name)
                if "random_state" in prm:
                    found_rs.add(name)
    obs.note("advertise_solver_kwargs", sorted(found_kw))
    obs.note("advertise_random_state", sorted(found_rs))
    missing = (found_kw | found_rs) - set(KW_CLASSES)
    if missing:
        e = RuntimeError(f"c15.KW_CLASSES is stale: {sorted(missing)} advertise solver_kwargs/random_state but are not exercised")
        e._xv_harness = True
        raise e
    obs.check("class_list_current", True)
    obs.nontrivial = True


# --------------------------------------------------------------------------- dispatch
RUN = {
    "thr": run_thr,
    "cmp": run_cmp,
    "auto": run_auto,
    "seed": run_seed,
    "seed_model": run_seed_model,
    "kw": run_kw,
    "discover": run_discover,
}


def run_case(case, obs):
    kind = case["kind"]
    obs.cell(f"kind:{kind}")
    if "target" in case:
        obs.cell(f"target:{case['target']}")
    if "container" in case:
        obs.cell(f"container:{case['container']}")
    try:
        RUN[kind](case, obs)
    finally:
        mon.drain(obs)
        # head-room statistics of the regimes where a back-end is known to break (judged all the same) are kept
        # apart, so that the runner's "worst err/tol" shows the regimes in which the property is expected to hold
        for k_ in [k_ for k_ in obs.worst if k_.endswith(("_smallscale", "_dask_lowmodes"))]:
            obs.info.setdefault("defect_regime_worst", {})[k_] = obs.worst.pop(k_)


def evidence_extra(results, extras):
    out = {"refusal_reasons": {}, "ambiguous_reasons": {}, "defect_regime_worst": {}}
    for r in results:
        if r["status"] in ("refused", "ambiguous"):
            d = out["refusal_reasons" if r["status"] == "refused" else "ambiguous_reasons"]
            d[str(r["reason"])] = d.get(str(r["reason"]), 0) + 1
        info = r.get("info") or {}
        if r["case"].get("kind") == "discover":
            out["classes_advertising_solver_kwargs"] = info.get("advertise_solver_kwargs")
            out["classes_advertising_random_state"] = info.get("advertise_random_state")
        for k, v in (info.get("defect_regime_worst") or {}).items():
            out["defect_regime_worst"][k] = max(out["defect_regime_worst"].get(k, 0.0), v)
    return out
