"""C08 -- centring, standardisation, weights, coslat and a global factor mean exactly what the options say.

Relation monitor between two executions of the real code: model A is fitted on
the raw input with the options under test, model B on an *independently
transformed copy* (numpy only) for which the statement promises identical (or
exactly rescaled) results.  Both fits use solver="full".

    shift    center on:          X -> X + a_j                      nothing changes
    affine   standardize on:     X -> b_j X + a_j  (b_j > 0)       nothing changes
    weights  fit(X, weights=w)   == fit(X w)                       (standardize off)
                                 == fit(Z w, no centring/std)      (standardize on; Z = oracle's standardised data)
    coslat   use_coslat          == weights sqrt(cos(lat))         (every accepted latitude name)
    scale    X -> c X, c != 0:   scores c, sigma |c|, expvar c^2, components and every fraction unchanged
    twolat   two latitude-named feature dims + use_coslat          must raise

Every public result is read back *by label* and compared mode by mode.  The
oracle (xv.oracle preprocessing + numpy SVD) supplies the spectrum of the
matrix that is decomposed; it decides whether individual modes are unique
(relative gap >= 1e-3, otherwise the case is `ambiguous`) and it enters the
error model of the shift/affine relations:

    tol_data = max(50 eps (1 + rho) sqrt(n), 1e-12),   rho = max_j |mean_j| / std_j over both executions
    tol_vec  = tol_data * amp / gap        (Wedin: a perturbation E turns a singular vector by <= |E|/gap;
                                            amp = cond^(1-alpha) of the whitening, 1 for EOF/MCA)

A trace monitor on `Scaler.fit` records which (center, std, coslat, weights)
combination each execution really used.
"""
import warnings

import numpy as np

from .. import gen, oracle, xu

LEVEL = "exploration"
RULE = (
    "structured corpus (class x relation x input container, every accepted latitude name, two-latitude refusals) + "
    "seeded random draws over n, feature layout, container (DataArray 1-2 feature dims / Dataset / list / list with Dataset), "
    "data scale 1e-3..1e3, relation parameter spanning 1e-6..1e6 (shift / per-feature scaling / global factor, both signs), "
    "weight container form, latitude values in [-90, 90] incl. the poles, flags; a case is non-trivial when the transformation "
    "is not the identity and the fitted matrix has rank >= 2; distinct = distinct canonical case record"
)
ASSUMPTIONS = [
    "xv.oracle.preprocess (numpy: mean, std ddof=0, sqrt(clip(cos(lat))), weights) and numpy.linalg.svd are the trusted reference for the transformed copy and for the spectrum",
    "individual modes are compared only when the oracle's spectrum of the decomposed matrix has relative gaps >= 1e-3 among the requested modes and no sign-convention tie; otherwise the case is counted ambiguous",
    "standardize=True is generated only with every per-feature std >= 1e-5 on both sides (clip at float32 eps = 1.2e-7 not in play)",
    "cross-set models with alpha < 1 get full-column-rank, well-conditioned fields (cond <= ~1e2 after weighting) and latitudes |lat| <= 85, because whitening a (numerically) zero-variance feature has no unique answer",
    "complex-valued decompositions (ComplexEOF with complex data, Hilbert*, Complex* cross) are compared modulo one common unit phase per mode applied to components and scores together",
    "cross-set singular values are read from model.data['singular_values'] (there is no public accessor)",
]
EXHAUSTIVE = {"quick": False, "thorough": False}

SINGLE = ("EOF", "ComplexEOF", "HilbertEOF", "ExtendedEOF")
CROSS = ("MCA", "CCA", "RDA", "CPCCA", "ComplexMCA", "ComplexCPCCA", "HilbertMCA", "HilbertCPCCA")
RELS = ("shift", "affine", "weights", "coslat", "scale")
CONT_SINGLE = ("da1", "da2", "ds", "list", "list_ds")
CONT_CROSS = ("da1", "da2", "ds", "list")
LATNAMES = ("latitude", "lats", "lat", "Latitude", "Lats", "Lat", "LATITUDE", "LATS", "LAT")
WFORMS = ("same", "transposed", "permuted")
EPS = float(np.finfo(float).eps)
GAP_MIN = 1e-3
STD_FLOOR = 1e-5
TOL_FLOOR = 1e-12  # the SVD's own backward error (a few eps sqrt(n)) needs 100x head-room when the shift is tiny
ALPHA_OF = {"MCA": (1.0, 1.0), "CCA": (0.0, 0.0), "RDA": (0.0, 1.0), "ComplexMCA": (1.0, 1.0), "HilbertMCA": (1.0, 1.0)}

_TRACE = []


# ------------------------------------------------------------------------------------------------
# monitors
# ------------------------------------------------------------------------------------------------
def setup(tier):
    """Trace monitor: record the options every Scaler.fit really ran with (class attribute patch, so every
    consumer -- GenericListTransformer holds the class -- goes through it)."""
    from xeofs.preprocessing import scaler as _sc

    if getattr(_sc.Scaler.fit, "_xv_c08", False):
        return
    orig = _sc.Scaler.fit

    def fit(self, X, sample_dims, feature_dims, weights=None):
        _TRACE.append(
            (bool(self.with_center), bool(self.with_std), bool(self.with_coslat), weights is not None)
        )
        return orig(self, X, sample_dims, feature_dims, weights)

    fit._xv_c08 = True
    _sc.Scaler.fit = fit


def required(tier):
    return {
        "mon": ["trace:Scaler.fit", "trace:Scaler.fit:weights", "trace:Scaler.fit:coslat", "trace:Scaler.fit:std"]
        + [f"pair:{r}" for r in RELS]
        + ["twolat:raised"],
        "cover": [f"cls:{c}" for c in SINGLE + CROSS]
        + [f"rel:{r}" for r in RELS + ("twolat",)]
        + [f"latname:{n}" for n in LATNAMES]
        + [f"cont:{c}" for c in CONT_SINGLE]
        + [f"wform:{w}" for w in WFORMS]
        + ["sign:neg", "sign:pos", "pole:True", "mag:hi", "mag:lo", "cross_weights:X_only", "cross_weights:Y_only", "cross_weights:both"],
        "max_refused_share": 0.2,
    }


# ------------------------------------------------------------------------------------------------
# case generation (parameters only; data are built in the worker from dseed)
# ------------------------------------------------------------------------------------------------
def _draw(rng, kind=None, cls=None, rel=None, cont=None, latname=None):
    kind = kind or ("single" if rng.random() < 0.5 else "cross")
    if kind == "single":
        cls = cls or str(rng.choice(SINGLE, p=[0.45, 0.25, 0.15, 0.15]))
        cont = cont or str(rng.choice(CONT_SINGLE))
    else:
        cls = cls or str(rng.choice(CROSS, p=[0.3, 0.14, 0.1, 0.2, 0.08, 0.06, 0.07, 0.05]))
        cont = cont or str(rng.choice(CONT_CROSS))
    rel = rel or str(rng.choice(RELS))
    c = dict(
        kind=kind,
        cls=cls,
        rel=rel,
        cont=cont,
        cont_y=str(rng.choice(["da1", "da2"])),
        scale_exp=int(rng.integers(-3, 4)),
        scale_exp_y=int(rng.integers(-3, 4)),
        center=bool(rng.random() < 0.75),
        standardize=[bool(rng.random() < 0.35), bool(rng.random() < 0.35)],
        coslat=[bool(rng.random() < 0.3), bool(rng.random() < 0.3)],
        weights=[bool(rng.random() < 0.4), bool(rng.random() < 0.4)],
        wform=str(rng.choice(WFORMS, p=[0.4, 0.3, 0.3])),
        latname=latname or str(rng.choice(LATNAMES)),
        latmode=int(rng.integers(0, 4)),
        cplx=False,
        mag=float(rng.uniform(-6, 6)),  # log10 of the relation's magnitude (shift / scaling / |c|)
        mag_y=float(rng.uniform(-6, 6)),
        mixed_mag=bool(rng.random() < 0.4),  # per-feature magnitudes instead of one common one
        neg=[bool(rng.random() < 0.5), bool(rng.random() < 0.5)],
        same_c=bool(rng.random() < 0.5),  # cross-set scale: one factor for the whole input
        kfrac=float(rng.random()),
        use_pca=bool(rng.random() < 0.5),
        alpha=[float(np.round(rng.uniform(0, 1), 2)), float(np.round(rng.uniform(0, 1), 2))],
        dseed=int(rng.integers(0, 2**31 - 1)),
    )
    if cls in ("ComplexEOF", "ComplexMCA", "ComplexCPCCA"):
        c["cplx"] = bool(rng.random() < 0.8)
    if cls.startswith("Hilbert"):
        c["padding"] = str(rng.choice(["exp", "none"]))
        c["decay"] = float(rng.choice([0.05, 0.2, 0.5]))
    if cls == "ExtendedEOF":
        c["tau"] = int(rng.integers(1, 3))
        c["embedding"] = int(rng.integers(2, 4))
    # what the relation needs switched on
    if rel == "shift":
        c["center"] = True
    if rel == "affine":
        c["standardize"] = [True, bool(rng.random() < 0.7)] if kind == "cross" else [True, True]
        if kind == "cross" and rng.random() < 0.3:
            c["standardize"] = c["standardize"][::-1]
    if rel == "weights":
        w = [[True, True], [True, False], [False, True]][int(rng.integers(0, 3))]
        c["weights"] = w if kind == "cross" else [True, True]
    if rel == "coslat":
        cl = [[True, True], [True, False], [False, True]][int(rng.integers(0, 3))]
        c["coslat"] = cl if kind == "cross" else [True, True]
    return c


def _twolat(rng, j):
    return dict(
        kind="twolat",
        cls=str(rng.choice(("EOF", "ComplexEOF", "HilbertEOF", "MCA", "CCA"))),
        rel="twolat",
        cont=str(rng.choice(["da2", "ds", "list"])),
        names=[str(x) for x in rng.choice(LATNAMES, size=2, replace=False)],
        dseed=int(rng.integers(0, 2**31 - 1)),
    )


def cases(tier, seed):
    out = []
    i = 0
    for cls in SINGLE:
        for rel in RELS:
            for cont in CONT_SINGLE:
                out.append(_draw(gen.rng_for(1008, i), "single", cls, rel, cont))
                i += 1
    for cls in CROSS:
        for rel in RELS:
            for cont in CONT_CROSS:
                out.append(_draw(gen.rng_for(1008, i), "cross", cls, rel, cont))
                i += 1
    for name in LATNAMES:
        for kind, cls in (("single", "EOF"), ("cross", "MCA"), ("cross", "CPCCA")):
            out.append(_draw(gen.rng_for(1008, i), kind, cls, "coslat", None, name))
            i += 1
    for j in range(18):
        out.append(_twolat(gen.rng_for(1008, 5000 + j), j))
    from . import c08_dtype

    out.extend(c08_dtype.cases(tier))  # weights relation on integer / float32 typed inputs
    nrand = 900 if tier == "quick" else 16000
    for j in range(nrand):
        rng = gen.rng_for(seed, 8, j)
        if rng.random() < 0.02:
            out.append(_twolat(rng, j))
        else:
            out.append(_draw(rng))
    return out


# ------------------------------------------------------------------------------------------------
# fields: a field is a list of elements (DataArray or Dataset), each made of blocks (n x p_b matrices)
# ------------------------------------------------------------------------------------------------
def _lat_values(rng, k, mode, polar_ok):
    lim = 90.0 if polar_ok else 85.0
    if mode == 0:  # regular grid pole to pole
        lat = np.linspace(-lim, lim, k) if k > 1 else np.array([float(rng.choice([-lim, 0.0, lim]))])
    elif mode == 3:  # irregular axis with the end points (and length) of the regular pole-to-pole grids of mode 0
        lat = np.concatenate([[-lim], np.sort(rng.uniform(-lim, lim, max(k - 2, 0))), [lim]])[:k] if k > 1 else np.array([lim])
        if k == 2:
            lat = np.array([-lim, lim])
    elif mode == 1:  # arbitrary reals
        lat = rng.uniform(-lim, lim, k)
    else:  # integer degrees, poles and equator likely
        pool = np.arange(-int(lim), int(lim) + 1, 1.0)
        lat = rng.choice(pool, size=k, replace=False)
        if k >= 2 and rng.random() < 0.5:
            lat[0] = lim if rng.random() < 0.5 else -lim
            lat = np.unique(lat)
            while lat.size < k:
                lat = np.unique(np.append(lat, rng.choice(pool)))
    if rng.random() < 0.3:
        lat = rng.permutation(lat)
    if rng.random() < 0.12:
        # an equatorial strip: every |lat| below pi/2 -- degrees that a units heuristic could take for radians
        lat = np.unique(np.round(rng.uniform(-1.5, 1.5, k), 3))
        while lat.size < k:
            lat = np.unique(np.append(lat, np.round(rng.uniform(-1.5, 1.5), 3)))
        lat = rng.permutation(lat)
    return np.asarray(lat, dtype=float)


def _layout(rng, cont, want_lat, latname, latmode, polar_ok, small, tag):
    """-> list of elements; element = dict(type 'da'|'ds', fdims, coords, fshape, vars=[names])"""

    def elem(etype, nd, e):
        if small:
            fshape = (int(rng.integers(2, 5)),) if nd == 1 else [(2, 2), (2, 3), (3, 2)][int(rng.integers(0, 3))]
            if etype == "ds":
                fshape = (int(rng.integers(2, 4)),) if nd == 1 else (2, 2)
        else:
            fshape = (int(rng.integers(2, 11)),) if nd == 1 else (int(rng.integers(2, 6)), int(rng.integers(2, 5)))
        has_lat = want_lat or rng.random() < 0.3
        if nd == 1:
            fdims = [latname if has_lat else f"x{tag}{e}"]
        else:
            fdims = [latname if has_lat else f"y{tag}{e}", f"lon{tag}{e}"]
            if rng.random() < 0.4:
                fdims = fdims[::-1]
                fshape = tuple(fshape)[::-1]
        fshape = tuple(int(v) for v in fshape)
        coords = {}
        for d, k in zip(fdims, fshape):
            if d == latname:
                coords[d] = _lat_values(rng, k, latmode, polar_ok)
            else:
                coords[d] = np.arange(k) * 10.0 + 5 * (e + 1)
        names = [None] if etype == "da" else [f"v{e}{q}" for q in "ab"]
        return dict(type=etype, fdims=tuple(fdims), fshape=fshape, coords=coords, vars=names)

    if cont == "da1":
        return [elem("da", 1, 0)], False
    if cont == "da2":
        return [elem("da", 2, 0)], False
    if cont == "ds":
        return [elem("ds", int(rng.integers(1, 3)), 0)], False
    if cont == "list":
        return [elem("da", 2 if not small else 1, 0), elem("da", 1, 1)], True
    if cont == "list_ds":
        return [elem("ds", 1, 0), elem("da", int(rng.integers(1, 3)), 1)], True
    raise ValueError(cont)


class Field:
    """Label bookkeeping for one input field.  Column order of the flat matrix: elements, then variables,
    then C-order over the element's feature dims."""

    def __init__(self, elems, is_list, n):
        self.elems = elems
        self.is_list = is_list
        self.n = n
        self.blocks = []  # (elem index, var name, slice)
        j = 0
        for e, el in enumerate(elems):
            pb = int(np.prod(el["fshape"]))
            for v in el["vars"]:
                self.blocks.append((e, v, slice(j, j + pb)))
                j += pb
        self.p = j

    def lat_weights(self, latname):
        """Oracle sqrt(cos(lat)) per flat feature column (1 where the element has no such dim)."""
        w = np.ones(self.p)
        for e, v, sl in self.blocks:
            el = self.elems[e]
            if latname in el["fdims"]:
                ax = el["fdims"].index(latname)
                wl = oracle.coslat_weights(el["coords"][latname])
                shp = [1] * len(el["fshape"])
                shp[ax] = -1
                w[sl] = np.broadcast_to(wl.reshape(shp), el["fshape"]).reshape(-1)
        return w

    def has_pole(self, latname):
        for el in self.elems:
            if latname in el["fdims"] and np.any(np.abs(el["coords"][latname]) >= 89.999):
                return True
        return False

    def data(self, M):
        import xarray as xr

        objs = []
        for e, el in enumerate(self.elems):
            coords = dict({"time": np.arange(self.n)}, **el["coords"])  # sample dim first (also in Dataset.dims)
            das = {}
            for (be, v, sl) in self.blocks:
                if be != e:
                    continue
                das[v] = xr.DataArray(
                    M[:, sl].reshape((self.n,) + el["fshape"]), dims=("time",) + el["fdims"], coords=coords
                )
            objs.append(das[None] if el["type"] == "da" else xr.Dataset(das))
            assert tuple(objs[-1].dims)[0] == "time"
        return objs if self.is_list else objs[0]

    def weights(self, w, form, rng):
        """Weight container matching the input.  form: same | transposed (dims reversed) | permuted (labels of one
        dim in another order -- xarray aligns by label)."""
        import xarray as xr

        objs = []
        for e, el in enumerate(self.elems):
            das = {}
            for (be, v, sl) in self.blocks:
                if be != e:
                    continue
                da = xr.DataArray(w[sl].reshape(el["fshape"]), dims=el["fdims"], coords=el["coords"])
                if form == "transposed":
                    da = da.transpose(*el["fdims"][::-1])
                if form == "permuted":
                    d = el["fdims"][-1]
                    da = da.isel({d: rng.permutation(da.sizes[d])})
                das[v] = da
            objs.append(das[None] if el["type"] == "da" else xr.Dataset(das))
        return objs if self.is_list else objs[0]


def _col_std(M):
    return np.sqrt((np.abs(M - M.mean(axis=0)) ** 2).mean(axis=0))


def _single_matrix(rng, n, p, cplx, scale):
    rmax = min(n - 1, p)
    for _ in range(30):
        r = int(rng.integers(min(2, rmax), min(rmax, 6) + 1))
        kind = str(rng.choice(["geometric", "linear", "gapped_tail"]))
        s = gen.spectrum(kind, r, rng)
        M, _, _ = gen.low_rank(n, p, s, rng, cplx=cplx, perp_ones=True)
        sd = _col_std(M)
        if sd.min() >= 0.03 * sd.max():
            break
    off = rng.standard_normal(p) * 2.0 * (rng.random() < 0.85)
    if cplx:
        off = off + 1j * rng.standard_normal(p)
    return (M + off * np.median(sd)) * scale, r


def _cross_matrices(rng, n, px, py, cplx, sx_scale, sy_scale):
    """X = Ux diag(sx) Vx^H, Y = Uy diag(sy) Vy^H with Ux^H Uy = diag(rho): full column rank, cond <= 4, the
    spectra of X^H Y (s_x rho s_y) and of every partially whitened version are strictly decreasing."""
    Q = gen.orthonormal(n, px + py, rng, cplx, perp_ones=True)
    Ux, N = Q[:, :px], Q[:, px:]
    m = min(px, py)
    rho = np.clip(np.linspace(0.92, 0.25, m) * (1 + 0.03 * rng.standard_normal(m)), 0.05, 0.97)
    Uy = N.copy()
    Uy[:, :m] = Ux[:, :m] * rho + N[:, :m] * np.sqrt(1 - rho**2)
    sx = np.linspace(1.0, 0.3, px) * (1 + 0.03 * rng.standard_normal(px)) if px > 1 else np.ones(1)
    sy = np.linspace(1.0, 0.35, py) * (1 + 0.03 * rng.standard_normal(py)) if py > 1 else np.ones(1)
    Vx = gen.orthonormal(px, px, rng, cplx)
    Vy = gen.orthonormal(py, py, rng, cplx)
    X = (Ux * sx) @ Vx.conj().T * np.sqrt(n)
    Y = (Uy * sy) @ Vy.conj().T * np.sqrt(n)
    ox = rng.standard_normal(px) * 2.0
    oy = rng.standard_normal(py) * 2.0
    if cplx:
        ox = ox + 1j * rng.standard_normal(px)
        oy = oy + 1j * rng.standard_normal(py)
    return (X + ox) * sx_scale, (Y + oy) * sy_scale


# ------------------------------------------------------------------------------------------------
# the relation: configuration of the transformed copy
# ------------------------------------------------------------------------------------------------
def _log_mags(rng, p, mag, mixed):
    if mixed:
        return rng.uniform(-6, 6, size=p)
    return np.full(p, mag) + rng.uniform(-0.3, 0.3, size=p)


def _relate(case, rng, fld, M, cfg, side):
    """cfg = dict(center, standardize, coslat, w (per-column weights or None)).  Returns (M_B, cfg_B, fac, info)
    where results of B are promised to equal those of A with scores multiplied by fac."""
    rel = case["rel"]
    p = M.shape[1]
    mag = case["mag"] if side == 0 else case["mag_y"]
    cplx = np.iscomplexobj(M)
    sd = _col_std(M)
    info = {}
    cfgB = dict(cfg)
    fac = 1.0
    if rel == "shift":
        a = 10.0 ** _log_mags(rng, p, mag, case["mixed_mag"]) * sd * rng.choice([-1.0, 1.0], size=p)
        if cplx:
            a = a * np.exp(2j * np.pi * rng.random(p))
        MB = M + a
        info["shift_over_std"] = float(np.max(np.abs(a) / sd))
    elif rel == "affine":
        if cfg["standardize"]:
            lo = np.maximum(-6.0, np.log10(STD_FLOOR * 1.01 / sd))
            e = _log_mags(rng, p, mag, case["mixed_mag"])
            e = np.clip(e, lo, 6.0)
            b = 10.0**e
            info["scaling_log10"] = [float(e.min()), float(e.max())]
        else:  # this field is not standardised: only the shift part applies to it
            b = np.ones(p)
        a = np.zeros(p, dtype=M.dtype)
        if cfg["center"]:
            a = 10.0 ** rng.uniform(-6, 6, size=p) * sd * b * rng.choice([-1.0, 1.0], size=p)
            if cplx:
                a = a * np.exp(2j * np.pi * rng.random(p))
        MB = M * b + a
        info["shift_over_std"] = float(np.max(np.abs(a) / (sd * b)))
    elif rel == "weights":
        w = cfg["w"]
        if w is None:
            MB = M
        elif cfg["standardize"]:
            Z = oracle.preprocess(M, cfg["center"], True)
            MB = Z * w
            cfgB.update(center=False, standardize=False, w=None)
        else:
            MB = M * w
            cfgB.update(w=None)
    elif rel == "coslat":
        MB = M
        if cfg["coslat"]:
            wl = fld.lat_weights(case["latname"])
            cfgB.update(coslat=False, w=wl if cfg["w"] is None else cfg["w"] * wl)
    elif rel == "scale":
        lo = -6.0
        if cfg["standardize"]:
            lo = max(-6.0, float(np.log10(STD_FLOOR * 1.01 / sd.min())))
        c = 10.0 ** max(mag, lo) * (-1.0 if case["neg"][side] else 1.0)
        MB = M * c
        fac = float(np.sign(c)) if cfg["standardize"] else float(c)
        info["c"] = float(c)
    else:
        raise ValueError(rel)
    return MB, cfgB, fac, info


def _rho(M):
    sd = _col_std(M)
    return float(np.max(np.abs(M.mean(axis=0)) / sd))


# ------------------------------------------------------------------------------------------------
# reading results back by label
# ------------------------------------------------------------------------------------------------
class _Structure(Exception):
    pass


def _flat(obj):
    import xarray as xr

    if isinstance(obj, (list, tuple)):
        out = []
        for o in obj:
            out.extend(_flat(o))
        return out
    if isinstance(obj, xr.Dataset):
        return [obj[v] for v in sorted(obj.data_vars)]
    return [obj]


def _pair_matrix(objA, objB, what):
    """Stack results of A and of B (reordered to A's labels) into (rows, k) matrices, 'mode' last."""
    fa, fb = _flat(objA), _flat(objB)
    if len(fa) != len(fb):
        raise _Structure(f"{what}: {len(fa)} vs {len(fb)} arrays")
    ra, rb = [], []
    for a, b in zip(fa, fb):
        if set(a.dims) != set(b.dims):
            raise _Structure(f"{what}: dims {a.dims} vs {b.dims}")
        sel = {}
        for d in a.dims:
            la, lb = np.asarray(a[d].values), np.asarray(b[d].values)
            if la.shape != lb.shape or not np.array_equal(np.sort(la), np.sort(lb)):
                raise _Structure(f"{what}: labels of '{d}' differ")
            sel[d] = la
        b = b.sel(sel)
        order = [d for d in a.dims if d != "mode"] + (["mode"] if "mode" in a.dims else [])
        va = np.asarray(a.transpose(*order).values)
        vb = np.asarray(b.transpose(*order).values)
        k = va.shape[-1] if "mode" in a.dims else 1
        ra.append(va.reshape(-1, k))
        rb.append(vb.reshape(-1, k))
    return np.concatenate(ra, axis=0), np.concatenate(rb, axis=0)


def _vec(da):
    return np.asarray(da.values).reshape(-1)


def _sign_tie(V, tol=1e-6):
    """xeofs orients every real mode so that its largest |entry| is positive; if the largest positive and the
    largest negative entry have (nearly) the same modulus the orientation is decided by round-off."""
    V = np.asarray(V)
    if np.iscomplexobj(V) or V.ndim != 2:
        return False
    hi = V.max(axis=0)
    lo = -V.min(axis=0)
    return bool(np.any(np.abs(hi - lo) <= max(tol, 1e-6) * np.maximum(np.abs(hi), np.abs(lo))))


def _phases(Va, Vb):
    z = np.einsum("ik,ik->k", Va.conj(), Vb)
    az = np.abs(z)
    return np.where(az > 0, z / np.where(az > 0, az, 1), 1.0)


def _drain_trace(obs):
    ev = list(_TRACE)
    _TRACE.clear()
    obs.count("trace:Scaler.fit", len(ev))
    obs.count("trace:Scaler.fit:weights", sum(1 for e in ev if e[3]))
    obs.count("trace:Scaler.fit:coslat", sum(1 for e in ev if e[2]))
    obs.count("trace:Scaler.fit:std", sum(1 for e in ev if e[1]))
    return ev


# ------------------------------------------------------------------------------------------------
# single-set
# ------------------------------------------------------------------------------------------------
def _single_ref(case, Mp):
    cls = case["cls"]
    if cls == "HilbertEOF":
        pad = case["padding"] if case["padding"] != "none" else None
        return oracle.hilbert_augment(Mp, pad, case["decay"])
    if cls == "ExtendedEOF":
        E = oracle.embed(Mp, case["tau"], case["embedding"])
        E2 = E.reshape(E.shape[0], -1)
        return E2 - E2.mean(axis=0)
    return Mp


def _fit_single(case, fld, M, cfg, k, wform, rng):
    import xeofs as xe

    kw = dict(n_modes=k, center=cfg["center"], standardize=cfg["standardize"], use_coslat=cfg["coslat"], solver="full")
    if case["cls"] == "HilbertEOF":
        kw.update(padding=case["padding"] if case["padding"] != "none" else None, decay_factor=case["decay"])
    if case["cls"] == "ExtendedEOF":
        kw.update(tau=case["tau"], embedding=case["embedding"])
    model = getattr(xe.single, case["cls"])(**kw)
    W = None if cfg["w"] is None else fld.weights(cfg["w"], wform, rng)
    with warnings.catch_warnings():
        warnings.simplefilter("ignore")
        model.fit(fld.data(M), dim="time", weights=W)
    return model


def _run_single(case, obs):
    rng = gen.rng_for(case["dseed"], 8)
    rel = case["rel"]
    cls = case["cls"]
    cplx = case["cplx"]
    polar_ok = True
    elems, is_list = _layout(rng, case["cont"], case["coslat"][0], case["latname"], case["latmode"], polar_ok, False, "")
    nmin = 8 if cls != "ExtendedEOF" else 14
    n = int(rng.integers(nmin, 31))
    fld = Field(elems, is_list, n)
    p = fld.p
    scale = 10.0 ** case["scale_exp"]
    M, r = _single_matrix(rng, n, p, cplx, scale)
    wform = case["wform"]
    w = None
    if case["weights"][0]:
        w = 10.0 ** rng.uniform(-1.5, 1.5, size=p)
    cfgA = dict(center=case["center"], standardize=case["standardize"][0], coslat=case["coslat"][0], w=w)
    MB, cfgB, fac, info = _relate(case, rng, fld, M, cfgA, 0)
    for key, v in info.items():
        obs.note(key, v)
    obs.tag(center=cfgA["center"], standardize=cfgA["standardize"], coslat=cfgA["coslat"], weights=w is not None)
    obs.cell(f"cont:{case['cont']}")
    if w is not None:
        obs.cell(f"wform:{wform}")
        obs.tag(wform=wform)
    if cfgA["coslat"]:
        obs.cell(f"latname:{case['latname']}", f"pole:{fld.has_pole(case['latname'])}")
    if rel in ("shift", "affine", "scale"):
        obs.cell("mag:hi" if case["mag"] > 3 else ("mag:lo" if case["mag"] < -3 else "mag:mid"))
    if rel == "scale":
        obs.cell("sign:neg" if info["c"] < 0 else "sign:pos")
        obs.tag(c_negative=bool(info["c"] < 0))

    # ---- oracle: spectrum of the matrix that is decomposed (A side) -----------------------------
    w_cos = fld.lat_weights(case["latname"]) if cfgA["coslat"] else None
    Mp = oracle.preprocess(M, cfgA["center"], cfgA["standardize"], w_cos, w)
    Mref = _single_ref(case, Mp)
    sv_or = np.linalg.svd(Mref, compute_uv=False)
    s1 = max(float(sv_or[0]), np.finfo(float).tiny)
    rank = int((sv_or > 1e-6 * s1).sum())  # a pole row (weight 8e-9) leaves a mode at round-off level: never requested
    kmax = max(1, min(r, rank, 5))
    k = int(np.clip(1 + int(case["kfrac"] * kmax), 1, kmax))
    nxt = np.append(sv_or, 0.0)
    gap = float(np.min((nxt[:k] - nxt[1 : k + 1]) / s1))
    obs.note("n_modes", k)
    obs.note("rel_gap", gap)
    if gap < GAP_MIN:
        obs.ambiguous(f"oracle spectrum has relative gap {gap:.1e} < {GAP_MIN} among the {k} requested modes")

    # ---- the two executions --------------------------------------------------------------------
    _TRACE.clear()
    A = _fit_single(case, fld, M, cfgA, k, wform, rng)
    trA = _drain_trace(obs)
    B = _fit_single(case, fld, MB, cfgB, k, "same", rng)
    trB = _drain_trace(obs)
    nel = len(fld.elems)
    # (ExtendedEOF runs a second, internal Scaler on the embedded matrix)
    obs.check("trace_scaler_calls", len(trA) >= nel and len(trB) >= nel, f"{len(trA)}/{len(trB)} Scaler.fit calls for {nel} elements")
    if w is not None:
        want = nel
        obs.check(
            "trace_weights_reach_scaler",
            sum(1 for e in trA if e[3]) == want,
            f"{sum(1 for e in trA if e[3])} of {nel} Scaler.fit calls received weights, expected {want}",
            tags={"symptom": "weights_not_passed"},
        )
    obs.count(f"pair:{rel}")
    obs.nontrivial = bool(rank >= 2)

    # ---- tolerances ------------------------------------------------------------------------------
    if rel in ("shift", "affine"):
        rho = max(_rho(M), _rho(MB))
        tol_data = max(50 * EPS * (1 + rho) * np.sqrt(n), TOL_FLOOR)
        obs.note("rho", rho)
    else:
        tol_data = TOL_FLOOR  # exact relations: 1e-9 on vectors at the smallest admitted gap
    tol_vec = tol_data / min(gap, 1.0)
    tol_val = tol_data
    obs.note("tol_vec", tol_vec)

    try:
        Va, Vb = _pair_matrix(A.components(), B.components(), "components")
        Sa, Sb = _pair_matrix(A.scores(), B.scores(), "scores")
    except _Structure as e:
        obs.check("result_structure", False, str(e), tags={"symptom": "structure"})
        return
    obs.check("n_modes_returned", Va.shape[1] == k and Vb.shape[1] == k, f"{Va.shape[1]}/{Vb.shape[1]} modes, asked {k}")
    is_c = np.iscomplexobj(Va) or np.iscomplexobj(Vb)
    if not is_c and (_sign_tie(Va, 10 * tol_vec) or _sign_tie(Vb, 10 * tol_vec)):
        obs.ambiguous("sign convention tie (largest positive and negative loading equal in modulus)")
    if is_c:
        z = _phases(Va, Vb)
        obs.note("phase_max_abs_rad", float(np.max(np.abs(np.angle(z)))))
        Vb = Vb / z
        Sb = Sb / z
    sva, svb = _vec(A.singular_values()), _vec(B.singular_values())
    eva, evb = _vec(A.explained_variance()), _vec(B.explained_variance())
    ra, rb = _vec(A.explained_variance_ratio()), _vec(B.explained_variance_ratio())
    ok = np.isfinite(Va).all() and np.isfinite(sva).all() and np.isfinite(svb).all() and np.isfinite(Vb).all()
    obs.check("finite_results", ok, "non-finite components / singular values", tags={"symptom": "non_finite"})
    sc_s = max(float(np.nanmax(np.abs(Sa))), np.finfo(float).tiny)
    t = {"op": rel}
    obs.close("components_unchanged", Vb, Va, tol_vec, scale=max(float(np.abs(Va).max()), 1e-300), tags=dict(t, symptom="components_differ"))
    obs.close("scores_scaled_by_c", Sb / fac, Sa, tol_vec, scale=sc_s, tags=dict(t, symptom="scores_differ"))
    obs.close("singular_values_scaled_by_abs_c", svb / abs(fac), sva, tol_val, scale=float(sva[0]), tags=dict(t, symptom="singular_values_differ"))
    obs.close("explained_variance_scaled_by_c2", evb / fac**2, eva, 2 * tol_val, scale=float(eva[0]), tags=dict(t, symptom="explained_variance_differ"))
    obs.close("explained_variance_ratio_unchanged", rb, ra, 2 * tol_val, scale=float(max(ra[0], 1e-300)), tags=dict(t, symptom="fraction_differs"))
    # the oracle's spectrum is what both must show (ties the pair to the statement, not only to each other)
    obs.close("singular_values_vs_oracle", sva, sv_or[:k], 1e-9, scale=s1, tags=dict(t, symptom="singular_values_ne_oracle"))


# ------------------------------------------------------------------------------------------------
# cross-set
# ------------------------------------------------------------------------------------------------
def _alphas(case):
    cls = case["cls"]
    if cls in ALPHA_OF:
        return ALPHA_OF[cls]
    return tuple(case["alpha"])


def _fit_cross(case, flds, Ms, cfgs, k, wforms, rng):
    import xeofs as xe

    cls = case["cls"]
    seq = tuple if k % 2 else list  # per-field options are documented as sequences: tuples and lists alternate
    kw = dict(
        n_modes=k,
        standardize=seq([cfgs[0]["standardize"], cfgs[1]["standardize"]]),
        use_coslat=seq([cfgs[0]["coslat"], cfgs[1]["coslat"]]),
        use_pca=case["use_pca"],
        n_pca_modes="all",
        solver="full",
    )
    if cls.endswith("CPCCA"):
        kw["alpha"] = seq(case["alpha"])
    if cls.startswith("Hilbert"):
        kw.update(padding=case["padding"] if case["padding"] != "none" else None, decay_factor=case["decay"])
    with warnings.catch_warnings():
        warnings.simplefilter("ignore")
        model = getattr(xe.cross, cls)(**kw)
        W = [None if cfgs[i]["w"] is None else flds[i].weights(cfgs[i]["w"], wforms[i], rng) for i in (0, 1)]
        model.fit(flds[0].data(Ms[0]), flds[1].data(Ms[1]), dim="time", weights_X=W[0], weights_Y=W[1])
    return model


def _cross_ref(case, Mp, side):
    if case["cls"].startswith("Hilbert"):
        pad = case["padding"] if case["padding"] != "none" else None
        return oracle.hilbert_augment(Mp, pad, case["decay"])
    return Mp


def _whiten(Xp, alpha):
    if alpha >= 1.0:
        return Xp
    C = Xp.conj().T @ Xp / Xp.shape[0]
    return Xp @ oracle.frac_power_psd(C, (alpha - 1) / 2)


def _fractions(model, cls):
    out = {}
    with warnings.catch_warnings():
        warnings.simplefilter("ignore")
        out["squared_covariance_fraction"] = _vec(model.squared_covariance_fraction())
        out["fraction_variance_X_explained_by_X"] = _vec(model.fraction_variance_X_explained_by_X())
        out["fraction_variance_Y_explained_by_Y"] = _vec(model.fraction_variance_Y_explained_by_Y())
        out["fraction_variance_Y_explained_by_X"] = _vec(model.fraction_variance_Y_explained_by_X())
        out["cross_correlation_coefficients"] = _vec(model.cross_correlation_coefficients())
        if cls.endswith("MCA"):
            out["covariance_fraction_CD95"] = _vec(model.covariance_fraction_CD95())
    return out


def _run_cross(case, obs):
    rng = gen.rng_for(case["dseed"], 8)
    rel = case["rel"]
    cls = case["cls"]
    cplx = case["cplx"]
    ax, ay = _alphas(case)
    whitened = (ax < 1.0) or (ay < 1.0)
    polar_ok = not whitened
    ex, lx = _layout(rng, case["cont"], case["coslat"][0], case["latname"], case["latmode"], polar_ok, True, "")
    ey, ly = _layout(rng, case["cont_y"], case["coslat"][1], case["latname"], case["latmode"], polar_ok, True, "q")
    px = sum(int(np.prod(e["fshape"])) * len(e["vars"]) for e in ex)
    py = sum(int(np.prod(e["fshape"])) * len(e["vars"]) for e in ey)
    n = int(px + py + 2 + rng.integers(0, 14))
    if cls.startswith("Hilbert"):
        n = int(2 * (px + py) + 4 + rng.integers(0, 10))  # the analytic signal of n samples spans only ~n/2 directions
    fx, fy = Field(ex, lx, n), Field(ey, ly, n)
    flds = (fx, fy)
    X, Y = _cross_matrices(rng, n, px, py, cplx, 10.0 ** case["scale_exp"], 10.0 ** case["scale_exp_y"])
    Ms = (X, Y)
    wforms = []
    cfgA = []
    for i, (f, Mi) in enumerate(zip(flds, Ms)):
        wf = case["wform"]
        w = None
        if case["weights"][i]:
            w = 10.0 ** rng.uniform(-1.0, 1.0, size=f.p)
        wforms.append(wf)
        cfgA.append(dict(center=True, standardize=case["standardize"][i], coslat=case["coslat"][i], w=w))
    case_eff = case
    if rel == "scale" and case["same_c"]:
        case_eff = dict(case, mag_y=case["mag"], neg=[case["neg"][0], case["neg"][0]])
    MBs, cfgB, facs, infos = [], [], [], []
    for i in (0, 1):
        MB, cB, fac, info = _relate(case_eff, rng, flds[i], Ms[i], cfgA[i], i)
        if rel == "weights" and cfgA[i]["standardize"] and cfgA[i]["w"] is not None:
            cB["center"] = True  # cross-set models always centre; Z w is already centred
        MBs.append(MB)
        cfgB.append(cB)
        facs.append(fac)
        infos.append(info)
    obs.note("relation_info", infos)
    obs.tag(
        alpha_lt1=bool(whitened),
        use_pca=case["use_pca"],
        standardize=bool(cfgA[0]["standardize"] or cfgA[1]["standardize"]),
        coslat=bool(cfgA[0]["coslat"] or cfgA[1]["coslat"]),
        weights=bool(cfgA[0]["w"] is not None or cfgA[1]["w"] is not None),
    )
    obs.cell(f"cont:{case['cont']}", f"alpha_lt1:{whitened}", f"use_pca:{case['use_pca']}")
    for i in (0, 1):
        if cfgA[i]["w"] is not None:
            obs.cell(f"wform:{wforms[i]}")
        if cfgA[i]["coslat"]:
            obs.cell(f"latname:{case['latname']}", f"pole:{flds[i].has_pole(case['latname'])}")
    if rel == "weights":
        wx, wy = cfgA[0]["w"] is not None, cfgA[1]["w"] is not None
        obs.cell("cross_weights:" + ("both" if wx and wy else "X_only" if wx else "Y_only"))
    if rel in ("shift", "affine", "scale"):
        obs.cell("mag:hi" if case["mag"] > 3 else ("mag:lo" if case["mag"] < -3 else "mag:mid"))
    if rel == "scale":
        cxy = infos[0]["c"] * infos[1]["c"]
        obs.cell("sign:neg" if (infos[0]["c"] < 0 or infos[1]["c"] < 0) else "sign:pos")
        obs.tag(c_negative=bool(infos[0]["c"] < 0 or infos[1]["c"] < 0), same_c=bool(case["same_c"]))

    # ---- oracle: spectrum of the decomposed cross-covariance (A side) ---------------------------
    refs, conds, lam_min = [], [], []
    for i, al in ((0, ax), (1, ay)):
        wc = flds[i].lat_weights(case["latname"]) if cfgA[i]["coslat"] else None
        Mp = oracle.preprocess(Ms[i], True, cfgA[i]["standardize"], wc, cfgA[i]["w"])
        Mr = _cross_ref(case, Mp, i)
        s = np.linalg.svd(Mr, compute_uv=False)
        conds.append(float(s[0] / max(s[-1], 1e-300)))
        lam_min.append(float(s[-1] ** 2 / n))
        refs.append(_whiten(Mr, al))
    K = refs[0].conj().T @ refs[1] / (n - 1)
    sv_or = np.linalg.svd(K, compute_uv=False)
    s1 = max(float(sv_or[0]), np.finfo(float).tiny)
    rank = int((sv_or > 1e-6 * s1).sum())
    kmax = max(1, min(rank, 4))
    k = int(np.clip(1 + int(case["kfrac"] * kmax), 1, kmax))
    nxt = np.append(sv_or, 0.0)
    gap = float(np.min((nxt[:k] - nxt[1 : k + 1]) / s1))
    amp = conds[0] ** (1 - ax) * conds[1] ** (1 - ay)
    obs.note("n_modes", k)
    obs.note("rel_gap", gap)
    obs.note("cond", conds)
    if gap < GAP_MIN:
        obs.ambiguous(f"oracle spectrum has relative gap {gap:.1e} < {GAP_MIN} among the {k} requested modes")
    if whitened and max(conds) > 1e3:
        obs.ambiguous(f"whitening a field of condition {max(conds):.1e}")
    # xeofs's fractional matrix power drops covariance eigenvalues <= float eps (absolute): record when the
    # smallest covariance eigenvalue of a field (either execution) comes near that cut
    lam_B = []
    if rel == "scale":
        lam_B = [lam_min[i] * (1.0 if cfgA[i]["standardize"] else infos[i]["c"] ** 2) for i in (0, 1)]
    near_eps = bool(min(lam_min + lam_B) < 1e-15)
    obs.tag(cov_eig_near_eps=near_eps, min_cov_eig=float(min(lam_min + lam_B)))
    obs.cell(f"cov_eig_near_eps:{near_eps}")

    # ---- the two executions --------------------------------------------------------------------
    _TRACE.clear()
    A = _fit_cross(case, flds, Ms, cfgA, k, wforms, rng)
    trA = _drain_trace(obs)
    B = _fit_cross(case, flds, MBs, cfgB, k, ("same", "same"), rng)
    _drain_trace(obs)
    nel = len(fx.elems) + len(fy.elems)
    obs.check("trace_scaler_calls", len(trA) == nel, f"{len(trA)} Scaler.fit calls for {nel} elements")
    want = 0
    for i in (0, 1):
        if cfgA[i]["w"] is not None:
            want += len(flds[i].elems)
    obs.check(
        "trace_weights_reach_scaler",
        sum(1 for e in trA if e[3]) == want,
        f"{sum(1 for e in trA if e[3])} Scaler.fit calls received weights, expected {want}",
        tags={"symptom": "weights_not_passed", "op": rel},
    )
    obs.count(f"pair:{rel}")
    obs.nontrivial = bool(rank >= 2)

    if rel in ("shift", "affine"):
        rho = max(_rho(Ms[0]), _rho(Ms[1]), _rho(MBs[0]), _rho(MBs[1]))
        tol_data = max(50 * EPS * (1 + rho) * np.sqrt(n), TOL_FLOOR) * amp
        obs.note("rho", rho)
    else:
        tol_data = TOL_FLOOR * max(1.0, amp)
    tol_vec = tol_data / min(gap, 1.0)
    tol_val = tol_data
    obs.note("tol_vec", tol_vec)
    t = {"op": rel}

    # ---- fractions: invariant under every relation, for every alpha --------------------------------
    FA, FB = _fractions(A, cls), _fractions(B, cls)
    x_cond_ok = conds[0] <= 1e3
    for name in FA:
        if name == "fraction_variance_Y_explained_by_X" and not x_cond_ok:
            obs.cell("skip:fve_yx_ill_conditioned")
            continue  # involves Cx^(-1/2): no unique value when X has a numerically zero-variance direction
        obs.close(name, FB[name], FA[name], max(10 * tol_val, 1e-9) if rel in ("shift", "affine") else 1e-9 * max(1.0, amp), scale=1.0, tags=dict(t, symptom="fraction_differs", quantity=name))

    sva, svb = _vec(A.data["singular_values"]), _vec(B.data["singular_values"])
    f_sv = abs(facs[0]) ** ax * abs(facs[1]) ** ay
    dev = float(np.max(np.abs(svb / f_sv - sva)) / max(float(sva[0]), 1e-300)) if np.isfinite(svb).all() and np.isfinite(sva).all() else float("nan")
    obs.note("sigma_over_abs_c_pow_alpha_dev", dev)
    if rel == "scale" and whitened:
        obs.cell("scale:fractions_only")
        return  # general alpha: only the fractions are promised under a global factor

    # ---- modes ---------------------------------------------------------------------------------
    try:
        ca, cb = A.components(), B.components()
        sa, sb = A.scores(), B.scores()
        V1a, V1b = _pair_matrix(ca[0], cb[0], "components X")
        V2a, V2b = _pair_matrix(ca[1], cb[1], "components Y")
        S1a, S1b = _pair_matrix(sa[0], sb[0], "scores X")
        S2a, S2b = _pair_matrix(sa[1], sb[1], "scores Y")
    except _Structure as e:
        obs.check("result_structure", False, str(e), tags={"symptom": "structure"})
        return
    obs.check("n_modes_returned", V1a.shape[1] == k and V1b.shape[1] == k, f"{V1a.shape[1]}/{V1b.shape[1]} modes, asked {k}")
    is_c = any(np.iscomplexobj(v) for v in (V1a, V1b, V2a, V2b))
    # gauge of one mode: (u z, v z) with |z| = 1 (z = +-1 for real data, fixed by the sign convention).  A negative
    # product cx*cy turns the cross-covariance into its negative, so exactly one of the two vectors of a mode
    # changes sign (which one is the convention's business); the scores always follow their vector.
    want_pair = -1.0 if (rel == "scale" and facs[0] * facs[1] < 0) else 1.0
    if is_c:
        z1, z2 = _phases(V1a, V1b), _phases(V2a, V2b)
        obs.close("phase_pairing", z1 * np.conj(z2), np.full(k, want_pair, dtype=complex), 10 * tol_vec, scale=1.0, tags=dict(t, symptom="sign_pairing"))
        V1b, S1b, V2b, S2b = V1b / z1, S1b / z1, V2b / z2, S2b / z2
    else:
        sg1 = np.sign(np.einsum("ik,ik->k", V1a, V1b))
        sg2 = np.sign(np.einsum("ik,ik->k", V2a, V2b))
        obs.check("sign_pairing", bool(np.all(sg1 * sg2 == want_pair)), f"signs X {sg1}, Y {sg2}, product must be {want_pair}", tags=dict(t, symptom="sign_pairing"))
        # xeofs fixes the orientation on the right singular vectors *in the coordinates they are computed in* (PCA
        # coordinates when use_pca): a tie there, or in the orientation of a PCA basis vector of Y (structural for a
        # standardised 2-feature field: (1, +-1)/sqrt 2), leaves the joint sign of a mode to round-off
        tie = False
        for m in (A, B):
            tie = tie or _sign_tie(np.asarray(m.data["components2"].values), 10 * tol_vec)
            if case["use_pca"]:
                tie = tie or _sign_tie(np.asarray(m.pca2.V.values), 10 * tol_vec)
        if tie:
            obs.cell("orientation:tie_joint_sign_not_asserted")
        elif want_pair > 0:
            obs.check("orientation_unchanged", bool(np.all(sg1 == 1) and np.all(sg2 == 1)), f"signs X {sg1}, Y {sg2}", tags=dict(t, symptom="mode_sign_flipped"))
        else:
            obs.note("flipped_side", "X" if np.all(sg1 == -1) else ("Y" if np.all(sg2 == -1) else "mixed"))
        V1b, V2b = V1b * sg1, V2b * sg2
        S1b, S2b = S1b * sg1, S2b * sg2
    obs.close("components_X_unchanged", V1b, V1a, tol_vec, scale=max(float(np.abs(V1a).max()), 1e-300), tags=dict(t, symptom="components_differ", field="X"))
    obs.close("components_Y_unchanged", V2b, V2a, tol_vec, scale=max(float(np.abs(V2a).max()), 1e-300), tags=dict(t, symptom="components_differ", field="Y"))
    obs.close("scores_X_scaled_by_c", S1b / facs[0], S1a, tol_vec, scale=max(float(np.abs(S1a).max()), 1e-300), tags=dict(t, symptom="scores_differ", field="X"))
    obs.close("scores_Y_scaled_by_c", S2b / facs[1], S2a, tol_vec, scale=max(float(np.abs(S2a).max()), 1e-300), tags=dict(t, symptom="scores_differ", field="Y"))
    obs.close("singular_values_scaled", svb / f_sv, sva, tol_val, scale=float(sva[0]), tags=dict(t, symptom="singular_values_differ"))
    sca, scb = _vec(A.data["squared_covariance"]), _vec(B.data["squared_covariance"])
    obs.close("squared_covariance_scaled", scb / f_sv**2, sca, 2 * tol_val, scale=float(sca[0]), tags=dict(t, symptom="explained_variance_differ"))
    obs.note("sigma_vs_oracle_dev", float(np.max(np.abs(sva - sv_or[:k])) / s1))


# ------------------------------------------------------------------------------------------------
# two latitude-named feature dimensions
# ------------------------------------------------------------------------------------------------
def _run_twolat(case, obs):
    import xarray as xr
    import xeofs as xe

    from ..boot import REPO
    from ..obs import exception_site

    rng = gen.rng_for(case["dseed"], 8)
    cls = case["cls"]
    n = int(rng.integers(8, 16))
    a, b = int(rng.integers(2, 4)), int(rng.integers(2, 4))
    n1, n2 = case["names"]
    coords = {"time": np.arange(n), n1: np.linspace(-60, 60, a), n2: np.linspace(-30, 80, b)}
    plain = {"time": np.arange(n), "lat": [-10.0, 0.0, 20.0]}

    def da():
        return xr.DataArray(rng.standard_normal((n, a, b)), dims=("time", n1, n2), coords=coords)

    if case["cont"] == "da2":
        X = da()
    elif case["cont"] == "ds":
        X = xr.Dataset({"u": da(), "v": da()})
    else:
        X = [xr.DataArray(rng.standard_normal((n, 3)), dims=("time", "lat"), coords=plain), da()]
    Y = xr.DataArray(rng.standard_normal((n, 3)), dims=("time", "lat"), coords=plain)
    cross = cls in CROSS
    obs.tag(op="twolat", container=case["cont"])
    obs.cell(f"cont:{case['cont']}")
    obs.nontrivial = True

    def fit(coslat):
        with warnings.catch_warnings():
            warnings.simplefilter("ignore")
            if cross:
                m = getattr(xe.cross, cls)(n_modes=2, use_coslat=[coslat, False], solver="full", n_pca_modes="all")
                m.fit(X, Y, dim="time")
            else:
                m = getattr(xe.single, cls)(n_modes=2, use_coslat=coslat, solver="full")
                m.fit(X, dim="time")
        return m

    _TRACE.clear()
    try:
        fit(True)
    except Exception as e:  # noqa: BLE001  -- the refusal the property demands
        site = exception_site(e, REPO)
        obs.check("refusal_comes_from_xeofs", site is not None, f"{type(e).__name__}: {e}")
        obs.note("refusal", f"{type(e).__name__} at {site}: {str(e)[:120]}")
        obs.count("twolat:raised")
    else:
        obs.check(
            "two_latitude_dims_must_raise",
            False,
            f"use_coslat=True with feature dims {n1!r} and {n2!r} was accepted",
            tags={"symptom": "ambiguous_latitude_accepted"},
        )
    _drain_trace(obs)
    # control: the same input without use_coslat is a valid call and must return a result
    m = fit(False)
    comps = m.components()
    flat = _flat(list(comps) if cross else comps)
    obs.check("control_without_coslat_fits", all(np.isfinite(np.asarray(c.values)).all() for c in flat))
    _drain_trace(obs)


# ------------------------------------------------------------------------------------------------
def run_case(case, obs):
    if case["kind"] == "dtype":
        from . import c08_dtype

        return c08_dtype.run_case(case, obs)
    obs.tag(cls=case["cls"], op=case["rel"], container=case.get("cont"), cplx=bool(case.get("cplx", False)))
    obs.cell(f"cls:{case['cls']}", f"rel:{case['rel']}", f"kind:{case['kind']}")
    if case["kind"] == "twolat":
        return _run_twolat(case, obs)
    if case["kind"] == "single":
        return _run_single(case, obs)
    return _run_cross(case, obs)


def evidence_extra(results, extras):
    """What the monitors saw beyond pass/fail: which side carries a forced sign flip, how well sigma follows
    |c|^alpha for general alpha (recorded, not asserted), the refusals of two-latitude inputs, phases applied."""
    flipped, refusals = {}, {}
    dev_max, dev_n, phase_max = 0.0, 0, 0.0
    for r in results:
        info = r.get("info") or {}
        if "flipped_side" in info:
            flipped[info["flipped_side"]] = flipped.get(info["flipped_side"], 0) + 1
        if "refusal" in info:
            key = str(info["refusal"]).split(":")[0]
            refusals[key] = refusals.get(key, 0) + 1
        d = info.get("sigma_over_abs_c_pow_alpha_dev")
        if isinstance(d, float) and d == d and r["case"].get("rel") == "scale" and r["status"] == "held":
            dev_max = max(dev_max, d)
            dev_n += 1
        ph = info.get("phase_max_abs_rad")
        if isinstance(ph, float):
            phase_max = max(phase_max, ph)
    return {
        "cross_scale_negative_product_flipped_side": flipped,
        "two_latitude_refusals": refusals,
        "sigma_vs_abs_c_pow_alpha_max_rel_dev": {"cases": dev_n, "max": dev_max},
        "max_common_phase_applied_rad": phase_max,
    }
