"""C19 -- OPA returns uncorrelated series ordered by their own decorrelation time.

Reference-model monitor + post-condition hook.

The oracle preprocesses the raw input itself, takes its own leading q principal
component series (LAPACK SVD of the centred matrix), and uses the estimator

    r(tau) = sum_t P_t P_{t+tau} / (n - tau - 1)
    T(P)   = [ r(0)/2 + sum_{0<tau<tau_max} r(tau) + r(tau_max)/2 ] / r(0)

(the trapezoidal sum of the lagged autocorrelation up to tau_max).  T of a linear
combination w of the PCs is the Rayleigh quotient w^T M_sym w / w^T C0 w, so the
optimum is the largest generalised eigenvalue scipy.linalg.eigh(M_sym, C0).

Checked on every fit: Gram(scores) = c I; filter_patterns^T components diagonal;
each reported decorrelation time equals T of ITS OWN score series; reported values
and own-series values descending; T(first series) >= T(w) for 200 random w and the
reported values are the leading generalised eigenvalues; series = data . filter
pattern and pattern = regression of the data on the series (the definitions that
tell a filter pattern from an optimally persistent pattern); series lie in the
retained PC subspace.

M-CTAU (icontract post-condition on OPA._Ctau): every lagged covariance the code
forms equals X[:n-tau]^T X[tau:] / (n - tau - 1) of its own argument.
M-BACK: which SVD back-end produced the PCs (tolerance class).
"""
import warnings

import numpy as np

from .. import gen, mon, oracle, xu

LEVEL = "exploration"
RULE = (
    "structured corpus (kind in {white, ar1, ar1_lowrank, antipersistent} x tau_max in {1, mid, n/3} x n_pca_modes in {2, mid, rank} x "
    "n_modes in {1, mid, n_pca_modes}) + seeded random draws over n, p, persistence, tau_max 1..n/3, n_pca_modes 2..rank, "
    "n_modes 1..n_pca_modes, flags, solver, feature layout; non-trivial when n_pca_modes >= 2 (always) and the lag sum has >= 1 "
    "lag; distinct = distinct canonical case record"
)
ASSUMPTIONS = [
    "numpy.linalg.svd, scipy.linalg.eigh(M_sym, C0) and the harness's own preprocessing are the trusted reference",
    "autocovariance estimator r(tau) = sum_t P_t P_{t+tau}/(n-tau-1) (DESIGN C19; checked against the code's _Ctau by the M-CTAU hook)",
    "retained PCs = leading q left singular vectors of the preprocessed matrix centred along time (OPA's inner EOF always centres; with "
    "center=False the uncentred subspace is accepted as well, whichever contains the returned series)",
    "relative gap < 1e-6 at the PCA truncation (q < rank) -> ambiguous; randomised back-end whose sketch does not span the range on a non-gapped spectrum -> ambiguous",
    "filter pattern / optimally persistent pattern are told apart by their definitions (series = data.filter, pattern = regression of data on series), each up to one real factor per mode",
]
KINDS = ("white", "ar1", "ar1_lowrank", "antipersistent")
# "tiny_pc": the most persistent latent source has a tiny amplitude (3e-7 of the others) but is retained as a PC;
# structured family only (see cases())
SOLVERS = ("full", "auto", "randomized")
_CTAU_TOL = 1e-10


def setup(tier):
    mon.install_decomposer()
    if not mon.ACTIVE or "c19_ctau" in mon._installed:
        return
    import icontract
    from xeofs.single import opa as O

    def ctau_post(self, X, tau, result):
        try:
            sn = self.preprocessor.sample_name
            Xv = np.asarray(X.transpose(sn, "mode").values, dtype=float)
            n = Xv.shape[0]
            ref = Xv[: n - tau].T @ Xv[tau:] / (n - tau - 1)
            got = np.asarray(result.transpose("feature1", "feature2").values, dtype=float)
            mon._count("post:OPA._Ctau")
            scale = max(float(np.abs(Xv.T @ Xv).max()) / max(n - tau - 1, 1), np.finfo(float).tiny)
            # the index convention (which factor is lagged) is internal: accept C(tau) or its transpose
            err = min(float(np.abs(got - ref).max()), float(np.abs(got - ref.T).max())) / scale if got.shape == ref.shape else np.inf
            if not err <= _CTAU_TOL:
                mon._fail(
                    "OPA._Ctau",
                    f"lagged covariance at tau={tau} differs from X[:n-tau]^T X[tau:]/(n-tau-1) (and from its transpose): rel err {err:.2e}",
                    {"symptom": "lagged_covariance", "lag0": bool(tau == 0)},
                    err=err,
                )
        except Exception as e:  # the monitor must never break the observed call
            mon._count("monitor_error:OPA._Ctau")
            mon.event("monitor_error", where="OPA._Ctau", err=repr(e))
        return True

    O.OPA._Ctau = icontract.ensure(ctau_post, error=mon.PostBroken)(O.OPA._Ctau)
    mon._installed.add("c19_ctau")


def required(tier):
    return {
        "mon": ["post:OPA._Ctau", "post:Decomposer.fit", "backend:svd", "deferred_fits_computed"],
        "cover": [f"kind:{k}" for k in KINDS]
        + [f"solver:{s}" for s in SOLVERS]
        + ["tau_max:1", "tau_max:n/3", "npca:2", "npca:rank", "nmodes:1", "nmodes:npca", "center:False", "standardize:True", "coslat:True", "weights:True", "spectrum:has_negative", "sample_dims:1", "sample_dims:2", "history:aged", "history:fresh"],
    }


# --------------------------------------------------------------------------
def _draw(rng, kind=None, tsel=None, qsel=None, msel=None):
    kind = kind or str(rng.choice(KINDS, p=[0.25, 0.4, 0.2, 0.15]))
    n = int(rng.integers(9, 61))
    if rng.random() < 0.3:
        n = int(rng.integers(9, 19))  # short series: sampling noise makes negative lag sums likely
    p = int(rng.integers(2, 21))
    c = dict(kind=kind, n=n, p=p)
    if kind == "ar1_lowrank":
        c["p"] = p = max(p, 4)
        c["d"] = int(rng.integers(2, p))
        c["eta"] = float(rng.uniform(0.05, 0.3))
    rank = min(n - 1, p)
    tmax_hi = max(1, n // 3)
    tsel = tsel or str(rng.choice(["1", "rand", "n/3"], p=[0.15, 0.65, 0.2]))
    c["tau_max"] = {"1": 1, "n/3": tmax_hi}.get(tsel, int(rng.integers(1, tmax_hi + 1)))
    qsel = qsel or str(rng.choice(["2", "rand", "rank"], p=[0.15, 0.55, 0.3]))
    c["n_pca"] = {"2": 2, "rank": rank}.get(qsel, int(rng.integers(2, rank + 1)))
    msel = msel or str(rng.choice(["1", "rand", "npca"], p=[0.2, 0.4, 0.4]))
    c["n_modes"] = {"1": 1, "npca": c["n_pca"]}.get(msel, int(rng.integers(1, c["n_pca"] + 1)))
    c.update(
        center=bool(rng.random() < 0.8),
        standardize=bool(rng.random() < 0.25),
        coslat=bool(rng.random() < 0.25),
        weights=bool(rng.random() < 0.3),
        nfd=int(rng.integers(1, 3)),
        scale_exp=int(rng.integers(-3, 4)),
        solver=str(rng.choice(SOLVERS, p=[0.7, 0.15, 0.15])),
        dseed=int(rng.integers(0, 2**31 - 1)),
        random_state=int(rng.integers(0, 1000)),
    )
    return c


def cases(tier, seed):
    out = []
    i = 0
    for kind in KINDS:
        for tsel in ("1", "rand", "n/3"):
            for qsel in ("2", "rand", "rank"):
                for msel in ("1", "rand", "npca"):
                    out.append(_draw(gen.rng_for(1019, i), kind, tsel, qsel, msel))
                    i += 1
    for j in range(8):
        c = _draw(gen.rng_for(1919, j), "white", "rand", "rank", "npca")
        c.update(kind="tiny_pc", n=int(60 + 10 * j), p=int(3 + j % 4), center=True, standardize=False, coslat=False, weights=False, solver="full", scale_exp=0)
        c["n_pca"] = c["n_modes"] = c["p"]
        c["tau_max"] = 5
        out.append(c)
    nrand = 1000 if tier == "quick" else 16000
    for j in range(nrand):
        out.append(_draw(gen.rng_for(seed, 19, j)))
    return out


# --------------------------------------------------------------------------
def build(case):
    import xarray as xr

    rng = gen.rng_for(case["dseed"], 19)
    n, p, kind = case["n"], case["p"], case["kind"]
    phis = None
    if kind == "white":
        M = rng.standard_normal((n, p)) * rng.uniform(0.5, 1.5, size=p)
    elif kind == "tiny_pc":
        phis = np.concatenate([[0.97], np.linspace(0.6, 0.0, p - 1)])
        Z = gen.ar1(n, p, phis, rng, mix=False)
        Z = Z / Z.std(axis=0)
        amp = np.concatenate([[3e-7], rng.uniform(0.5, 1.0, size=p - 1)])
        M = (Z * amp) @ gen.orthonormal(p, p, rng).T
    elif kind in ("ar1", "antipersistent"):
        # latent AR(1) sources with a known persistence ordering, mixed by a well-conditioned map
        phis = np.sort(rng.uniform(-0.9, 0.3, size=p))[::-1] if kind == "antipersistent" else np.linspace(0.95, 0.0, p) * rng.uniform(0.8, 1.0)
        Z = gen.ar1(n, p, phis, rng, mix=False)
        Z = Z / Z.std(axis=0)
        B = (gen.orthonormal(p, p, rng) * rng.uniform(0.4, 1.0, size=p)) @ gen.orthonormal(p, p, rng).T
        M = Z @ B
    else:
        d = case["d"]
        phis = np.linspace(0.95, 0.2, d)
        Z = gen.ar1(n, d, phis, rng, mix=False)
        Z = Z / Z.std(axis=0)
        B = (gen.orthonormal(d, d, rng) * rng.uniform(0.5, 1.0, size=d)) @ gen.orthonormal(p, d, rng).T
        M = Z @ B + case["eta"] * rng.standard_normal((n, p)) * rng.uniform(0.5, 1.0, size=p) / np.sqrt(p)
    M = (M + 2.0 * rng.standard_normal(p)) * 10.0 ** case["scale_exp"]
    if case["nfd"] == 2 and p > 1:
        pairs = gen.factor_pairs(p)
        fshape = pairs[int(rng.integers(0, len(pairs)))]
    else:
        fshape = (p,)
    use_lat = case["coslat"] or rng.random() < 0.3
    if len(fshape) == 2:
        fdims = ("lat", "lon") if use_lat else ("x", "y")
    else:
        fdims = ("lat",) if use_lat else ("x",)
    X = xu.make_da(M, fshape, fdims, sample_dim="time")
    sdims = ("time",)
    nm = next((k for k in (4, 3, 2, 5) if n % k == 0 and n // k >= 2), None)
    if case["dseed"] % 4 == 0 and nm:
        # the time axis split over two sample dimensions, t = year * nm + month, handed over with the axes in the
        # order (month, year, ...): `dim=("year", "month")` defines the time order, not the array layout
        ny = n // nm
        A = M.reshape((ny, nm) + tuple(fshape))
        X2 = xr.DataArray(A, dims=("year", "month") + tuple(fdims), coords=dict({"year": 1990 + np.arange(ny), "month": 1 + np.arange(nm)}, **{d: X.coords[d] for d in fdims}))
        X = X2.transpose("month", "year", *fdims)
        sdims = ("year", "month")
    w_cos = None
    if case["coslat"]:
        wl = oracle.coslat_weights(X.coords["lat"].values)
        w_cos = np.repeat(wl, fshape[1]) if len(fshape) == 2 else wl
    W = None
    w_user = None
    if case["weights"]:
        w_user = rng.uniform(0.4, 2.5, size=p)
        W = xr.DataArray(w_user.reshape(fshape), dims=fdims, coords={dd: X.coords[dd] for dd in fdims})
    return dict(M=M, X=X, fdims=fdims, fshape=fshape, w_cos=w_cos, w_user=w_user, W=W, phis=phis, sdims=sdims)


def lag_cov(F, tau):
    n = F.shape[0]
    return F[: n - tau].T @ F[tau:] / (n - tau - 1)


def lag_sum_matrix(F, tau_max):
    M = 0.5 * lag_cov(F, 0)
    for tau in range(1, tau_max + 1):
        M = M + (0.5 if tau == tau_max else 1.0) * lag_cov(F, tau)
    return 0.5 * (M + M.T)


def decorr_time(x, tau_max):
    """Trapezoidal sum of the lagged autocorrelation of ONE series."""
    x = np.asarray(x, dtype=float)
    n = x.size
    r = np.array([np.dot(x[: n - t], x[t:]) / (n - t - 1) for t in range(tau_max + 1)])
    return float((0.5 * r[0] + r[1:tau_max].sum() + 0.5 * r[tau_max]) / r[0])


def run_case(case, obs):
    import scipy.linalg as sla
    import xeofs as xe

    n, p, q, m, tau_max = case["n"], case["p"], case["n_pca"], case["n_modes"], case["tau_max"]
    rank = min(n - 1, p)
    obs.tag(cls="OPA", op="fit", solver=case["solver"])
    obs.cell(f"kind:{case['kind']}", f"solver:{case['solver']}")
    for f in ("center", "standardize", "coslat", "weights"):
        obs.cell(f"{f}:{case[f]}")
    if tau_max == 1:
        obs.cell("tau_max:1")
    if tau_max == max(1, n // 3):
        obs.cell("tau_max:n/3")
    obs.cell("npca:2" if q == 2 else ("npca:rank" if q == rank else "npca:mid"))
    obs.cell("nmodes:1" if m == 1 else ("nmodes:npca" if m == q else "nmodes:mid"))
    b = build(case)
    Mp = oracle.preprocess(b["M"], case["center"], case["standardize"], b["w_cos"], b["w_user"])

    sdims = tuple(b["sdims"])
    dim = sdims if len(sdims) > 1 else sdims[0]
    obs.cell(f"sample_dims:{len(sdims)}")
    # deferred histories: fit(compute=False) ... compute() on in-memory data, and (exact solver only) on dask-backed
    # data chunked along time -- the answers must be those of the ordinary fit
    deferred = "numpy" if case["dseed"] % 5 == 1 else ("dask" if (case["dseed"] % 5 == 2 and case["solver"] == "full" and len(b["sdims"]) == 1) else None)
    dkw = {"compute": False, "check_nans": False} if deferred else {}
    obs.cell("deferred:" + str(deferred))
    obs.tag(deferred=str(deferred))
    model = xe.single.OPA(
        n_modes=m,
        tau_max=tau_max,
        n_pca_modes=q,
        center=case["center"],
        standardize=case["standardize"],
        use_coslat=case["coslat"],
        solver=case["solver"],
        random_state=case["random_state"],
        **dkw,
    )
    aged = case["dseed"] % 3 == 0 and not deferred
    obs.cell("history:" + ("aged" if aged else "fresh"))
    obs.tag(history="aged" if aged else "fresh")
    with warnings.catch_warnings():
        warnings.simplefilter("ignore")
        if aged:
            # hostile history: the same object was fitted on other data and every accessor was used before
            try:
                oth = b["X"].roll({b["X"].dims[0]: 1}, roll_coords=False) * 1.3 + 0.2 * b["X"] * b["X"]
                model.fit(oth, dim=dim, weights=b["W"])
                model.components(), model.filter_patterns(), model.scores(), model.decorrelation_time()
                obs.count("history:prior_fit")
            except Exception:  # noqa: BLE001
                obs.count("history:prior_fit_raised")
                model = xe.single.OPA(n_modes=m, tau_max=tau_max, n_pca_modes=q, center=case["center"], standardize=case["standardize"],
                                      use_coslat=case["coslat"], solver=case["solver"], random_state=case["random_state"])
        mon.reset()
        if deferred == "dask":
            try:
                model.fit(b["X"].chunk({b["sdims"][0]: max(2, b["X"].sizes[b["sdims"][0]] // 2)}), dim=dim, weights=b["W"])
            except NotImplementedError as e:
                if "chunked in one dimension" in str(e) or "tall-and-skinny" in str(e):
                    obs.refuse("dask's own svd refuses this chunk layout")
                raise
        else:
            model.fit(b["X"], dim=dim, weights=b["W"])
        if deferred:
            model.compute()
            obs.count("deferred_fits_computed")
    # hook failures are classified below, once the oracle knows the spectrum
    events = mon.drain(obs)
    dec = [e for e in events if e.get("kind") == "backend" and e.get("where") == "Decomposer"]
    backend = dec[0]["backend"] if dec else None
    obs.tag(backend=str(backend))
    if backend:
        obs.cell("backend:" + backend)
    obs.nontrivial = bool(q >= 2 and tau_max >= 1)

    # ---- public results by label --------------------------------------------------
    coords = xu.labels(b["X"], sdims + tuple(b["fdims"]))
    comps = model.components()
    filt = model.filter_patterns()
    scores = model.scores()
    dt_da = model.decorrelation_time()
    modes = scores.mode.values
    obs.check("components_dims", set(comps.dims) == set(b["fdims"]) | {"mode"}, f"dims {comps.dims}")
    obs.check("filter_dims", set(filt.dims) == set(b["fdims"]) | {"mode"}, f"dims {filt.dims}")
    obs.check("scores_dims", set(scores.dims) == set(sdims) | {"mode"}, f"dims {scores.dims}")
    Wc = np.asarray(xu.feature_matrix(comps.sel(mode=modes), b["fdims"], coords), dtype=float)
    Fc = np.asarray(xu.feature_matrix(filt.sel(mode=modes), b["fdims"], coords), dtype=float)
    S = np.asarray(xu.sample_matrix(scores.sel(mode=modes), list(sdims), coords), dtype=float)
    dt = np.asarray(dt_da.sel(mode=modes).values, dtype=float)
    ok = obs.check(
        "n_modes_returned",
        S.shape == (n, m) and Wc.shape == (p, m) and Fc.shape == (p, m) and dt.shape == (m,),
        f"asked {m}: scores {S.shape} comps {Wc.shape} filters {Fc.shape} times {dt.shape}",
        tags={"symptom": "mode_count"},
    )
    fin = obs.check("finite_results", np.isfinite(S).all() and np.isfinite(Wc).all() and np.isfinite(Fc).all() and np.isfinite(dt).all(), "non-finite results")
    if not (ok and fin):
        return

    # ---- oracle: retained PC series -------------------------------------------------
    cands = [("centred", Mp - Mp.mean(axis=0))]
    if not case["center"]:
        cands.append(("uncentred", Mp))
    best = None
    for name, Mc in cands:
        U, sv, Vt = np.linalg.svd(Mc, full_matrices=False)
        Uq = U[:, :q]
        resid = float(np.linalg.norm(S - Uq @ (Uq.T @ S)) / max(np.linalg.norm(S), 1e-300))
        if best is None or resid < best[0]:
            best = (resid, name, Mc, U, sv, Vt)
    resid, cname, Mc, U, sv, Vt = best
    obs.cell("inner_pca:" + cname)
    nz = int((sv > 1e-12 * sv[0]).sum())
    if q > nz:
        obs.ambiguous("n_pca_modes exceeds the numerical rank of the data")
    relgap = float((sv[q - 1] - sv[q]) / sv[0]) if q < len(sv) else 1.0
    ratio = float(sv[q] / sv[q - 1]) if q < len(sv) else 0.0
    if q < nz and relgap < 1e-6:
        obs.ambiguous("retained PCA subspace not unique (relative gap < 1e-6 at the truncation)")
    exact = backend == "svd" or (q + 10) >= min(n, p)
    if not exact and ratio > 0.05:
        obs.ambiguous("randomised PCA sketch does not capture the range and the spectrum has no gap at the truncation")
    tol = 1e-9 if exact and (relgap >= 1e-3 or q >= nz) else 1e-6
    obs.cell("tol:%g" % tol)
    Uq = U[:, :q]
    F = Uq * np.sqrt(n - 1)  # any basis of the subspace would do: T(w) is basis independent; unit-variance PCs keep
    # the oracle's generalised eigenproblem well conditioned whatever the amplitudes of the retained PCs are
    C0 = lag_cov(F, 0)
    C0 = 0.5 * (C0 + C0.T)
    Msym = lag_sum_matrix(F, tau_max)
    mu = sla.eigh(Msym, C0, eigvals_only=True)[::-1]  # descending generalised eigenvalues
    cond0 = float(np.linalg.cond(C0))
    obs.note("cond_C0", cond0)
    obs.note("spectrum", {"max": float(mu[0]), "min": float(mu[-1])})
    # conditioning of the problem as xeofs poses it (amplitude-weighted PCs): variance ratio of the retained PCs
    cond_amp = float((sv[0] / max(sv[q - 1], 1e-300)) ** 2)
    obs.note("cond_retained_pc_variances", cond_amp)
    tol = tol * max(1.0, cond0 / 1e6, cond_amp / 1e6)
    # what an |eigenvalue| ordering would select (mechanism of the known defect): is a negative lag sum among them?
    by_abs = np.argsort(-np.abs(mu))[:m]
    neg_selected = bool(np.any(mu[by_abs] < 0))
    has_neg = bool(np.any(mu < 0))
    if has_neg:
        obs.cell("spectrum:has_negative")
    if neg_selected:
        obs.cell("spectrum:negative_among_top_abs")
    scale_mu = float(max(np.abs(mu).max(), 1.0))

    # ---- uncorrelated, equal norm ----------------------------------------------------
    G = S.T @ S
    c = float(np.trace(G) / m)
    obs.note("gram_c_over_nm1", c / (n - 1))
    obs.close("scores_gram_cI", G, c * np.eye(m), max(tol, 1e-9), scale=c, tags={"symptom": "scores_not_uncorrelated"})
    if cname == "centred":
        obs.close("scores_zero_mean", S.mean(axis=0), np.zeros(m), max(tol, 1e-9), scale=np.sqrt(c / n), tags={"symptom": "scores_not_uncorrelated"})
    # "uncorrelated" is a statement about the Pearson correlation: the centred Gram matrix must be c'*I as well
    Sc = S - S.mean(axis=0)
    Gc = Sc.T @ Sc
    cc_ = float(np.trace(Gc) / m)
    obs.close("scores_pearson_uncorrelated_equal_norm", Gc, cc_ * np.eye(m), max(tol, 1e-9), scale=max(cc_, 1e-300), tags={"symptom": "scores_not_uncorrelated"})
    obs.close("scores_in_pc_subspace", resid, 0.0, max(tol, 1e-9), scale=1.0, tags={"symptom": "scores_outside_pc_subspace"})

    # ---- bi-orthogonality ---------------------------------------------------------------
    Bm = Fc.T @ Wc
    dg = np.diag(Bm)
    dmax = float(np.abs(dg).max())
    obs.close("biorthogonal_offdiag", Bm - np.diag(dg), np.zeros((m, m)), max(tol, 1e-9), scale=dmax, tags={"symptom": "not_biorthogonal"})
    obs.check("biorthogonal_diag_nonzero", bool(np.abs(dg).min() > 1e-6 * dmax), f"diag {dg}", tags={"symptom": "not_biorthogonal"})

    # ---- definitions: series = data . filter ; pattern = regression of the data on the series ------
    Mq = (U[:, :q] * sv[:q]) @ Vt[:q]
    proj = Mc @ Fc
    reg = Mq.T @ S
    for name, got, want, sym in (("series_is_data_dot_filter", S, proj, "filter_pattern_definition"), ("pattern_is_regression_on_series", Wc, reg, "opp_definition")):
        num = (got * want).sum(axis=0)
        den = (want * want).sum(axis=0)
        alpha = num / np.where(den > 0, den, 1.0)
        err = np.linalg.norm(got - want * alpha, axis=0) / np.maximum(np.linalg.norm(got, axis=0), 1e-300)
        obs.close(name, err, np.zeros(m), max(tol, 1e-9) * 10, scale=1.0, tags={"symptom": sym})
        if name == "series_is_data_dot_filter":
            # projecting the data on filter pattern i must give series i itself, with ONE common positive factor
            # (a per-mode sign flip of the filters only would leave bi-orthogonality of the off-diagonals intact)
            obs.check("filter_projection_factor_positive", bool(np.all(alpha > 0)), f"per-mode factors {alpha}", tags={"symptom": "filter_pattern_sign"})
            obs.close("filter_projection_factor_common", alpha / alpha[0], np.ones(m), max(tol, 1e-9) * 100, scale=1.0, tags={"symptom": "filter_pattern_definition"})

    # ---- reported decorrelation time == trapezoidal lag sum of the mode's OWN series ---------------
    T_own = np.array([decorr_time(S[:, i], tau_max) for i in range(m)])
    obs.note("T_own", T_own.tolist())
    obs.note("reported", dt.tolist())
    neg_own = T_own < 0
    if neg_own.any():
        obs.cell("own_sum:negative")
    pos = ~neg_own
    if pos.any():
        obs.close("decorrelation_time_is_own_lag_sum", dt[pos], T_own[pos], tol, scale=scale_mu, tags={"symptom": "decorrelation_time_ne_own_series", "negative_sum": False})
    if neg_own.any():
        # the statement's claim, kept strict; tagged by mechanism: the series' own lag sum is negative
        abs_match = bool(np.all(np.abs(dt[neg_own] + T_own[neg_own]) <= tol * scale_mu))
        obs.close(
            "decorrelation_time_is_own_lag_sum",
            dt[neg_own],
            T_own[neg_own],
            tol,
            scale=scale_mu,
            tags={"symptom": "decorrelation_time_sign_lost" if abs_match else "decorrelation_time_ne_own_series", "negative_sum": True, "abs_mechanism": abs_match},
        )

    # Is everything observed exactly what "eigenvalues replaced by their absolute values, ordered by them" predicts?
    # (mechanism tag of the known defect: symmetric eigenproblem solved by an SVD)
    abs_mech = bool(neg_selected and T_own.shape == mu[by_abs].shape and np.all(np.abs(T_own - mu[by_abs]) <= max(tol, 1e-9) * scale_mu))
    obs.note("abs_mechanism", abs_mech)

    # ---- order -------------------------------------------------------------------------------------
    obs.le("reported_descending", dt[1:], dt[:-1], slack=1e-12 * scale_mu, tags={"symptom": "reported_not_descending"})
    obs.le(
        "own_lag_sums_descending",
        T_own[1:],
        T_own[:-1],
        slack=max(tol, 1e-9) * scale_mu,
        tags={"symptom": "not_ordered_by_own_decorrelation_time", "negative_sum": bool(neg_own.any()), "abs_mechanism": abs_mech},
    )

    # ---- optimality ----------------------------------------------------------------------------------
    rng = gen.rng_for(case["dseed"], 191)
    Wr = rng.standard_normal((q, 200))
    Tw = np.einsum("ij,ij->j", Wr, Msym @ Wr) / np.einsum("ij,ij->j", Wr, C0 @ Wr)
    obs.le(
        "first_mode_beats_random_combinations",
        Tw,
        np.full(200, T_own[0]),
        slack=max(tol, 1e-9) * scale_mu,
        tags={"symptom": "first_mode_not_optimal", "negative_sum": bool(neg_own[0]), "abs_mechanism": abs_mech},
    )
    obs.close(
        "first_time_is_largest_generalised_eigenvalue",
        T_own[0],
        mu[0],
        tol,
        scale=scale_mu,
        tags={"symptom": "first_mode_not_optimal", "negative_sum": bool(neg_own[0]), "abs_mechanism": abs_mech},
    )
    obs.close(
        "times_are_leading_generalised_eigenvalues",
        T_own,
        mu[:m],
        tol,
        scale=scale_mu,
        tags={"symptom": "modes_not_leading_eigenpairs", "negative_sum": bool(neg_own.any()), "abs_mechanism": abs_mech},
    )
