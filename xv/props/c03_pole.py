"""C03 extra family 'pole': grids that contain latitude +-90 exactly (regular global grids do).

sqrt(cos(90 deg)) is 7.8e-9 in floating point, not 0: the weighting can be undone, but only if the
inverse divides by exactly the weights the forward path multiplied with.  Full-mode reconstruction is
compared ROW BY ROW (per latitude) with a tolerance scaled by that row's own amplification 1/w_row:
measured error at the pole rows ~1e-8 relative, tolerance 1e-6.
"""
import warnings

import numpy as np

from .. import gen, xu, zoo

CLASSES = ("EOF", "ComplexEOF", "HilbertEOF", "MCA", "CPCCA")


def cases(tier):
    out = []
    i = 0
    for cls in CLASSES:
        for order in ("ascending", "descending"):
            for name in ("lat", "latitude"):
                out.append(dict(kind="pole", fam="pole", cls=cls, order=order, latname=name, nlat=int(3 + (i % 4)), nlon=int(1 + (i % 3)), dseed=4100 + i, fields=[], n=0, nsd=1))
                i += 1
    return out


def run_case(case, obs):
    cls = case["cls"]
    obs.tag(cls=cls, fam="pole", op="inverse_transform(scores)", pole_grid=True)
    obs.cell("family:pole", f"cls:{cls}", f"latname:{case['latname']}")
    rng = gen.rng_for(case["dseed"], 34)
    nlat, nlon = case["nlat"], case["nlon"]
    lat = np.linspace(-90.0, 90.0, nlat)
    if case["order"] == "descending":
        lat = lat[::-1].copy()
    p = nlat * nlon
    n = 2 * p + 8
    cplx = cls == "ComplexEOF"
    M = gen.random_field(n, p, rng, cplx=cplx, scale=1.0)
    X = xu.make_da(M, (nlat, nlon), (case["latname"], "lon"), fcoords={case["latname"]: lat})
    cross = cls in ("MCA", "CPCCA")
    kw = dict(n_modes=p, use_coslat=True, solver="full")
    data = [X]
    if cross:
        q = p  # both fields must not exceed the number of modes for the full reconstruction
        Y = xu.make_da(gen.random_field(n, q, rng), (q,), ("x",))
        data = [X, Y]
        kw = dict(n_modes=p, use_coslat=[True, False], solver="full", use_pca=False)
        if cls == "CPCCA":
            kw["alpha"] = [1.0, 0.5]  # whitening only on the field without latitude weights
    with warnings.catch_warnings():
        warnings.simplefilter("ignore")
        f = zoo.fit(cls, data, "time", kw)
        rec = f.inverse_transform(*f.scores())[0]
    obs.nontrivial = True
    w = np.sqrt(np.clip(np.cos(np.deg2rad(lat)), 0, 1))
    R = rec.transpose("time", case["latname"], "lon").sel({case["latname"]: lat}).values
    Xv = X.transpose("time", case["latname"], "lon").values
    if cls == "HilbertEOF":
        R = np.real(R)
    scale = float(np.max(np.abs(Xv)))
    for j in range(nlat):
        amp = 1.0 / max(w[j], 1e-300)
        tol = min(1e-9 * amp * 100, 1e-6 if amp > 1e3 else 1e-9 * amp * 100)
        tol = max(tol, 1e-11)
        obs.close(
            "pole_grid_recon_row" if amp > 1e3 else "pole_grid_recon_other_rows",
            R[:, j, :],
            Xv[:, j, :],
            tol,
            scale=scale,
            tags={"symptom": "reconstruction_differs", "row": "pole" if amp > 1e3 else "regular"},
        )
