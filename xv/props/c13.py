"""C13 -- a model survives serialisation unchanged.

Relation between two executions, observed on every round trip:

    original model  M            (fitted by the real xeofs code on a generated workload)
    rebuilt  model  M' = type(M).deserialize(codec(placeholders?(M.serialize())))

for codec in {identity, netCDF attribute codec (_sanitize_attrs_nc -> _desanitize_attrs_nc),
JSON round trip of every node's / variable's attrs (numpy encoded as xarray's zarr backend
does)}, each with and without `insert_placeholders`.  M' must have equal `get_params()` and
return *identical* components / scores / transform(X_fit) / transform(X_new) /
inverse_transform(scores) / predict(X_new) (structure: type, names, dims, coordinate labels,
indexes, dtype kind; values <= 1e-12 relative).  Both models answer the same query sequence
from the same state, so the expected difference is exactly 0.

Only model behaviour and parameters are judged.  What a codec does to the *user's* attribute
values (e.g. the string "None" coming back as None) is recorded as coverage cells
`user_attr_changed:<codec>:<kind>`, never judged.

A codec that raises on a tree produced by `serialize()` of a fitted model is a violation
(stage="codec"); the offending attribute is located by an independent scan and named in the tags.
"""
import ast
import copy
import json
import re
import warnings
from collections.abc import Mapping

import numpy as np

from .. import gen, zoo
from ..boot import REPO
from ..obs import exception_site

LEVEL = "exploration"
RULE = (
    "structured corpus (every model class x all six codec/placeholder round trips; class representatives x "
    "input structure {DataArray 1/2 feature dims, two sample dims, MultiIndex feature / sample dim, Dataset, list, "
    "list with Dataset} x NaN mask; attribute-value catalogue x attribute location; per-class parameter variants "
    "incl. None/bool/list/tuple/dict/'all'/numpy scalars; lazy models serialised before / after compute(); "
    "histories with transform / inverse_transform / an earlier reload before serialisation; DataArray names) + "
    "seeded random draws over all of these.  A case is non-trivial when at least one rebuilt model answered at "
    "least one compared query; distinct = distinct canonical case record"
)
ASSUMPTIONS = [
    "no netCDF/zarr engine is installed: _sanitize_attrs_nc/_desanitize_attrs_nc and a JSON dumps/loads of all attrs ARE the codecs",
    "JSON encoder fallback mirrors xarray.backends.zarr.encode_zarr_attr_value plus zarr's number encoder (ndarray->tolist, np.generic->item); anything else that json.dumps refuses counts as not encodable (zarr itself is absent, so this rests on the property's wording 'a JSON round trip of all attributes')",
    "parameters are compared after normalising tuple->list and numpy scalar->python scalar (JSON has no tuple type); bool/int/float/str/None stay distinct",
    "a fit (or a pre-serialisation history call) that raises yields no fitted model: the case is 'refused', not judged here (other properties own those defects)",
    "queries whose call raises on the ORIGINAL model are not compared (recorded as cells orig_refused:<op>)",
]
EXHAUSTIVE = {"quick": False, "thorough": False}

TOL = 1e-12
CODECS = ("identity", "nc", "json")

SINGLE_ALL = tuple(zoo.SINGLE) + tuple(zoo.SINGLE_ROT)
CROSS_ALL = tuple(zoo.CROSS) + tuple(zoo.CROSS_ROT)
CLASSES = SINGLE_ALL + CROSS_ALL
REPS = (
    "EOF", "ComplexEOF", "HilbertEOF", "ExtendedEOF", "SparsePCA", "POP", "OPA", "EOFRotator",
    "HilbertEOFRotator", "MCA", "CPCCA", "HilbertCCA", "ComplexRDA", "MCARotator", "CPCCARotator",
)
CONTAINERS = ("da1", "da2", "da2s", "mi_feat", "mi_samp", "dataset", "list", "list_ds", "list12")
EXTRAS = ("none", "scalar", "1d", "2d")
WEIGHTS = ("none", "coord", "named", "unnamed")  # name of the user's weights array: that of its coordinate (cos(lat)), a name of its own, None
HAS_LAT = {"da2", "dataset"}
NANS = ("none", "feature", "sample")
LAZY = ("eager", "dask_eager", "lazy_pre", "lazy_post")
LAZY_PRE_QUICK = ("EOF", "HilbertEOF", "SparsePCA", "POP", "OPA", "EOFRotator", "MCA", "CPCCA", "MCARotator")
HISTS = ("none", "transform", "transform_new", "inverse", "reloaded")
WHERES = ("data", "coord", "sample_coord", "global", "all")
NAMES = ("default", "none", "empty", "unicode", "space", "dotted", "mean_", "feature", "mode", "scores")

USER_KEYS = ("units", "long_name", "history")


def attr_value(kind):
    """Attribute catalogue (built in the worker; a case only carries the kind)."""
    return {
        "plain": "K",
        "empty": "",
        "brackets": "[m/s]",
        "braces": "{x}",
        "brackets_syntax": "[m s-1]",
        "str_None": "None",
        "str_True": "True",
        "str_False": "False",
        "str_list": "[1, 2]",
        "str_dict": "{'a': 1}",
        "str_empty_list": "[]",
        "open_bracket": "[",
        "quote": "it's [ok]",
        "unicode": "°C – température ✓",
        "number_float": 2.5,
        "number_int": 7,
        "np_float32": np.float32(1.5),
        "np_int64": np.int64(3),
        "list_num": [1, 2.5],
        "list_str": ["a", "b"],
        "list_np": [np.float64(0.0), np.float64(1.0)],
        "ndarray": np.array([0.0, 1.0]),
        "bool": True,
        "none_value": None,
        "dict": {"a": 1, "b": "x"},
        "tuple": (1, 2),
    }[kind]


ATTR_KINDS = (
    "plain", "empty", "brackets", "braces", "brackets_syntax", "str_None", "str_True", "str_False", "str_list",
    "str_dict", "str_empty_list", "open_bracket", "quote", "unicode", "number_float", "number_int", "np_float32",
    "np_int64", "list_num", "list_str", "list_np", "ndarray", "bool", "none_value", "dict", "tuple",
)
ATTR_QUICK = (
    "empty", "brackets", "braces", "str_None", "str_True", "str_list", "unicode", "number_float", "np_float32",
    "list_num", "list_np", "ndarray", "bool", "none_value", "dict", "brackets_syntax",
)


# --------------------------------------------------------------------------
# parameter variants
# --------------------------------------------------------------------------
def base_of(name, case):
    k = zoo.kind(name)
    if k == "single_rot":
        return zoo.SINGLE_ROT[name]
    if k == "cross_rot":
        opts = zoo.CROSS_ROT[name]
        return opts[int(case.get("base_i", 0)) % len(opts)]
    return name


def pv_names(name):
    k = zoo.kind(name)
    if k == "single":
        out = ["default", "flags", "nocenter", "dimnames", "solver", "np_scalar", "coslat"]
        if name == "HilbertEOF":
            out += ["hilbert_nopad"]
        if name == "ExtendedEOF":
            out += ["eeof_pca"]
        if name == "POP":
            out += ["pop_nopca"]
        if name == "SparsePCA":
            out += ["spca_robust"]
        return out
    if k == "cross":
        out = ["default", "lists", "tuples", "nopca", "frac", "np_scalar", "coslat"]
        if name.startswith("Hilbert"):
            out += ["hilbert_nopad"]
        return out
    # rotators: variant of the rotator's own parameters (base uses defaults / lists)
    return ["default", "promax", "maxiter", "np_scalar", "base_lists" if k == "cross_rot" else "base_flags"]


def kwargs_for(name, case):
    """-> (base_name, base_kw, rot_kw or None).  n_modes=3 so that rotation can re-order modes."""
    k = zoo.kind(name)
    bn = base_of(name, case)
    pv = case.get("pv", "default")
    cplx_cls = bn.startswith(("Complex", "Hilbert"))
    kw = zoo.default_kwargs(bn, n_modes=3)
    rot = None
    if k in ("single_rot", "cross_rot"):
        rot = {"n_modes": 3, "power": 1}
        if pv == "promax":
            rot.update(power=2)
        elif pv == "maxiter":
            rot.update(max_iter=50, rtol=1e-6)
        elif pv == "np_scalar":
            rot.update(rtol=np.float64(1e-8), max_iter=np.int64(200))
        elif pv == "base_lists":
            kw.update(standardize=[True, False], use_pca=[True, False], n_pca_modes=[4, "all"])
        elif pv == "base_flags":
            kw.update(standardize=True, center=True)
        return bn, kw, rot
    bk = zoo.kind(bn)
    if pv == "flags":
        kw.update(standardize=True, check_nans=True, random_state=None)
    elif pv == "nocenter":
        kw.update(center=False)
    elif pv == "dimnames":
        kw.update(sample_name="s", feature_name="f")
    elif pv == "solver":
        if cplx_cls or bn in ("POP", "OPA", "SparsePCA"):
            kw.update(solver="full", random_state=3, solver_kwargs={})
        else:
            kw.update(solver="randomized", random_state=7, solver_kwargs={"n_oversamples": 6, "n_iter": 3})
    elif pv == "np_scalar":
        kw.update(random_state=np.int64(5))  # (n_modes=np.int64 is refused by xeofs's own validation)
        if bn.endswith("CPCCA"):
            kw.update(alpha=np.float64(0.5))
    elif pv == "coslat":
        kw.update(use_coslat=True)
    elif pv == "hilbert_nopad":
        kw.update(padding=None, decay_factor=0.5)
    elif pv == "eeof_pca":
        kw.update(n_pca_modes=4)
    elif pv == "pop_nopca":
        kw.update(use_pca=False)
    elif pv == "spca_robust":
        kw.update(robust=True)
    elif pv == "lists":
        kw.update(standardize=[True, False], use_pca=[True, False], n_pca_modes=[4, "all"], check_nans=[True, True],
                  pca_init_rank_reduction=[0.5, 0.9])
        if bn.endswith("CPCCA"):
            kw.update(alpha=[0.3, 1.0])
    elif pv == "tuples":
        kw.update(standardize=(True, False), n_pca_modes=("all", 4))
        if bn.endswith("CPCCA"):
            kw.update(alpha=(0.3, 1.0))
    elif pv == "nopca":
        kw.update(use_pca=False)
    elif pv == "frac":
        kw.update(n_pca_modes=0.95, pca_init_rank_reduction=0.9)
    if bk == "cross" and pv not in ("lists", "tuples", "frac"):
        pass
    return bn, kw, rot


# --------------------------------------------------------------------------
# cases
# --------------------------------------------------------------------------
def _case(cls, container="da2", nan="none", attr="plain", where="data", pv="default", lazy="eager", hist="none",
          name="default", cplx=False, dseed=0, base_i=0, extra="none", weights="none"):
    if container not in HAS_LAT and pv == "coslat":
        pv = "default"
    if where == "global" and container not in ("dataset", "list_ds"):
        where = "data"
    if cplx and cls not in zoo.COMPLEX_INPUT_OK:
        cplx = False
    if container == "list12":
        lazy = "eager"  # 12 (x2) lazily chained items through six round trips exceed the per-case budget; the codec is the same
    return dict(cls=cls, container=container, nan=nan, attr=attr, where=where, pv=pv, lazy=lazy, hist=hist,
                name=name, cplx=bool(cplx), dseed=int(dseed), base_i=int(base_i), extra=extra,
                weights=weights if container in ("da1", "da2", "da2s", "dataset", "list", "list_ds") else "none")


def _draw(rng):
    w = np.array([2.0] * len(SINGLE_ALL) + [1.0] * len(CROSS_ALL))  # a cross-set case costs twice a single-set one
    cls = str(rng.choice(CLASSES, p=w / w.sum()))
    pvs = pv_names(cls)
    return _case(
        cls,
        container=str(rng.choice(CONTAINERS)),
        nan=str(rng.choice(NANS, p=[0.5, 0.3, 0.2])),
        attr=str(rng.choice(("none",) + ATTR_KINDS)),
        where=str(rng.choice(WHERES)),
        pv=str(rng.choice(pvs)),
        lazy=str(rng.choice(LAZY, p=[0.7, 0.09, 0.06, 0.15])),
        hist=str(rng.choice(HISTS, p=[0.4, 0.15, 0.2, 0.1, 0.15])),
        name=str(rng.choice(NAMES, p=[0.55] + [0.05] * 9)),
        cplx=bool(rng.random() < 0.5),
        dseed=int(rng.integers(0, 2**31 - 1)),
        base_i=int(rng.integers(0, 4)),
        extra=str(rng.choice(EXTRAS, p=[0.64, 0.12, 0.12, 0.12])),
        weights=str(rng.choice(WEIGHTS, p=[0.55, 0.2, 0.15, 0.1])),
    )


def cases(tier, seed):
    out = []
    quick = tier == "quick"
    # A. every class, plain attrs, all six round trips
    for i, cls in enumerate(CLASSES):
        out.append(_case(cls, "da2", dseed=100 + i, cplx=True, base_i=i))
    # B. representatives x container x NaN mask
    for i, cls in enumerate(REPS):
        for j, cont in enumerate(CONTAINERS):
            if quick and (i + j) % 4 and cls not in ("EOF", "MCA"):
                continue
            out.append(_case(cls, cont, nan=NANS[(i + j) % 3], attr="plain", where="all", dseed=200 + 10 * i + j, base_i=j))
    # C. attribute catalogue x location, all six round trips
    kinds = ATTR_QUICK if quick else ATTR_KINDS
    for i, kind in enumerate(kinds):
        for j, where in enumerate(WHERES):
            if quick and where == "all":
                continue
            cont = "dataset" if where == "global" else ("da2" if (i + j) % 2 == 0 else "list_ds")
            if quick:
                cls = "MCA" if (i + j) % 8 == 3 else "EOF"
            else:
                cls = ("EOF", "MCA", "EOFRotator", "ComplexEOF", "CPCCA")[(i + j) % 5]
            out.append(_case(cls, cont, attr=kind, where=where, dseed=300 + i))
    out.append(_case("EOF", "da2", attr="none", dseed=399))
    out.append(_case("MCA", "dataset", attr="none", dseed=398))
    # D. parameter variants
    for i, cls in enumerate(CLASSES):
        for j, pv in enumerate(pv_names(cls)):
            if pv == "default":
                continue
            if quick and (cls not in REPS or ((i + j) % 2 and pv not in ("np_scalar", "tuples", "lists"))):
                continue
            out.append(_case(cls, "da2", pv=pv, dseed=400 + i, base_i=j))
    # E. lazy models
    for i, cls in enumerate(CLASSES):
        for lz in ("lazy_pre", "lazy_post") + (() if quick else ("dask_eager",)):
            if quick and lz == "lazy_pre" and cls not in LAZY_PRE_QUICK:
                continue
            if quick and lz == "lazy_post" and cls not in REPS:
                continue
            out.append(_case(cls, ("da2", "dataset", "list")[i % 3], lazy=lz, dseed=500 + i, base_i=i))
    # F. histories
    for i, cls in enumerate(REPS if quick else CLASSES):
        for j, h in enumerate(HISTS[1:]):
            if quick and (i + j) % 2:
                continue
            out.append(_case(cls, ("da2", "mi_feat", "mi_samp", "dataset")[(i + j) % 4], hist=h, dseed=600 + i, base_i=i))
    # G. names
    for i, nm in enumerate(NAMES[1:]):
        out.append(_case("EOF", "da2", name=nm, dseed=700 + i))
        out.append(_case("EOF", "dataset", name=nm, dseed=740 + i))
        out.append(_case("MCA", "dataset" if i % 2 else "list", name=nm, dseed=720 + i))
    # H. non-index coordinates next to the dimension coordinates (a scalar left behind by .sel(), a region name
    #    along a feature dim and a phase along the sample dim, a 2-D mask over two feature dims)
    for i, cls in enumerate(("EOF", "MCA", "EOFRotator") if quick else REPS):
        for j, cont in enumerate(("da2", "da2s", "mi_feat", "mi_samp", "dataset", "list")):
            for k, ex in enumerate(EXTRAS[1:]):
                if quick and (i + j + k) % 3:
                    continue
                out.append(_case(cls, cont, extra=ex, dseed=800 + 10 * i + j, base_i=j))
    # J. user weights (the usual cos(lat) array is NAMED like its coordinate)
    for i, cls in enumerate(("EOF", "MCA", "EOFRotator", "HilbertEOF") if quick else REPS):
        for j, cont in enumerate(("da2", "dataset", "list", "da1")):
            for k, wn in enumerate(WEIGHTS[1:]):
                if quick and (i + j + k) % 2 and wn != "coord":
                    continue
                out.append(_case(cls, cont, weights=wn, dseed=950 + 10 * i + j, base_i=j, hist=("none", "transform_new")[(i + j + k) % 2]))
    # I. lists of more than ten items (the per-item transformers are stored under the string keys '0', '1', ..)
    for i, cls in enumerate(("EOF", "MCA", "EOFRotator", "CCA")):
        out.append(_case(cls, "list12", hist=("transform_new", "none")[i % 2], dseed=900 + i, base_i=i))
    n_all = len(CLASSES)
    for i, c in enumerate(out):
        # quick: section A and the attribute catalogue placed on the data run all six round trips, the other
        # sections three of the six (alternating halves), lazy models two
        if not quick or i < n_all or (c["attr"] not in ("plain",) and c["where"] == "data"):
            c["combos"] = "all"
        elif c["lazy"] == "lazy_pre":
            c["combos"] = ("c", "d")[i % 2]
        else:
            c["combos"] = ("a", "b")[i % 2]
    nrand = 50 if quick else 2400
    for j in range(nrand):
        c = _draw(gen.rng_for(seed, 13, j))
        c["combos"] = (("c", "d") if c["lazy"] == "lazy_pre" else ("a", "b"))[j % 2] if quick else "all"
        out.append(c)
    return out


def required(tier):
    cover = [f"cls:{c}" for c in CLASSES] + [f"container:{c}" for c in CONTAINERS]
    cover += [f"lazy:{z}" for z in ("eager", "lazy_pre", "lazy_post")] + [f"hist:{h}" for h in HISTS]
    cover += [f"nan:{z}" for z in NANS] + ["rot_reordered:True", "rebuilt_lazy:True"] + [f"extra:{e}" for e in EXTRAS] + [f"weights:{w}" for w in WEIGHTS]
    cover += [f"attr:{k}" for k in ATTR_QUICK]
    cover += [f"op:{o}" for o in ("components", "scores", "transform_fit", "transform_new", "inverse_transform", "predict")]
    return {
        "mon": ["codec:identity", "codec:nc", "codec:json", "rebuilt", "placeholders_inserted", "hook:_should_desanitize",
                "hook:literal_eval"],
        "cover": cover,
        "max_refused_share": 0.35,
    }


# --------------------------------------------------------------------------
# monitors on the codec's inner functions (counting wrappers; never raise themselves)
# --------------------------------------------------------------------------
HOOK = {"_should_desanitize": 0, "literal_eval": 0}


def setup(tier):
    import xeofs.utils.io as xio

    if getattr(xio, "_xv_c13", False):
        return
    orig_sd = xio._should_desanitize
    orig_le = xio.literal_eval

    def _should_desanitize(attr):
        HOOK["_should_desanitize"] += 1
        return orig_sd(attr)

    def literal_eval(s):
        HOOK["literal_eval"] += 1
        return orig_le(s)

    import dask

    dask.config.set(scheduler="synchronous")  # 16 single-threaded workers; tiny graphs
    xio._should_desanitize = _should_desanitize  # consumer: _desanitize_attrs_nc looks the global up at call time
    xio.literal_eval = literal_eval
    xio._xv_c13 = True


# --------------------------------------------------------------------------
# workload
# --------------------------------------------------------------------------
def _arr(rng, shape, cplx):
    a = rng.standard_normal(shape) * (0.5 + rng.random(shape[-1]))
    if cplx:
        a = a + 1j * rng.standard_normal(shape)
    return a + 1.5


def _leaf(kind, n, rng, cplx, s0, fi, nan, new, dates=True):
    """One DataArray/Dataset leaf.  n = number of samples; s0 = first sample label."""
    import pandas as pd
    import xarray as xr

    def mask(a, sample_axes):
        # a: samples first (one or two axes), features after
        if nan == "feature":
            idx = (slice(None),) * sample_axes + (0,) * (a.ndim - sample_axes - 1) + (1,)
            a[idx] = np.nan
        if nan == "sample" and not new:
            idx = (2,) + ((1,) if sample_axes == 2 else ())
            a[idx] = np.nan
        return a

    nm = f"v{fi}"
    if kind == "da1":
        a = mask(_arr(rng, (n, 5 + fi), cplx), 1)
        return xr.DataArray(a, dims=("time", "x"), coords={"time": np.arange(s0, s0 + n), "x": np.arange(5 + fi) * 10 + 5}, name=nm)
    if kind == "da2":
        a = mask(_arr(rng, (n, 3, 2 + fi), cplx), 1)
        t = pd.date_range("2001-01-01", periods=s0 + n, freq="D")[s0:] if dates else np.arange(s0, s0 + n)
        return xr.DataArray(a, dims=("time", "lat", "lon"),
                            coords={"time": t, "lat": [-30.0, 10.0, 55.0], "lon": np.arange(2 + fi) * 20.0}, name=nm)
    if kind == "da2s":
        nt = n // 2
        a = mask(_arr(rng, (nt, 2, 4 + fi), cplx), 2)
        return xr.DataArray(a, dims=("time", "member", "x"),
                            coords={"time": np.arange(s0, s0 + nt), "member": ["m1", "m2"], "x": np.arange(4 + fi) * 1.5}, name=nm)
    if kind == "mi_feat":
        a = mask(_arr(rng, (n, 6), cplx), 1)
        mi = pd.MultiIndex.from_arrays([[10, 10, 20, 20, 30, 30], [1, 2, 1, 2, 1, 2]], names=("lat", "lon"))
        da = xr.DataArray(a, dims=("time", "station"), coords={"time": np.arange(s0, s0 + n)}, name=nm)
        return da.assign_coords(xr.Coordinates.from_pandas_multiindex(mi, "station"))
    if kind == "mi_samp":
        ny = n // 3
        a = mask(_arr(rng, (ny * 3, 5), cplx), 1)
        mi = pd.MultiIndex.from_product([np.arange(2000 + s0, 2000 + s0 + ny), [1, 2, 3]], names=("year", "month"))
        da = xr.DataArray(a, dims=("obs", "x"), coords={"x": np.arange(5) * 2.0}, name=nm)
        return da.assign_coords(xr.Coordinates.from_pandas_multiindex(mi, "obs"))
    if kind == "dataset":
        a = mask(_arr(rng, (n, 3, 2), cplx), 1)
        b = mask(_arr(rng, (n, 3, 2), cplx), 1)
        coords = {"time": np.arange(s0, s0 + n), "lat": [-30.0, 10.0, 55.0], "lon": [0.0, 20.0]}
        return xr.Dataset({f"a{fi}": (("time", "lat", "lon"), a), f"b{fi}": (("time", "lat", "lon"), b)}, coords=coords)
    raise KeyError(kind)


def _sample_dims(container):
    return {"da2s": ("time", "member"), "mi_samp": ("obs",)}.get(container, ("time",))


def _field(container, n, rng, cplx, s0, fi, nan, new):
    if container == "list":
        return [_leaf("da2", n, rng, cplx, s0, fi, nan, new, dates=False), _leaf("da1", n, rng, cplx, s0, fi + 1, nan, new)]
    if container == "list12":
        out = []
        for k in range(12):
            a = _arr(rng, (n, 2 + k % 3), cplx)
            if nan == "feature" and k == 11:
                a[:, 1] = np.nan
            if nan == "sample" and not new:
                a[2] = np.nan
            import xarray as xr

            out.append(xr.DataArray(a, dims=("time", f"x{k}"), coords={"time": np.arange(s0, s0 + n), f"x{k}": np.arange(2 + k % 3) * (k + 1.0)}, name=f"v{fi}_{k}"))
        return out
    if container == "list_ds":
        return [_leaf("dataset", n, rng, cplx, s0, fi, nan, new), _leaf("da1", n, rng, cplx, s0, fi + 1, nan, new)]
    return _leaf(container, n, rng, cplx, s0, fi, nan, new)


def _leaves(obj):
    return list(obj) if isinstance(obj, (list, tuple)) else [obj]


_CUR = {"weights": None}


def _weights(field, kind, sdims, rng):
    """labelled user weights along the first feature dimension of every leaf"""
    import xarray as xr

    if kind == "none":
        return None
    out = []
    for leaf in _leaves(field):
        d = [x for x in leaf.dims if x not in sdims][0]
        w = xr.DataArray(rng.uniform(0.5, 2.0, size=leaf.sizes[d]), dims=(d,), coords={d: leaf.coords[d].values})
        w.name = {"coord": d, "named": "wgt", "unnamed": None}[kind]
        if isinstance(leaf, xr.Dataset):
            w = xr.Dataset({v: w for v in leaf.data_vars})
        out.append(w)
    return out if isinstance(field, (list, tuple)) else out[0]


def _extras(field, kind, sdims):
    """non-index coordinates on every leaf (the data and the index coordinates stay as they are)"""
    if kind == "none":
        return field
    leaves = _leaves(field)
    out = []
    if kind == "2d" and len(leaves) > 1:
        kind = "1d"  # a coordinate present in only some list items makes fit raise (recorded finding of C02)
    for leaf in leaves:
        fd = [d for d in leaf.dims if d not in sdims]
        if kind == "scalar":
            leaf = leaf.assign_coords(height=2.0)
        elif kind == "1d" or len(fd) < 2:
            d = fd[0]
            leaf = leaf.assign_coords(region=(d, np.array([f"r{i % 2}" for i in range(leaf.sizes[d])])))
            leaf = leaf.assign_coords(phase=(sdims[0], np.arange(leaf.sizes[sdims[0]]) % 3))
        else:
            a, b = fd[0], fd[1]
            leaf = leaf.assign_coords(mask=((a, b), (np.add.outer(np.arange(leaf.sizes[a]), np.arange(leaf.sizes[b])) % 2).astype(float)))
        out.append(leaf)
    return out if isinstance(field, (list, tuple)) else out[0]


def _decorate(field, case, sdims):
    """user metadata: attribute values and names"""
    import xarray as xr

    kind, where, nm = case["attr"], case["where"], case["name"]
    for li, leaf in enumerate(_leaves(field)):
        das = [leaf[v] for v in leaf.data_vars] if isinstance(leaf, xr.Dataset) else [leaf]
        if kind != "none":
            val = attr_value(kind)
            if where in ("data", "all"):
                for da in das:
                    da.attrs.update({"units": copy.deepcopy(val), "long_name": "a field"})
            if where in ("coord", "all"):
                for d in list(leaf.coords):
                    if d not in sdims:
                        leaf.coords[d].attrs.update({"units": copy.deepcopy(val)})
            if where in ("sample_coord", "all"):
                for d in list(leaf.coords):
                    if d in sdims:
                        leaf.coords[d].attrs.update({"units": copy.deepcopy(val)})
            if where in ("global", "all") and isinstance(leaf, xr.Dataset):
                leaf.attrs.update({"units": copy.deepcopy(val), "history": "created by the harness"})
        if nm != "default":
            new = {"none": None, "empty": "", "unicode": "température", "space": "sea surface", "dotted": "a.b",
                   "mean_": "mean_", "feature": "feature", "mode": "mode", "scores": "scores"}[nm]
            if isinstance(leaf, xr.Dataset):
                if new is not None and new != "":
                    # rename the first variable (Dataset variables need real names)
                    first = list(leaf.data_vars)[0]
                    ren = leaf.rename({first: new})
                    if isinstance(field, list):
                        field[li] = ren
                    else:
                        field = ren
            else:
                leaf.name = new
    return field


def build(case):
    name = case["cls"]
    k = zoo.kind(name)
    nf = 1 if k in ("single", "single_rot") else 2
    cont = case["container"]
    sdims = _sample_dims(cont)
    n, n_new = 18, 6
    fields, new_fields, wts = [], [], []
    for fi in range(nf):
        rng = gen.rng_for(case["dseed"], 13, fi)
        f = _field(cont, n, rng, case["cplx"], 0, 3 * fi, case["nan"], False)
        g = _field(cont, n_new, rng, case["cplx"], 40, 3 * fi, case["nan"], True)
        fields.append(_extras(_decorate(f, case, sdims), case.get("extra", "none"), sdims))
        new_fields.append(_extras(_decorate(g, case, sdims), case.get("extra", "none"), sdims))
        wts.append(_weights(fields[-1], case.get("weights", "none"), sdims, gen.rng_for(case["dseed"], 131, fi)))
    if case["lazy"] != "eager":
        def ch(o):
            if isinstance(o, list):
                return [ch(x) for x in o]
            d0 = sdims[0]
            return o.chunk({d0: max(2, o.sizes[d0] // 2)})
        fields = [ch(f) for f in fields]
    dim = sdims if len(sdims) > 1 else sdims[0]
    _CUR["weights"] = wts if case.get("weights", "none") != "none" else None  # (not into the case record: not JSON)
    return fields, new_fields, dim


# --------------------------------------------------------------------------
# codecs
# --------------------------------------------------------------------------
def _role(path):
    return re.sub(r"/\d+(?=/|$)", "/#", path)


def _iter_attr_dicts(dt):
    """(node path, level, variable name or None, attrs dict) for every node and every variable"""
    for node in dt.subtree:
        yield node.path, "node", None, node.attrs
        for v in node.variables:
            yield node.path, "variable", str(v), node[v].attrs


def _value_class(v):
    if isinstance(v, str):
        if v == "":
            return "empty_string"
        for o, c, nm in (("[", "]", "bracketed"), ("{", "}", "braced")):
            if v[0] == o and v[-1] == c:
                try:
                    ast.literal_eval(v)
                    return nm + "_literal"
                except Exception:
                    return nm + "_nonliteral"
        if v in ("True", "False", "None"):
            return "keyword_string"
        return "string"
    return type(v).__name__


def _snapshot_user_attrs(dt):
    out = []
    for path, level, var, attrs in _iter_attr_dicts(dt):
        for k in USER_KEYS:
            if k in attrs:
                out.append((path, var, k, type(attrs[k]).__name__ + ":" + repr(attrs[k])))
    return out


def _nc_offender(dt):
    """Independent scan of a (partially decoded) sanitised tree: first attribute the decoder cannot digest."""
    for path, level, var, attrs in _iter_attr_dicts(dt):
        for k, v in attrs.items():
            if not isinstance(v, str):
                continue
            vc = _value_class(v)
            if vc in ("empty_string", "bracketed_nonliteral", "braced_nonliteral"):
                return dict(path=path, level=level, var=var, key=str(k), value=v[:120], value_class=vc)
    return None


class _JsonProblem:
    def __init__(self):
        self.items = []


def _json_roundtrip_attrs(attrs, where, problems):
    def enc_top(v):  # xarray.backends.zarr.encode_zarr_attr_value
        if isinstance(v, np.ndarray):
            return v.tolist()
        if isinstance(v, np.generic):
            return v.item()
        return v

    new = {}
    for k, v in list(attrs.items()):
        def default(o, _k=k):
            if isinstance(o, np.generic):  # zarr's number encoder
                return o.item()
            if isinstance(o, np.ndarray):
                return o.tolist()
            problems.items.append(dict(where=where, key=str(_k), value_type=type(o).__name__, coerced=isinstance(o, Mapping)))
            if isinstance(o, Mapping):
                return dict(o)  # recorded as a violation by the caller; continue so the rest stays observable
            raise TypeError(f"Object of type {type(o).__name__} is not JSON serializable")

        s = json.dumps(enc_top(v), default=default)
        new[json.loads(json.dumps(k)) if not isinstance(k, str) else k] = json.loads(s)
    attrs.clear()
    attrs.update(new)


def codec_json(dt, problems):
    for path, level, var, attrs in list(_iter_attr_dicts(dt)):
        _json_roundtrip_attrs(attrs, (path, level, var), problems)
    return dt


def codec_nc(dt):
    from xeofs.utils import io as xio

    dt = xio._sanitize_attrs_nc(dt)
    return xio._desanitize_attrs_nc(dt)


# --------------------------------------------------------------------------
# comparison
# --------------------------------------------------------------------------
def _norm_param(v):
    if isinstance(v, np.generic):
        v = v.item()
    if isinstance(v, np.ndarray):
        v = v.tolist()
    if isinstance(v, (list, tuple)):
        return [_norm_param(x) for x in v]
    if isinstance(v, Mapping):
        return {str(k): _norm_param(x) for k, x in v.items()}
    if isinstance(v, (bool, int, float, str)) or v is None:
        return v
    return "<" + type(v).__name__ + ">" + repr(v)


def _canon_params(p):
    return json.dumps(_norm_param(p), sort_keys=True)


def _flatten(res, prefix=""):
    import xarray as xr

    if isinstance(res, (xr.DataArray, xr.Dataset)):
        return [(prefix or "0", res)]
    if isinstance(res, (list, tuple)):
        out = []
        for i, r in enumerate(res):
            out += _flatten(r, f"{prefix}.{i}" if prefix else str(i))
        return out
    return [(prefix or "0", res)]


def _structure_diff(got, want):
    """list of differences in everything but the numbers and the attrs"""
    import pandas as pd
    import xarray as xr

    d = []
    if type(got) is not type(want):
        return [f"type {type(got).__name__} != {type(want).__name__}"]
    if isinstance(want, xr.Dataset):
        if list(got.data_vars) != list(want.data_vars):
            d.append(f"data_vars {list(got.data_vars)} != {list(want.data_vars)}")
        if dict(got.sizes) != dict(want.sizes):
            d.append(f"sizes {dict(got.sizes)} != {dict(want.sizes)}")
    else:
        if got.name != want.name:
            d.append(f"name {got.name!r} != {want.name!r}")
        if got.dims != want.dims:
            d.append(f"dims {got.dims} != {want.dims}")
        if got.shape != want.shape:
            d.append(f"shape {got.shape} != {want.shape}")
        if got.dtype.kind != want.dtype.kind:
            d.append(f"dtype {got.dtype} != {want.dtype}")
    if set(got.coords) != set(want.coords):
        d.append(f"coords {sorted(map(str, got.coords))} != {sorted(map(str, want.coords))}")
    else:
        for c in want.coords:
            try:
                same = bool(got.coords[c].variable.equals(want.coords[c].variable))
            except Exception as e:  # noqa: BLE001
                same = False
                d.append(f"coord {c}: comparison raised {type(e).__name__}")
            if not same:
                d.append(f"coord {c!r} labels differ")
    gi, wi = got.indexes, want.indexes
    if set(gi) != set(wi):
        d.append(f"indexes {sorted(map(str, gi))} != {sorted(map(str, wi))}")
    else:
        for k in wi:
            if isinstance(wi[k], pd.MultiIndex) != isinstance(gi[k], pd.MultiIndex):
                d.append(f"index {k!r}: MultiIndex-ness differs")
            elif isinstance(wi[k], pd.MultiIndex) and list(wi[k].names) != list(gi[k].names):
                d.append(f"index {k!r}: level names {list(gi[k].names)} != {list(wi[k].names)}")
    return d


def _values(obj):
    import xarray as xr

    if isinstance(obj, xr.Dataset):
        return [(str(v), np.asarray(obj[v].values)) for v in obj.data_vars]
    return [("", np.asarray(obj.values))]


class Ctx:
    pass


def _queries(f, ctx, light=False):
    """Fixed query sequence; -> list of (op, ('ok', leaves) | ('exc', exception)).
    light=True (models whose results are still lazy: every query re-runs the whole dask graph): the
    training-data transform and predict are left to the after-compute phase."""
    import xarray as xr

    name = f.name
    ops = [("components", lambda: f.components()), ("scores", lambda: f.scores())]
    if name in zoo.HAS_TRANSFORM:
        if not light:
            ops.append(("transform_fit", lambda: f.transform(*ctx.fields)))
        ops.append(("transform_new", lambda: f.transform(*ctx.new_fields)))
    if name in zoo.HAS_INVERSE:
        ops.append(("inverse_transform", lambda: f.inverse_transform(*ctx.score_in)))
    if f.kind in ("cross", "cross_rot") and not light:
        ops.append(("predict", lambda: f.model.predict(ctx.new_fields[0])))
    out = []
    for op, fn in ops:
        try:
            with warnings.catch_warnings():
                warnings.simplefilter("ignore")
                res = fn()
                leaves = []
                for path, leaf in _flatten(res):
                    if isinstance(leaf, (xr.DataArray, xr.Dataset)):
                        leaf = leaf.compute()
                    leaves.append((path, leaf))
            out.append((op, ("ok", leaves)))
        except Exception as e:  # noqa: BLE001
            _through(e)
            out.append((op, ("exc", e)))
    return out


def _cfg_tags(case):
    t = {"cls": case["cls"], "container": case["container"]}
    for k, dflt in (("nan", "none"), ("lazy", "eager"), ("hist", "none"), ("pv", "default"), ("name", "default")):
        if case[k] != dflt:
            t[k] = case[k]
    if case["attr"] not in ("plain", "none"):
        t["attr_kind"] = case["attr"]
        t["attr_where"] = case["where"]
    if case["cplx"]:
        t["cplx"] = True
    return t


def _compare(obs, case, ref, got, tags, phase):
    n_cmp = 0
    for (op, r), (op2, g) in zip(ref, got):
        assert op == op2
        if r[0] == "exc":
            obs.cell(f"orig_refused:{op}")
            if g[0] != "exc":
                obs.cell(f"orig_refused_rebuilt_answers:{op}")
            continue
        t = dict(tags, op=op, phase=phase)
        if g[0] == "exc":
            e = g[1]
            obs.check(
                "rebuilt_query_raises", False, f"{op}: {type(e).__name__}: {e}",
                tags=dict(t, stage="query", symptom="exception", exc=type(e).__name__, site=str(exception_site(e, REPO))),
            )
            continue
        obs.cell(f"op:{op}")
        rl, gl = r[1], g[1]
        if [p for p, _ in rl] != [p for p, _ in gl]:
            obs.check("result_layout", False, f"{op}: result nesting {[p for p, _ in gl]} != {[p for p, _ in rl]}",
                      tags=dict(t, stage="query", symptom="structure_differs"))
            continue
        for (path, want), (_, have) in zip(rl, gl):
            diff = _structure_diff(have, want)
            obs.check("structure", not diff, f"{op}[{path}]: " + "; ".join(diff[:6]),
                      tags=dict(t, stage="query", symptom="structure_differs"))
            if diff and any(s.startswith(("type", "shape", "data_vars", "sizes")) for s in diff):
                continue
            for (vn, hv), (_, wv) in zip(_values(have), _values(want)):
                if hv.dtype == object or wv.dtype == object:
                    obs.check("values_object", bool(np.array_equal(hv, wv)), f"{op}[{path}]{vn}: object arrays differ",
                              tags=dict(t, stage="query", symptom="values_differ"))
                else:
                    fin = np.abs(wv[np.isfinite(wv)]) if wv.size else np.zeros(0)
                    scale = float(fin.max()) if fin.size else 1.0  # obs.close's default scale is NaN when want has NaNs
                    obs.close(f"values:{op}", hv, wv, TOL, scale=scale, tags=dict(t, stage="query", symptom="values_differ"))
                n_cmp += 1
    return n_cmp


def _clone(dt):
    import xarray as xr

    return xr.DataTree.from_dict({k: v.copy(deep=True) for k, v in dt.to_dict().items()}, name=dt.name)


def _combos(case):
    allc = [(c, ph) for c in CODECS for ph in (False, True)]
    sel = case.get("combos", "all")
    if sel == "all":
        return allc
    if sel == "a":
        return [("identity", False), ("nc", True), ("json", False)]
    if sel == "c":
        return [("identity", False), ("nc", True)]
    if sel == "d":
        return [("json", True), ("nc", False)]
    return [("identity", True), ("nc", False), ("json", True)]


def _fail_plain(obs, name, msg, tags, **detail):
    """violation without the case's base tags (the mechanism does not depend on them)"""
    saved = obs.base_tags
    obs.base_tags = {}
    try:
        obs.n_checks += 1
        obs.fail(name, msg, tags=tags, **detail)
    finally:
        obs.base_tags = saved


# --------------------------------------------------------------------------
def _fit(case, fields, dim):
    name = case["cls"]
    bn, kw, rot = kwargs_for(name, case)
    if case["lazy"] in ("lazy_pre", "lazy_post"):
        kw["compute"] = False
        if rot is not None:
            rot["compute"] = False
    if case["lazy"] in ("lazy_pre", "lazy_post") and rot is not None:
        rot["max_iter"] = 6  # compute=False unrolls max_iter rotation iterations into the dask graph (no convergence test)
    if case["lazy"] == "dask_eager" and rot is not None:
        # dask input with compute=True evaluates the graph in every iteration (max_iter=1000: > 15 min); a loose
        # tolerance converges in a few iterations instead of ending in xeofs's "did not converge" refusal
        rot.update(max_iter=40, rtol=0.3)
    if case["lazy"] != "eager" and bn == "SparsePCA":
        kw["max_iter"] = 3  # dask input: every iteration adds a dask SVD to the graph (500 of them take > 20 min to build)
    return zoo.fit(name, fields, dim, kw=kw, rot_kw=rot, base_name=bn if rot is not None else None, weights=_CUR["weights"])


def _through(e):
    """never swallow the runner's watchdog"""
    if type(e).__name__ == "_CaseTimeout" or isinstance(e, (MemoryError, KeyboardInterrupt)):
        raise e


def _in_serialisation(e):
    import traceback

    names = [fs.name for fs in traceback.extract_tb(e.__traceback__) if fs.filename.startswith(REPO + "/xeofs")]
    return any("serializ" in n for n in names)


def _exc_tags(e, **kw):
    return dict(kw, symptom="exception", exc=type(e).__name__, site=str(exception_site(e, REPO)))


def _round_trips(obs, case, f, ctx, cfg, combos, light):
    """serialize f.model once, run every (codec, placeholders) round trip in `combos`, compare every rebuilt model
    with f.  -> {(codec, ph): (Fitted rebuilt, tags)}"""
    from xeofs.utils import io as xio

    name = case["cls"]
    model = f.model
    params0 = copy.deepcopy(model.get_params())

    def fresh():
        with warnings.catch_warnings():
            warnings.simplefilter("ignore")
            return model.serialize()

    try:
        dt0 = fresh()
    except Exception as e:  # noqa: BLE001
        _through(e)
        obs.check("serialize_raises", False, f"{type(e).__name__}: {e}", tags=_exc_tags(e, **dict(cfg, stage="serialize", op="serialize")))
        return {}
    obs.count("serialize")
    # serialize() costs 0.2-0.5 s (DataTree assembly): the round trips work on deep clones of ONE serialisation
    # (each clone verified `identical` to the source, else a fresh serialize() is used), the last one on the tree
    # serialize() itself returned.  All trees exist before the first query is made.
    trees = {}
    for i, cb in enumerate(combos):
        if i == len(combos) - 1:
            trees[cb] = dt0
            continue
        try:
            cl = _clone(dt0)
            ok = bool(cl.identical(dt0))
        except Exception as e:  # noqa: BLE001
            _through(e)
            ok = False
        if not ok:
            obs.cell("clone_fallback_fresh_serialize")
            cl = fresh()
        trees[cb] = cl
    ref = _queries(f, ctx, light)

    rebuilt = {}
    for (codec, ph), dt in trees.items():
        tags = dict(cfg, codec=codec, placeholders=ph)
        # placeholders -----------------------------------------------------------------
        if ph:
            try:
                n_before = sum(1 for nd in dt.subtree if not nd.attrs.get("allow_compute", True))
                dt = xio.insert_placeholders(dt)
                n_ph = sum(1 for nd in dt.subtree if nd.attrs.get("placeholder", False))
                obs.count("placeholders_inserted", n_ph)
                obs.check("placeholders_cover_all_input_nodes", n_ph == n_before and n_before > 0,
                          f"{n_before} nodes with allow_compute=False, {n_ph} placeholders",
                          tags=dict(tags, stage="placeholders", symptom="placeholder_count"))
            except Exception as e:  # noqa: BLE001
                _through(e)
                obs.check("placeholders_raise", False, f"{type(e).__name__}: {e}", tags=_exc_tags(e, **dict(tags, stage="placeholders")))
                continue
        # codec ------------------------------------------------------------------------
        before = _snapshot_user_attrs(dt)
        obs.count(f"codec:{codec}")
        if codec == "nc":
            try:
                dt = codec_nc(dt)
            except Exception as e:  # noqa: BLE001
                _through(e)
                off = _nc_offender(dt) or {}
                origin = "user" if off.get("key") in USER_KEYS else "xeofs"
                t = _exc_tags(e, stage="codec", codec="nc", value_class=off.get("value_class", "unknown"),
                              attr_origin=origin, attr_level=off.get("level", "unknown"))
                if origin == "user":
                    t["attr_where"] = case["where"]
                else:
                    t.update(attr_key=off.get("key", "unknown"), node_role=_role(off.get("path", "?")), pv=case["pv"])
                _fail_plain(obs, "nc_codec_raises",
                            f"{type(e).__name__}: {e} on attr {off.get('key')!r}={off.get('value')!r} at {off.get('path')}"
                            f" var={off.get('var')} (placeholders={ph}, cls={name})", t)
                continue
        elif codec == "json":
            problems = _JsonProblem()
            try:
                dt = codec_json(dt, problems)
                fatal = None
            except (TypeError, ValueError) as e:
                fatal = e
            seen = set()
            for p in problems.items:
                path, level, var = p["where"]
                origin = "user" if p["key"] in USER_KEYS else "xeofs"
                key = (origin, p["key"], p["value_type"], _role(path))
                if key in seen:
                    continue
                seen.add(key)
                t = dict(stage="codec", codec="json", symptom="not_json_encodable", exc="TypeError", site="json.dumps",
                         value_type=p["value_type"], attr_origin=origin, attr_level=level)
                if origin == "user":
                    t["attr_where"] = case["where"]
                else:
                    t.update(attr_key=p["key"], node_role=_role(path), container=case["container"])
                    if case["name"] != "default":
                        t["name"] = case["name"]
                _fail_plain(obs, "json_codec_raises",
                            f"attr {p['key']!r} of type {p['value_type']} at {path} var={var} is not JSON-encodable "
                            f"(placeholders={ph}, cls={name}); coerced={p['coerced']}", t)
            if fatal is not None:
                if not problems.items:
                    _fail_plain(obs, "json_codec_raises", f"{type(fatal).__name__}: {fatal} (cls={name})",
                                dict(stage="codec", codec="json", symptom="not_json_encodable", exc=type(fatal).__name__,
                                     site="json.dumps", value_type="unknown", attr_origin="unknown", attr_level="unknown"))
                continue
            if problems.items:
                tags["json_coerced"] = True
        after = _snapshot_user_attrs(dt)
        if case["attr"] != "none":
            obs.cell(f"user_attr_changed:{codec}:{case['attr']}:{before != after}")
        if before != after:
            tags["user_attr_changed"] = True  # recorded, not judged; delimits mechanisms that hinge on it
        # rebuild ------------------------------------------------------------------------
        try:
            with warnings.catch_warnings():
                warnings.simplefilter("ignore")
                m2 = type(model).deserialize(dt)
        except Exception as e:  # noqa: BLE001
            _through(e)
            obs.check("deserialize_raises", False, f"{type(e).__name__}: {e}",
                      tags=_exc_tags(e, **dict(tags, stage="deserialize", op="deserialize")))
            continue
        obs.count("rebuilt")
        f2 = zoo.Fitted(name, m2, f.fields)
        rebuilt[(codec, ph)] = (f2, tags)
        p2 = m2.get_params()
        obs.check("params_equal", _canon_params(p2) == _canon_params(params0),
                  f"get_params() {_norm_param(p2)} != {_norm_param(params0)}",
                  tags=dict(tags, stage="params", op="get_params", symptom="params_differ"))
        if repr(p2) != repr(params0):
            obs.cell(f"param_repr_changed:{codec}")
        if light:
            try:
                lazy2 = any(hasattr(v.data, "dask") for v in m2.data.values())
                obs.cell(f"rebuilt_lazy:{lazy2}")
            except Exception as e:  # noqa: BLE001
                _through(e)
        got = _queries(f2, ctx, light)
        n = _compare(obs, case, ref, got, tags, "as_serialised")
        if n:
            obs.nontrivial = True
        # history on the rebuilt model: compute() (what save() does first) must leave an already computed,
        # already ordered model as it is -- a flag lost in the round trip (e.g. POP's / a rotator's `sorted`)
        # would make it re-apply the mode ordering
        if not light and callable(getattr(m2, "compute", None)) and case.get("lazy", "eager") in ("eager", "lazy_post") and codec == "identity" and not ph:
            try:
                with warnings.catch_warnings():
                    warnings.simplefilter("ignore")
                    m2.compute()
            except Exception as e:  # noqa: BLE001
                _through(e)
                obs.check("rebuilt_compute_raises", False, f"compute() on the rebuilt model: {type(e).__name__}: {e}",
                          tags=_exc_tags(e, **dict(tags, stage="query", op="compute_rebuilt")))
                continue
            obs.cell("rebuilt_then_compute")
            got_c = _queries(f2, ctx, light)
            _compare(obs, case, ref, got_c, dict(tags, history="rebuilt_then_compute"), "rebuilt_then_compute")
    return rebuilt


def run_case(case, obs):
    name = case["cls"]
    cfg = _cfg_tags(case)
    obs.cell(f"cls:{name}", f"container:{case['container']}", f"nan:{case['nan']}", f"attr:{case['attr']}",
             f"where:{case['where']}", f"pv:{case['pv']}", f"lazy:{case['lazy']}", f"hist:{case['hist']}",
             f"name:{case['name']}", f"cplx:{case['cplx']}", f"combos:{case.get('combos', 'all')}", f"extra:{case.get('extra', 'none')}", f"weights:{case.get('weights', 'none')}")
    obs.tag(extra_coords=case.get("extra", "none"), user_weights=case.get("weights", "none"))
    for k in HOOK:
        HOOK[k] = 0
    fields, new_fields, dim = build(case)

    # ---- a fitted model with its history (no fitted model -> nothing to serialise) ------------
    try:
        with warnings.catch_warnings():
            warnings.simplefilter("ignore")
            f = _fit(case, fields, dim)
    except Exception as e:  # noqa: BLE001
        _through(e)
        obs.refuse(f"fit raised {type(e).__name__}: {str(e)[:200]} [{exception_site(e, REPO)}]")
    if case["lazy"] == "lazy_post":
        try:
            with warnings.catch_warnings():
                warnings.simplefilter("ignore")
                f.model.compute()
        except Exception as e:  # noqa: BLE001
            _through(e)
            if _in_serialisation(e):  # compute() serialises and rebuilds the model internally
                obs.check("serialize_raises", False, f"compute(): {type(e).__name__}: {e}",
                          tags=_exc_tags(e, **dict(cfg, stage="serialize", op="compute")))
                return
            obs.refuse(f"compute() raised {type(e).__name__}: {str(e)[:200]} [{exception_site(e, REPO)}]")
    ctx = Ctx()
    ctx.fields, ctx.new_fields = fields, new_fields
    h = case["hist"]
    try:
        with warnings.catch_warnings():
            warnings.simplefilter("ignore")
            if h == "transform" and name in zoo.HAS_TRANSFORM:
                f.transform(*fields)
            elif h == "transform_new" and name in zoo.HAS_TRANSFORM:
                f.transform(*new_fields)
            elif h == "inverse" and name in zoo.HAS_INVERSE:
                f.inverse_transform(*f.scores())
            ctx.score_in = [s for s in f.scores()]
    except Exception as e:  # noqa: BLE001
        _through(e)
        obs.refuse(f"pre-serialisation history raised {type(e).__name__}: {str(e)[:200]} [{exception_site(e, REPO)}]")
    if zoo.kind(name) in ("single_rot", "cross_rot"):
        try:
            idx = np.asarray(f.model.data["idx_modes_sorted"].values)
            obs.cell(f"rot_reordered:{bool((idx != np.arange(idx.size)).any())}")
        except Exception as e:  # noqa: BLE001
            _through(e)
    light = case["lazy"] == "lazy_pre"

    if h == "reloaded":
        # second-generation round trip: the model that gets serialised was itself rebuilt from a tree.
        # Generation 1 is compared with the fitted model first, so nothing about it is taken on trust.
        g1 = _round_trips(obs, case, f, ctx, dict(cfg, generation="first"), [("identity", False)], light)
        if ("identity", False) not in g1:
            return
        f = g1[("identity", False)][0]
        cfg = dict(cfg, generation="second")
    rebuilt = _round_trips(obs, case, f, ctx, cfg, _combos(case), light)

    # ---- serialised before compute(): both sides must also agree after compute() ----------------
    if light and rebuilt:
        ref2 = None
        try:
            with warnings.catch_warnings():
                warnings.simplefilter("ignore")
                f.model.compute()
            ref2 = _queries(f, ctx)
        except Exception as e:  # noqa: BLE001
            _through(e)
            obs.note("orig_compute_raised", f"{type(e).__name__}: {e}")
        if ref2 is not None:
            for (codec, ph), (f2, tags) in rebuilt.items():
                try:
                    with warnings.catch_warnings():
                        warnings.simplefilter("ignore")
                        f2.model.compute()
                except Exception as e:  # noqa: BLE001
                    _through(e)
                    obs.check("rebuilt_compute_raises", False, f"{type(e).__name__}: {e}",
                              tags=_exc_tags(e, **dict(tags, stage="compute", op="compute")))
                    continue
                got2 = _queries(f2, ctx)
                _compare(obs, case, ref2, got2, tags, "after_compute")
                obs.cell("phase:after_compute")

    for k, v in HOOK.items():
        if v:
            obs.count(f"hook:{k}", v)
