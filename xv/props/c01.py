"""C01 -- EOF-type modes are the exact eigen-decomposition of the preprocessed data.

Reference-model monitor: an independent numpy oracle preprocesses the raw
input (centre / std / sqrt(cos lat) / weights / analytic signal / delay
embedding), forms the covariance eigenvalues with LAPACK eigvalsh and every
public result of the fitted model is compared with it.  M-DEC (icontract
post-condition on Decomposer.fit) checks orthonormality, ordering and the
sign convention on every decomposition any case triggers; M-BACK records
which SVD back-end actually ran (decides the tolerance class).
"""
import warnings

import numpy as np

from .. import gen, mon, oracle, xu
from ..boot import REPO

LEVEL = "exploration"
RULE = (
    "structured corpus (class x spectrum kind x solver x shape class) + seeded random draws over "
    "n,p,rank,scale 1e-8..1e8,n_modes,flags,feature-dim layout; a case is non-trivial when the fitted "
    "matrix has rank >= 2 or more than one requested mode; distinct = distinct canonical case record"
)
ASSUMPTIONS = [
    "numpy.linalg.eigvalsh/eigh (LAPACK syevd) and the harness's own preprocessing are the trusted reference",
    "standardize=True is only generated with per-feature std >= 1e-5 (documented clip at float32 eps not in play)",
    "non-exact solvers are asserted two-sidedly (1e-6) only when the sketch captures the range or the spectrum decays geometrically",
]
CLASSES = ("EOF", "ComplexEOF", "HilbertEOF", "ExtendedEOF")
SPECS = gen.SPECTRA + ("illcond",)  # illcond: log-spaced singular values spanning 1e5..1e9
SOLVERS = ("full", "auto", "randomized")


def setup(tier):
    mon.install_decomposer()
    mon.install_svd()


def required(tier):
    return {
        "mon": ["post:Decomposer.fit", "backend:svd", "backend:randomized_svd"],
        "cover": [f"cls:{c}" for c in CLASSES] + [f"solver:{s}" for s in SOLVERS] + ["shape:wide", "shape:p1", "cplx:True"],
    }


def _draw(rng, cls=None, spec=None, solver=None, shape=None):
    cls = cls or rng.choice(CLASSES, p=[0.4, 0.25, 0.15, 0.2])
    spec = spec or str(rng.choice(SPECS))
    solver = solver or str(rng.choice(SOLVERS, p=[0.5, 0.3, 0.2]))
    shape = shape or str(rng.choice(["tall", "wide", "p1", "big", "vtall", "huge"], p=[0.4, 0.27, 0.08, 0.12, 0.11, 0.02]))
    if shape == "tall":
        n = int(rng.integers(6, 41))
        p = int(rng.integers(2, max(3, min(n - 1, 24)) + 1))
    elif shape == "wide":
        n = int(rng.integers(4, 16))
        p = int(rng.integers(n + 1, 3 * n + 2))
    elif shape == "p1":
        n = int(rng.integers(4, 30))
        p = 1
    elif shape == "huge":  # either side of the 500 limit of the 'auto' policy, and grids of ~1000 cells
        if rng.random() < 0.5:
            n = int(rng.integers(470, 540))
            p = int(rng.integers(3, 14))
        else:
            n = int(rng.integers(8, 40))
            p = int(rng.choice([480, 504, 520, 900, 1200]))
    elif shape == "vtall":  # n >= 10 p: the regime where a covariance-eigh shortcut would be tempting
        p = int(rng.integers(2, 9))
        n = int(rng.integers(10 * p, 14 * p + 10))
    else:  # big: the range finder's sketch (k+10) is smaller than the rank
        n = int(rng.integers(45, 70))
        p = int(rng.integers(28, 44))
    c = dict(
        cls=str(cls),
        spec=spec,
        solver=solver,
        shape=shape,
        n=n,
        p=p,
        scale_exp=int(rng.integers(-8, 9)),
        center=bool(rng.random() < 0.8),
        standardize=bool(rng.random() < 0.25),
        coslat=bool(rng.random() < 0.25),
        weights=bool(rng.random() < 0.3),
        nfd=int(rng.integers(1, 3)),
        cplx=False,
        kfrac=float(rng.random()),
        dseed=int(rng.integers(0, 2**31 - 1)),
        random_state=int(rng.integers(0, 1000)),
    )
    if c["cls"] == "ComplexEOF":
        c["cplx"] = bool(rng.random() < 0.85)
    if c["cls"] == "HilbertEOF":
        c["padding"] = str(rng.choice(["exp", "none"]))
        c["decay"] = float(rng.choice([0.05, 0.2, 0.5]))
        c["n"] = max(c["n"], 6)
    if c["cls"] == "ExtendedEOF":
        c["n"] = max(c["n"], 12)
        c["tau"] = int(rng.integers(1, 4))
        c["embedding"] = int(rng.integers(1 if rng.random() < 0.05 else 2, 4))
        c["n_pca"] = int(rng.integers(1, min(c["p"], c["n"] - 1) + 1)) if rng.random() < 0.4 else None
    if c["standardize"]:
        c["scale_exp"] = int(np.clip(c["scale_exp"], -3, 8))
    return c


def cases(tier, seed):
    out = []
    i = 0
    for cls in CLASSES:
        for spec in SPECS:
            for solver in SOLVERS:
                for shape in ("tall", "wide", "p1", "vtall"):
                    rng = gen.rng_for(1001, i)
                    out.append(_draw(rng, cls, spec, solver, shape))
                    i += 1
    for cls in CLASSES:
        for solver in SOLVERS:
            for rep in range(2):
                out.append(_draw(gen.rng_for(1002, i), cls, "geometric", solver, "huge"))
                i += 1
    nrand = 650 if tier == "quick" else 24000
    for j in range(nrand):
        out.append(_draw(gen.rng_for(seed, 1, j)))
    if tier == "thorough":
        # the repository's own tests as an additional workload under the universally valid post-conditions
        out.append(dict(kind="suite", paths=["tests/linalg", "tests/models/single/test_eof.py", "tests/models/single/test_eeof.py", "tests/models/single/test_eof_rotator.py"]))
        out.append(dict(kind="suite", paths=["tests/preprocessing/test_pca.py", "tests/preprocessing/test_whitener.py", "tests/models/single/test_opa.py", "tests/models/single/test_pop.py"]))
    return out


# --------------------------------------------------------------------------
def build(case):
    """Raw user-level input, its label bookkeeping and the per-feature weight vectors."""
    import xarray as xr

    rng = gen.rng_for(case["dseed"], 7)
    n, p = case["n"], case["p"]
    cplx = case["cplx"]
    rmax = min(n - 1, p)
    r = max(1, int(np.ceil(rmax * (0.4 + 0.6 * rng.random()))))
    if case["shape"] == "big":
        r = rmax
    if case["spec"] == "illcond":
        s = np.logspace(0, -float(rng.uniform(5, 9)), r) if r > 1 else np.ones(1)
    else:
        s = gen.spectrum(case["spec"], r, rng)
    M, _, _ = gen.low_rank(n, p, s, rng, cplx=cplx, perp_ones=True)
    scale = 10.0 ** case["scale_exp"]
    off = rng.standard_normal(p) * 2.0
    if cplx:
        off = off + 1j * rng.standard_normal(p)
    M = (M + off) * scale
    # feature layout
    if case["nfd"] == 2 and p > 1:
        pairs = gen.factor_pairs(p)
        fshape = pairs[int(rng.integers(0, len(pairs)))]
    else:
        fshape = (p,)
    use_lat = case["coslat"] or rng.random() < 0.3
    if len(fshape) == 2:
        fdims = ("lat", "lon") if use_lat else ("x", "y")
    else:
        fdims = ("lat",) if use_lat else ("x",)
    X = xu.make_da(M, fshape, fdims, sample_dim="time")
    w_cos = None
    if case["coslat"]:
        lat = X.coords["lat"].values
        wl = oracle.coslat_weights(lat)
        w_cos = np.repeat(wl, fshape[1]) if len(fshape) == 2 else wl
    W = None
    w_user = None
    if case["weights"]:
        w_user = rng.uniform(0.2, 3.0, size=p)
        W = xr.DataArray(w_user.reshape(fshape), dims=fdims, coords={d: X.coords[d] for d in fdims})
    return dict(M=M, X=X, fdims=fdims, fshape=fshape, w_cos=w_cos, w_user=w_user, W=W, s=s * scale, r=r)


def reference_matrix(case, b):
    """The matrix whose covariance the statement talks about, from the raw input only."""
    Mp = oracle.preprocess(b["M"], case["center"], case["standardize"], b["w_cos"], b["w_user"])
    cls = case["cls"]
    if cls == "HilbertEOF":
        pad = case["padding"] if case["padding"] != "none" else None
        return oracle.hilbert_augment(Mp, pad, case["decay"]), None
    if cls == "ExtendedEOF":
        q = case.get("n_pca")
        Mc = Mp
        P = None
        if q:
            Mc = Mp - Mp.mean(axis=0)
            ev, V = oracle.cov_eigh(Mc)
            if q < len(ev) and (ev[q - 1] - ev[q]) <= 1e-6 * ev[0]:
                return None, "pca_boundary_degenerate"
            P = V[:, :q]
            Mc = Mc @ P @ P.conj().T
        E = oracle.embed(Mc, case["tau"], case["embedding"])  # (m, emb, p)
        m = E.shape[0]
        E2 = E.reshape(m, -1)
        return E2 - E2.mean(axis=0), None
    return Mp, None


def run_case(case, obs):
    import xeofs as xe

    if case.get("kind") == "suite":
        from ..suite import run_suite

        obs.cell("workload:repo_test_suite")
        run_suite(obs, case["paths"])
        return
    cls = case["cls"]
    obs.tag(cls=cls, solver=case["solver"], cplx=case["cplx"])
    if cls == "ExtendedEOF":
        obs.tag(embedding=case["embedding"])
    obs.cell(f"cls:{cls}", f"solver:{case['solver']}", f"shape:{case['shape']}", f"spec:{case['spec']}", f"cplx:{case['cplx']}")
    for f in ("center", "standardize", "coslat", "weights"):
        obs.cell(f"{f}:{case[f]}")
    b = build(case)
    Mref, amb = reference_matrix(case, b)
    if Mref is None:
        obs.ambiguous(amb)
    n2, p2 = Mref.shape
    if n2 < 2:
        obs.refuse("fewer than two rows after embedding")
    kmax = min(n2, p2)
    if cls == "ExtendedEOF" and case.get("n_pca"):
        kmax = min(n2, case["embedding"] * case["n_pca"])
    k = int(np.clip(1 + int(case["kfrac"] * kmax), 1, kmax))
    obs.note("n_modes", k)
    kw = dict(
        n_modes=k,
        center=case["center"],
        standardize=case["standardize"],
        use_coslat=case["coslat"],
        solver=case["solver"],
        random_state=case["random_state"],
    )
    Cls = getattr(xe.single, cls)
    if cls == "HilbertEOF":
        kw.update(padding=case["padding"] if case["padding"] != "none" else None, decay_factor=case["decay"])
    if cls == "ExtendedEOF":
        kw.update(tau=case["tau"], embedding=case["embedding"], n_pca_modes=case.get("n_pca"))
    mon.reset()
    model = Cls(**kw)
    fpe = mon.FPE(REPO)
    try:
        with warnings.catch_warnings(), fpe:
            warnings.simplefilter("ignore")
            model.fit(b["X"], dim="time", weights=b["W"])
    except ValueError as e:
        msg = str(e)
        if "k` must be an integer satisfying" in msg or "k must be" in msg or "0 < k < min" in msg:
            mon.drain(obs)
            obs.refuse("scipy svds refuses k >= min(shape)")
        raise
    events = mon.drain(obs)
    backends = sorted({e["backend"] for e in events if e.get("kind") == "backend" and e.get("where") == "Decomposer"})
    obs.note("backends", backends)
    for be in backends:
        obs.cell("backend:" + be)
    if fpe.events:
        obs.note("fp_events", fpe.events)
    # chain of Decomposer back-ends (ExtendedEOF's PCA pre-step runs first, the model's own SVD last)
    chain = [e["backend"] for e in events if e.get("kind") == "backend" and e.get("where") == "Decomposer"]
    last = chain[-1]
    exact = all(b == "svd" for b in chain)
    obs.tag(backend=last, scale_small=bool(case["scale_exp"] <= -3), scale_exp=case["scale_exp"])
    if case["solver"] == "full":
        obs.check(
            "full_solver_uses_exact_backend",
            exact,
            f"solver='full' but the back-end chain was {chain}",
            tags={"symptom": "full_solver_not_exact", "inexact_step": "pca_prestep" if (len(chain) > 1 and chain[0] != "svd") else "model"},
        )
    gapped = case["spec"] in ("geometric", "gapped_tail", "rankdef", "illcond")
    emb = case.get("embedding", 1) if cls == "ExtendedEOF" else 1
    # does every randomised step see a sketch (modes + 10 oversamples) that spans the range, or a decaying spectrum?
    # (a delay-embedded matrix does not inherit a geometric spectrum: for ExtendedEOF only a capturing sketch counts)
    ok_final = (k + 10) >= b["r"] * emb or (gapped and cls != "ExtendedEOF") or last == "svd"
    ok_pca = True
    if len(chain) > 1 and chain[0] != "svd":
        ok_pca = (case.get("n_pca", 0) + 10) >= b["r"] or gapped
    # tolerance class of the matrix that gets decomposed (only ExtendedEOF's PCA pre-step can make it inexact)
    pre_tol = 1e-9
    if len(chain) > 1 and chain[0] != "svd":
        pre_tol = 1e-6 if ok_pca else None
    if exact:
        tol = 1e-9
    elif ok_final and ok_pca and "svds" not in chain:
        tol = 1e-6
    elif ok_final and ok_pca and (gapped or b["r"] <= k):
        # scipy svds(solver="lobpcg") as configured by xeofs: measured accuracy ~1e-5 on the leading
        # eigenvalues and ~1e-3 on singular vectors (even on O(1) data); this IS the accuracy of the method
        tol = 1e-3
    else:
        tol = None  # only one-sided / structural assertions
    tol_vec = 2e-2 if (tol == 1e-3) else tol
    numrank = int(np.linalg.matrix_rank(Mref))
    obs.tag(rank_deficient=bool(numrank < min(n2, p2)))
    obs.nontrivial = bool(numrank >= 2 or k > 1)

    # ---- read the public results back by label ---------------------------------
    coords = xu.labels(b["X"], ("time",) + tuple(b["fdims"]))
    # hostile accessor history: the non-default switches must not change what is returned afterwards
    # (an in-place scaling of the stored components / scores would)
    model.components(normalized=False)
    model.scores(normalized=True)
    comps = model.components()
    scores = model.scores()
    if cls == "ExtendedEOF":
        obs.check("components_dims", set(comps.dims) == set(b["fdims"]) | {"mode", "embedding"}, f"dims {comps.dims}")
        V = xu.to_np(comps, ["embedding"] + list(b["fdims"]), dict(coords, embedding=comps.embedding.values))
        Sfull = xu.to_np(scores, ["time"], coords)
        S = Sfull[:n2]
        obs.check("eeof_trailing_scores_nan", np.isnan(Sfull[n2:]).all(), "scores beyond the embedded length must be NaN")
    else:
        obs.check("components_dims", set(comps.dims) == set(b["fdims"]) | {"mode"}, f"dims {comps.dims}")
        V = xu.feature_matrix(comps, b["fdims"], coords)
        S = xu.sample_matrix(scores, ["time"], coords)
    obs.check("scores_dims", set(scores.dims) == {"time", "mode"}, f"dims {scores.dims}")
    sv = np.asarray(model.singular_values().values, dtype=float)
    ev = np.asarray(model.explained_variance().values, dtype=float)
    evr = np.asarray(model.explained_variance_ratio().values, dtype=float)
    obs.check("n_modes_returned", V.shape[1] == k and S.shape[1] == k and sv.size == k, f"got {V.shape[1]} modes, asked {k}")
    obs.check("finite_results", np.isfinite(V).all() and np.isfinite(S).all() and np.isfinite(sv).all() and np.isfinite(ev).all())

    # ---- oracle ----------------------------------------------------------------
    lam = oracle.cov_eigs(Mref)  # descending eigenvalues of Mref^H Mref / (n-1)
    lam1 = max(lam[0], np.finfo(float).tiny)
    tot = float((np.abs(Mref) ** 2).sum() / (n2 - 1))
    A = np.asarray(model.data["input_data"].values)
    Gobs = A @ A.conj().T if A.shape[0] == n2 else None
    Gref = Mref @ Mref.conj().T
    if Gobs is None:
        obs.check("input_data_rows", False, f"decomposed matrix has {A.shape[0]} rows, reference {n2}")
    elif pre_tol is not None:
        obs.close("input_gram", Gobs, Gref, pre_tol, scale=np.abs(Gref).max(), tags={"symptom": "decomposed_matrix_differs"})
    if pre_tol is None:
        # the randomised PCA pre-step did not have to find the oracle's subspace: nothing about the oracle's
        # matrix can be asserted; keep the assertions that hold for the model's own decomposition
        obs.cell("tol:structural_only")
        obs.close("components_orthonormal", V.conj().T @ V, np.eye(k), 1e-6, scale=1.0)
        obs.le("sv_descending", sv[1:], sv[:-1], slack=1e-9 * max(sv[0], 1e-300))
        obs.close("expvar_equals_sv2_over_nm1", ev, sv**2 / (n2 - 1), 1e-10, scale=max(ev[0], np.finfo(float).tiny))
        G = S.conj().T @ S
        obs.close("scores_gram_diag_sv2", G, np.diag(sv**2), 1e-6, scale=max(sv[0] ** 2, np.finfo(float).tiny))
        return

    I = np.eye(k)
    obs.close("components_orthonormal", V.conj().T @ V, I, 1e-8 if (tol and tol < 1e-5) else 1e-5, scale=1.0)
    obs.le("sv_descending", sv[1:], sv[:-1], slack=1e-9 * max(sv[0], 1e-300))
    obs.le("sv_nonneg", -sv, np.zeros_like(sv), slack=0)
    obs.close("expvar_equals_sv2_over_nm1", ev, sv**2 / (n2 - 1), 1e-10, scale=max(ev[0], np.finfo(float).tiny))
    # interlacing: an approximate SVD can never exceed the true leading eigenvalues
    obs.le("expvar_le_true_eigs", ev, lam[:k] * (1 + 1e-8) + 1e-12 * lam1, tags={"symptom": "expvar_above_eigs"})
    # reconstruction error can never be below the Eckart-Young optimum
    R = Mref - S @ V.conj().T
    err2 = float((np.abs(R) ** 2).sum())
    opt2 = float(lam[k:].sum() * (n2 - 1))
    tot2 = max(tot * (n2 - 1), np.finfo(float).tiny)
    obs.check("recon_not_below_optimum", err2 >= opt2 - 1e-8 * tot2, f"{err2} < {opt2}")
    if exact:
        # singular values to LAPACK accuracy: an SVD is backward stable (abs. error ~ eps*sigma_1 per value),
        # which a shortcut through the squared (covariance) problem is not
        sref = np.linalg.svd(Mref, compute_uv=False)
        sref = np.concatenate([sref, np.zeros(max(0, k - sref.size))])[:k]
        obs.close("sv_vs_svd_oracle", sv, sref, 1e-12, scale=max(sref[0], np.finfo(float).tiny), tags={"symptom": "sv_inexact"})
        big = sref > 1e-6 * sref[0]
        if big.any():
            Un = S[:, big] / sv[big]
            obs.close("normalized_scores_orthonormal", Un.conj().T @ Un, np.eye(int(big.sum())), 1e-8, scale=1.0, tags={"symptom": "scores_not_orthonormal"})
    if tol is not None:
        obs.close("expvar_vs_eigs", ev, lam[:k], tol, scale=lam1, tags={"symptom": "expvar_ne_eigs"})
        obs.close("scores_equal_MV", S, Mref @ V, max(tol_vec, 1e-9), scale=np.sqrt(lam1 * (n2 - 1)), tags={"symptom": "scores_ne_MV"})
        G = S.conj().T @ S
        obs.close("scores_gram_diag_sv2", G, np.diag(sv**2), max(tol_vec, 1e-9), scale=lam1 * (n2 - 1), tags={"symptom": "scores_gram"})
        resid = Mref.conj().T @ (Mref @ V) / (n2 - 1) - V * ev
        obs.close("eigen_residual", resid, np.zeros_like(resid), max(tol_vec, 1e-9) * 10, scale=lam1, tags={"symptom": "eigen_residual"})
        obs.close("recon_error_is_optimal", err2, opt2, max(tol, 1e-9) * 10, scale=tot2, tags={"symptom": "recon_not_optimal"})
        if case["center"] or cls == "ExtendedEOF":
            obs.close("ratio_vs_trace", evr, lam[:k] / max(tot, np.finfo(float).tiny), max(tol, 1e-9), scale=1.0, tags={"symptom": "ratio"})
    else:
        obs.cell("tol:one_sided_only")
        obs.close("scores_gram_offdiag", (S.conj().T @ S) - np.diag(np.diag(S.conj().T @ S)), np.zeros((k, k)), 1e-6, scale=lam1 * (n2 - 1))
    if case["center"] or cls == "ExtendedEOF":
        obs.le("ratio_sum_le_1", [float(evr.sum())], [1 + 1e-8])
