"""Shared reference model for the cross-set properties C09 / C10 (numpy only -- never calls xeofs).

* workload builder: a pair of raw fields with a prescribed coupling (generic, perfectly
  correlated rho = 1, identical), optional p > n (exactly low rank, only used behind PCA),
  labelled DataArrays + weight arrays,
* oracle pipeline: own preprocessing (centre / std ddof 0 / sqrt(cos lat) / weights) ->
  projection on the leading PCA subspace (eigh of the covariance, documented mode-count rules)
  -> analytic signal (Hilbert variants) -> K = Cxx^((ax-1)/2) Cxy Cyy^((ay-1)/2) with 1/(N-1)
  covariances and eigh powers, canonical correlations by QR + SVD, Pearson correlations.
"""
import numpy as np

from .. import gen, oracle, xu

FAMILY_ALPHA = {"MCA": (1.0, 1.0), "CCA": (0.0, 0.0), "RDA": (0.0, 1.0)}
BASES = ("CPCCA", "MCA", "CCA", "RDA")
VARIANTS = ("", "Complex", "Hilbert")
CLASSES = tuple(v + b for v in VARIANTS for b in BASES)


def variant(cls):
    for v in ("Complex", "Hilbert"):
        if cls.startswith(v):
            return v
    return "real"


def family(cls):
    for v in ("Complex", "Hilbert"):
        if cls.startswith(v):
            return cls[len(v):]
    return cls


def alpha_of(case):
    f = family(case["cls"])
    if f in FAMILY_ALPHA:
        return FAMILY_ALPHA[f]
    a = case["alpha"]
    return (float(a[0]), float(a[1]))


# ----------------------------------------------------------------------------- workload
def _spectrum(rng, r, qlo=0.55, qhi=0.9):
    q = rng.uniform(qlo, qhi)
    return q ** np.arange(r)


def make_pair(case):
    """Raw (n x px), (n x py) matrices.  Field spec in case['fx'], case['fy']:
    {'p', 'r' (exact rank of the anomalies; r == p for tall fields)}; case['data'] in
    generic | rho1 | same | indep; case['cplx'].  Singular spectra are geometric with ratio
    0.55..0.9 (condition of each covariance <= ~5e3) so that full whitening stays well posed."""
    rng = gen.rng_for(case["dseed"], 9)
    n = case["n"]
    cplx = bool(case.get("cplx", False))
    fx, fy = case["fx"], case["fy"]
    scale = 10.0 ** case.get("scale_exp", 0)

    qlo, qhi = case.get("spec_q", (0.55, 0.9))

    def field(p, r):
        s = _spectrum(rng, r, qlo, qhi)
        M, _, _ = gen.low_rank(n, p, s, rng, cplx=cplx, perp_ones=True)
        return M * np.sqrt(n)

    X = field(fx["p"], fx["r"])
    kind = case["data"]
    if kind == "same":
        Y = X.copy()
    elif kind == "rho1":
        # Y = X A with A of full column rank (py <= rank X unless Y sits behind PCA)
        k = fy["r"]  # generator guarantees k <= rank(X) and k <= px
        A = gen.orthonormal(fx["p"], k, rng, cplx) * _spectrum(rng, k, 0.7, 0.95)
        if k < fy["p"]:
            A = A @ gen.orthonormal(fy["p"], k, rng, cplx).conj().T
        Y = X @ A
    else:
        Y0 = field(fy["p"], fy["r"])
        if kind == "indep":
            Y = Y0
        else:
            c = case.get("coupling", 0.7)
            B = rng.standard_normal((fx["p"], fy["p"]))
            if cplx:
                B = B + 1j * rng.standard_normal((fx["p"], fy["p"]))
            B /= np.linalg.norm(B, 2)
            if fy["r"] < fy["p"]:
                # keep Y exactly of rank r: couple through Y0's row space only
                _, _, Vh = np.linalg.svd(Y0 - Y0.mean(0), full_matrices=False)
                Pr = Vh[: fy["r"]].conj().T @ Vh[: fy["r"]]
                B = B @ Pr
            Y = np.sqrt(1 - c**2) * Y0 + c * (X @ B)
    offx = rng.standard_normal(fx["p"]) * 2
    offy = rng.standard_normal(fy["p"]) * 2
    if cplx:
        offx = offx + 1j * rng.standard_normal(fx["p"])
        offy = offy + 1j * rng.standard_normal(fy["p"])
    X, Y = (X + offx) * scale, (Y + offy) * scale
    um = case.get("unit_mix")
    if um:
        # mixed physical units inside one field: the last half of the features is expressed in a unit 10^-e smaller
        # (no random draws here: every other case keeps its data)
        for M, e in ((X, um[0]), (Y, um[1])):
            if e and M.shape[1] >= 2:
                M[:, M.shape[1] // 2 :] *= 10.0 ** (-e)
    return X, Y


def _layout(rng, p, nfd, lat, names):
    if nfd == 2 and p > 1:
        pairs = gen.factor_pairs(p)
        fshape = pairs[int(rng.integers(0, len(pairs)))]
    else:
        fshape = (p,)
    if len(fshape) == 2:
        fdims = ("lat", "lon") if lat else names
    else:
        fdims = ("lat",) if lat else names[:1]
    return fshape, fdims


def build(case, sample_dim="time", lag=False):
    """Labelled inputs.  Returns dict with M (list of raw matrices), da (DataArrays), fdims, w_cos, w_user, W."""
    import xarray as xr

    Mx, My = make_pair(case)
    rng = gen.rng_for(case["dseed"], 11)
    out = dict(M=[Mx, My], da=[], fdims=[], fshape=[], w_cos=[], w_user=[], W=[], coords=[])
    for i, (M, f, names) in enumerate(zip((Mx, My), (case["fx"], case["fy"]), (("x", "y"), ("u", "v")))):
        p = f["p"]
        coslat = bool(f.get("coslat", False))
        fshape, fdims = _layout(rng, p, f.get("nfd", 1), coslat or rng.random() < 0.2, names)
        # every fourth case: the second field keeps time stamps of its own (a lagged pairing) that overlap the first
        # field's only partly -- samples are paired by position, never by label
        sc = np.arange(M.shape[0]) + M.shape[0] // 3 if (lag and i == 1 and int(case.get("dseed", 0)) % 4 == 1) else None
        da = xu.make_da(M, fshape, fdims, sample_dim=sample_dim, sample_coords=sc, name=f"field{i + 1}")
        w_cos = None
        if coslat:
            wl = oracle.coslat_weights(da.coords["lat"].values)
            w_cos = np.repeat(wl, fshape[1]) if len(fshape) == 2 else wl
        w_user, W = None, None
        if f.get("weights", False):
            w_user = rng.uniform(0.3, 2.5, size=p)
            W = xr.DataArray(w_user.reshape(fshape), dims=fdims, coords={d: da.coords[d] for d in fdims})
        out["da"].append(da)
        out["fdims"].append(fdims)
        out["fshape"].append(fshape)
        out["w_cos"].append(w_cos)
        out["w_user"].append(w_user)
        out["W"].append(W)
        out["coords"].append(xu.labels(da, (sample_dim,) + tuple(fdims)))
    return out


# ----------------------------------------------------------------------------- oracle
class AmbiguousRef(Exception):
    pass


def pca_mode_count(ev, n, p, spec):
    """Number of PCA modes the documentation promises for spec = None | ['int', q] | ['float', f, irr] | ['all'].
    ev: eigenvalues (desc) of the (n-1)-normalised covariance of the preprocessed field."""
    if spec is None or spec[0] == "none":
        return None
    kind = spec[0]
    if kind == "all":
        return min(n, p)
    if kind == "int":
        return int(spec[1])
    f, irr = float(spec[1]), float(spec[2])
    q_pre = max(1, int(min(n, p) * irr))
    tot = float(ev.sum())
    cum = np.cumsum(ev[:q_pre]) / tot
    if np.any(np.abs(cum - f) < 1e-9):
        raise AmbiguousRef("requested variance fraction within 1e-9 of a cumulative value")
    hit = np.nonzero(cum >= f)[0]
    return int(hit[0]) + 1 if hit.size else q_pre


def reduce_field(M, fspec, w_cos, w_user, hilbert=None):
    """Preprocess one raw field and move it to the coordinates the cross matrix is formed in.
    Returns dict(Z n x q_eff (complex for Hilbert), P p x q_eff, q_model, Xp)."""
    n, p = M.shape
    Xp = oracle.preprocess(M, True, bool(fspec.get("standardize", False)), w_cos, w_user)
    spec = fspec.get("pca")
    q_model = p
    P = np.eye(p, dtype=Xp.dtype)
    if spec is not None and spec[0] != "none":
        ev, V = oracle.cov_eigh(Xp)
        q_model = pca_mode_count(ev, n, p, spec)
        nz = int(np.sum(ev > 1e-12 * max(ev[0], np.finfo(float).tiny)))
        q_eff = min(q_model, nz)
        if q_eff < len(ev) and q_eff >= 1 and (ev[q_eff - 1] - ev[q_eff]) <= 1e-6 * ev[0] and q_eff < nz:
            raise AmbiguousRef("PCA truncation falls into a degenerate eigenvalue cluster")
        P = V[:, :q_eff]
    Z = Xp @ P
    if hilbert is not None:
        pad, decay = hilbert
        Z = oracle.hilbert_augment(np.real(Z), "exp" if pad == "exp" else None, decay)
    return dict(Z=Z, P=P, q_model=q_model, Xp=Xp)


def cross_reference(Zx, Zy, ax, ay):
    """sigma(K), ||Cxy||_F^2, canonical correlations for the reduced fields (columns = coordinates)."""
    n = Zx.shape[0]
    Zx = Zx - Zx.mean(axis=0)
    Zy = Zy - Zy.mean(axis=0)
    Cxx = Zx.conj().T @ Zx / (n - 1)
    Cyy = Zy.conj().T @ Zy / (n - 1)
    Cxy = Zx.conj().T @ Zy / (n - 1)
    K = oracle.frac_power_psd(Cxx, (ax - 1) / 2) @ Cxy @ oracle.frac_power_psd(Cyy, (ay - 1) / 2)
    sk = np.linalg.svd(K, compute_uv=False)
    evx = np.linalg.eigvalsh((Cxx + Cxx.conj().T) / 2)
    evy = np.linalg.eigvalsh((Cyy + Cyy.conj().T) / 2)
    return dict(
        sigmaK=sk,
        tsc=float(np.sum(np.abs(Cxy) ** 2)),
        condx=float(evx.max() / max(evx.min(), 1e-300)),
        condy=float(evy.max() / max(evy.min(), 1e-300)),
        varx=float(evx.max()),
        vary=float(evy.max()),
    )


def canonical_correlations(Zx, Zy):
    """QR + SVD of Qx^H Qy (Bjorck & Golub); rank-deficient columns are removed by a pivot-free rank cut."""

    def basis(Z):
        Z = Z - Z.mean(axis=0)
        U, s, _ = np.linalg.svd(Z, full_matrices=False)
        r = int(np.sum(s > s[0] * max(Z.shape) * np.finfo(float).eps * 10)) if s.size and s[0] > 0 else 0
        Q, _ = np.linalg.qr(Z) if r == Z.shape[1] else (U[:, :r], None)
        return Q

    Qx, Qy = basis(Zx), basis(Zy)
    return np.clip(np.linalg.svd(Qx.conj().T @ Qy, compute_uv=False), 0, None)


def corr_matrix(A, B):
    """Pearson correlation of every column of A with every column of B: entry (i, j) =
    sum conj(a_i - mean) (b_j - mean) / (|a_i| |b_j|)  (== numpy.corrcoef for real data;
    for complex data this is xeofs's X^H Y orientation, the conjugate of numpy.corrcoef(a, b)[0, 1])."""
    A = np.asarray(A)
    B = np.asarray(B)
    A = A - A.mean(axis=0)
    B = B - B.mean(axis=0)
    na = np.sqrt((np.abs(A) ** 2).sum(axis=0))
    nb = np.sqrt((np.abs(B) ** 2).sum(axis=0))
    with np.errstate(invalid="ignore", divide="ignore"):
        return (A.conj().T @ B) / np.outer(na, nb)


def expected_factor(n, ax, ay):
    return (n / (n - 1.0)) ** ((2.0 - ax - ay) / 2.0)


# ----------------------------------------------------------------------------- model construction
def model_kwargs(case, n_modes):
    cls = case["cls"]
    fx, fy = case["fx"], case["fy"]

    def pca_kw(spec):
        if spec is None or spec[0] == "none":
            return False, 0.999, 0.3
        if spec[0] == "all":
            return True, "all", 0.3
        if spec[0] == "int":
            return True, int(spec[1]), 0.3
        return True, float(spec[1]), float(spec[2])

    ux, mx, ix = pca_kw(fx.get("pca"))
    uy, my, iy = pca_kw(fy.get("pca"))
    kw = dict(
        n_modes=int(n_modes),
        standardize=[bool(fx.get("standardize", False)), bool(fy.get("standardize", False))],
        use_coslat=[bool(fx.get("coslat", False)), bool(fy.get("coslat", False))],
        use_pca=[ux, uy],
        n_pca_modes=[mx, my],
        pca_init_rank_reduction=[ix, iy],
        solver=case.get("solver", "full"),
    )
    if family(cls) == "CPCCA":
        kw["alpha"] = [float(case["alpha"][0]), float(case["alpha"][1])]
    if variant(cls) == "Hilbert":
        pad = case.get("padding", "exp")
        kw["padding"] = pad if pad == "exp" else None
        kw["decay_factor"] = float(case.get("decay", 0.2))
    return kw


def hilbert_spec(case):
    if variant(case["cls"]) != "Hilbert":
        return None
    return (case.get("padding", "exp"), float(case.get("decay", 0.2)))
