"""C08 extra family 'dtype': the weights relation on inputs that are not float64.

fit(X, weights=w) must equal fit(X*w) also when X is integer-typed (counts, packed model output) or float32:
the weights must never be cast to the data's dtype (non-integer weights would be truncated)."""
import warnings

import numpy as np

from .. import gen, xu

DTYPES = ("int16", "int32", "int64", "float32")
CLASSES = ("EOF", "MCA")


def cases(tier):
    out = []
    i = 0
    for cls in CLASSES:
        for dt in DTYPES:
            for cont in ("da", "list"):
                out.append(dict(kind="dtype", cls=cls, dtype=dt, cont=cont, dseed=8800 + i, rel="weights", center=bool(i % 2)))
                i += 1
    return out


def run_case(case, obs):
    import xarray as xr
    import xeofs as xe

    cls, dt, cont = case["cls"], case["dtype"], case["cont"]
    obs.tag(cls=cls, op="weights", dtype=dt, container=cont)
    obs.cell("family:dtype", f"dtype:{dt}", f"cls:{cls}")
    rng = gen.rng_for(case["dseed"], 88)
    n, p = 20, 6
    s = 0.6 ** np.arange(p)
    M, _, _ = gen.low_rank(n, p, s, rng)
    M = M / np.abs(M).max() * 60.0
    Mi = np.round(M).astype(dt) if dt.startswith("int") else M.astype(dt)
    w = rng.uniform(0.35, 2.65, size=p)
    X = xu.make_da(Mi, (2, 3), ("lat", "lon"))
    W = xr.DataArray(w.reshape(2, 3), dims=("lat", "lon"), coords={d: X.coords[d] for d in ("lat", "lon")})
    XB = xu.make_da(Mi.astype(float) * w, (2, 3), ("lat", "lon"))
    tol = 1e-9 if dt.startswith("int") else 1e-4
    kw = dict(n_modes=3, solver="full")
    with warnings.catch_warnings():
        warnings.simplefilter("ignore")
        if cls == "EOF":
            a = [X, X.isel(lon=[0])] if cont == "list" else X
            b = [XB, XB.isel(lon=[0])] if cont == "list" else XB
            wa = [W, W.isel(lon=[0])] if cont == "list" else W
            mA = xe.single.EOF(center=case["center"], **kw).fit(a, dim="time", weights=wa)
            mB = xe.single.EOF(center=case["center"], **kw).fit(b, dim="time")
            svA, svB = mA.singular_values().values, mB.singular_values().values
            cA, cB = mA.components(), mB.components()
            cA = cA[0] if isinstance(cA, list) else cA
            cB = cB[0] if isinstance(cB, list) else cB
        else:
            Y = xu.make_da(gen.random_field(n, 4, rng), (4,), ("x",))
            mA = xe.cross.MCA(use_pca=False, **kw).fit(X, Y, dim="time", weights_X=W)
            mB = xe.cross.MCA(use_pca=False, **kw).fit(XB, Y, dim="time")
            svA, svB = mA.data["singular_values"].values, mB.data["singular_values"].values
            cA, cB = mA.components()[0], mB.components()[0]
    obs.nontrivial = True
    obs.close("dtype_weights_singular_values", svA, svB, tol, tags={"symptom": "weights_ne_premultiplied"})
    obs.close("dtype_weights_components", cA.transpose("mode", "lat", "lon").values, cB.transpose("mode", "lat", "lon").values, max(tol, 1e-8), scale=1.0, tags={"symptom": "weights_ne_premultiplied"})
