"""C02 -- outputs keep the input's structure and attach every value to its own label.

Runtime monitor over an *enumerated* space of labelled layouts.  Every cell of the input carries a unique id
that encodes its (sample label tuple, variable, feature label tuple), so

* the **conservation monitor** (a post-condition wrapper on `Preprocessor.fit_transform`, which therefore
  also sees the call a model's `fit` makes) can decode the stacked 2-D matrix: every non-missing input cell
  exactly once, one sample label per row, one (variable, feature label) per column;
* the **round trip** `inverse_transform_data(fit_transform(X))` is compared with X label by label (container
  type, variable names, dimension sets, label sets, values) using an independent description of the input
  kept by the generator (xv/props/c02_layout.py) -- not xarray alignment, not xeofs;
* `Preprocessor.transform(X)` -- a second execution on the same input -- must rebuild the very same matrix,
  cell for cell, as `fit_transform(X)` (else projections of later data hang on other labels than the fit);
* an EOF fit on the same layout must return components with the feature dims + 'mode', scores with the
  sample dims + 'mode', a reconstruction with the full input structure; with ids as data (all flags off)
  the label-wise product scores x components must reproduce X, which pins every component / score to its label.
"""
import numpy as np

from .. import gen
from ..boot import REPO
from ..obs import exception_site
from . import c02_layout as L

LEVEL = "exploration"
RULE = (
    "enumerated layouts: per container kind a greedy pairwise covering array over {ns, nf, dim order, index kind "
    "per dim slot, extra coords, naming scheme, preprocessing flags, NaN feature, dtype, mixed-dims shape, order of "
    "the sample_dims argument} + for (ns,nf) in {(1,1),(2,2),(3,3),(1,3),(3,1)} a pairwise covering of the index kinds of "
    "all dim slots x container x order + 24 namings the library declares unusable + 200 seeded random "
    "layouts (thorough: pairwise arrays per container x ns x nf x order cell, 3-wise arrays over index kinds x container, "
    "4000 random); a case is non-trivial when the layout differs from the repository's test layouts (one ascending-int "
    "DataArray / same-dims Dataset) in at least one factor; distinct = distinct canonical case record"
)
ASSUMPTIONS = [
    "label equality is by value (1 == 1.0, datetimes by instant, MultiIndex labels as tuples of level values); "
    "element order along a dimension and dimension order are recorded, not asserted",
    "survival of extra non-index coordinates, of the DataArray name and of MultiIndex level names is recorded, not asserted",
    "list items share their sample labels in the same order (a list is not re-aligned by the caller)",
    "flags on: data are random floats, round trip asserted to 1e-12 relative; non-float64 dtypes only with all flags off",
    "the EOF reconstruction is asserted only with n_modes = full rank and solver='full' (1e-9 relative)",
    "namings that Stacker._validate_dimension_names itself declares unusable (sample_name = a user dim with several sample "
    "dims; feature_name = a user dim of a Dataset / of a DataArray with several feature dims) may be refused: an exception "
    "there is a refusal, a wrong value still a violation; they are generated only in a small dedicated family",
    "not generated: 2-D non-index coordinates spanning a sample and a feature dim; variables lacking a sample dim; "
    "list items whose sample labels differ; unseen data (C05); fully missing samples (C06)",
]
EXHAUSTIVE = {"quick": False, "thorough": False}

TOL_RT = 1e-12
TOL_EOF = 1e-9

_REC = []  # matrices observed by the fit_transform post-condition since the last reset
_COUNT = {}


def _cnt(k, n=1):
    _COUNT[k] = _COUNT.get(k, 0) + n


# -----------------------------------------------------------------------------------------------------------
# monitors
# -----------------------------------------------------------------------------------------------------------
def setup(tier):
    import icontract
    from xeofs.preprocessing import preprocessor as P

    if getattr(P.Preprocessor, "_xv_c02", False):
        return

    def fit_transform_post(self, result):
        """universally valid: a 2-D (sample_name, feature_name) matrix; recorded for the id decoder"""
        try:
            _cnt("post:Preprocessor.fit_transform")
            _REC.append({"M": result, "sample_name": self.sample_name, "feature_name": self.feature_name, "check_nans": self.check_nans})
        except Exception as e:  # a monitor never breaks the observed call
            _cnt("monitor_error:Preprocessor.fit_transform")
            _REC.append({"error": repr(e)})
        return True

    def make_counter(name):
        def post(self, result):
            _cnt("post:Preprocessor." + name)
            return True

        post.__name__ = name + "_post"
        return post

    P.Preprocessor.fit_transform = icontract.ensure(fit_transform_post)(P.Preprocessor.fit_transform)
    for nm in ("transform", "inverse_transform_data", "inverse_transform_components", "inverse_transform_scores"):
        setattr(P.Preprocessor, nm, icontract.ensure(make_counter(nm))(getattr(P.Preprocessor, nm)))
    P.Preprocessor._xv_c02 = True


def required(tier):
    cover = [f"container:{c}" for c in L.CONTAINERS]
    cover += [f"ns:{i}" for i in (1, 2, 3)] + [f"nf:{i}" for i in (1, 2, 3)]
    cover += [f"kind:{k}" for k in L.KINDS] + [f"order:{o}" for o in L.ORDERS]
    cover += [f"extra:{e}" for e in L.EXTRAS] + [f"names:{n}" for n in L.NAMES] + [f"flags:{f}" for f in L.FLAGS]
    cover += [f"mix:{m}" for m in L.MIXES] + ["nan:feature", "dtype:i8", "dtype:f4", "sdorder:reversed"]
    return {
        "mon": [
            "post:Preprocessor.fit_transform",
            "post:Preprocessor.transform",
            "post:Preprocessor.inverse_transform_data",
            "post:Preprocessor.inverse_transform_components",
            "post:Preprocessor.inverse_transform_scores",
            "conservation:decoded",
            "relayout:transposed",
            "relayout_accepted:transposed",
            "relayout:feature_reversed",
            "history:transform_subset",
            "history:model_transform_subset",
        ],
        "cover": cover,
    }


def evidence_extra(results, extras):
    """what the enumeration reached: verdicts per container kind, layout cells, and per operation how often it was
    observed without a violation (an operation behind a failing earlier one is not observed at all)"""
    per = {}
    clean = {}
    families = {}
    for r in results:
        c = r["case"]
        per.setdefault(c["container"], {}).setdefault(r["status"], 0)
        per[c["container"]][r["status"]] += 1
        families[c.get("kind", "?")] = families.get(c.get("kind", "?"), 0) + 1
        bad = {v["tags"].get("op") for v in r["violations"]}
        for v in r["violations"]:
            if v["tags"].get("op") in ("fit", "fit_transform"):
                bad |= {"*"}
        if "*" not in bad and r["status"] in ("held", "violated"):
            for op in ("fit_transform", "transform", "inverse_transform_data", "components", "scores", "inverse_transform"):
                if op not in bad:
                    clean.setdefault(op, {}).setdefault(c["container"], 0)
                    clean[op][c["container"]] += 1
    return {"status_by_container": per, "case_families": families, "operations_observed_without_violation": clean}


# -----------------------------------------------------------------------------------------------------------
# case generation: greedy t-wise covering arrays (numpy only, deterministic)
# -----------------------------------------------------------------------------------------------------------
def covering(levels, t, seed, fixed=None):
    """Greedy (AETG-style) covering array of strength t over the factors `levels` (dict name -> tuple of levels);
    `fixed` pins further factors.  Each row starts from one still-uncovered t-tuple and fills the remaining
    factors one at a time with the level that covers most uncovered tuples.  Coverage is booked on the row
    *after* `normalize`; a seed tuple that normalisation cannot keep is infeasible and dropped from the target."""
    from itertools import combinations

    names = [n for n in levels if not (fixed and n in fixed)]
    F = len(names)
    sizes = [len(levels[n]) for n in names]
    rng = gen.rng_for(4242, seed, t)
    combos = list(combinations(range(F), t))
    unc = {cb: np.ones([sizes[i] for i in cb], dtype=bool) for cb in combos}
    n_unc = {cb: int(unc[cb].sum()) for cb in combos}
    with_f = {f: [cb for cb in combos if f in cb] for f in range(F)}
    lut = [{v: j for j, v in enumerate(levels[n])} for n in names]

    def realise(row):
        c = dict(fixed or {})
        for n, j in zip(names, row):
            c[n] = levels[n][j]
        for n in L.FACTORS:
            c.setdefault(n, L.BASELINE[n])
        return L.normalize(c)

    out = []
    live = list(combos)
    while live:
        cb = live[int(rng.integers(0, len(live)))]
        w = np.argwhere(unc[cb])
        pick = tuple(int(x) for x in w[int(rng.integers(0, len(w)))])
        row = [-1] * F
        for i, j in zip(cb, pick):
            row[i] = j
        rest = [f for f in range(F) if row[f] < 0]
        for f in (rest[i] for i in rng.permutation(len(rest))):
            gains = np.zeros(sizes[f])
            for cb2 in with_f[f]:
                if n_unc[cb2] == 0 or any(row[i] < 0 for i in cb2 if i != f):
                    continue
                gains += unc[cb2][tuple(slice(None) if i == f else row[i] for i in cb2)]
            top = np.flatnonzero(gains == gains.max())
            row[f] = int(top[int(rng.integers(0, len(top)))])
        c = realise(row)
        r2 = [lut[i].get(c[n], -1) for i, n in enumerate(names)]
        if tuple(r2[i] for i in cb) != pick:
            unc[cb][pick] = False  # infeasible under the consistency repairs
            n_unc[cb] -= 1
        else:
            for cb2 in combos:
                idx = tuple(r2[i] for i in cb2)
                if min(idx) >= 0 and unc[cb2][idx]:
                    unc[cb2][idx] = False
                    n_unc[cb2] -= 1
            out.append(c)
        live = [x for x in live if n_unc[x] > 0]
    return out


def _relevant(ns, nf, container=None):
    lv = dict(L.FACTORS)
    for i in range(3):
        if i >= ns:
            lv.pop(f"k_s{i}")
        if i >= nf:
            lv.pop(f"k_f{i}")
    lv.pop("ns")
    lv.pop("nf")
    if container is not None:
        lv.pop("container")
        if container != "ds_mixed":
            lv.pop("mix")
    if ns == 1:
        lv.pop("sdorder")
    return lv


def _random_case(rng, allow_invalid=False, **pin):
    c = {n: lv[int(rng.integers(0, len(lv)))] for n, lv in L.FACTORS.items()}
    # flags off more often than uniform so the id-encoded (exact) path dominates
    if rng.random() < 0.35:
        c["flags"] = "off"
    c.update({k: v for k, v in pin.items() if v is not None})
    if allow_invalid:
        c["allow_invalid"] = True
        if c["names"] == "eq_feature" and c["container"] in ("da", "list_da"):
            c["nf"] = max(2, c["nf"])
    out = L.normalize(c)
    return out


def cases(tier, seed):
    out = []

    def add(kind, c, k):
        d = dict(kind=kind, dseed=int(1000 + k))
        d.update(c)
        out.append(d)

    k = 0
    if tier == "quick":
        # (a) per container: pairwise over everything else (ns, nf included)
        for ci, cont in enumerate(L.CONTAINERS):
            lv = dict(L.FACTORS)
            lv.pop("container")
            if cont != "ds_mixed":
                lv.pop("mix")
            for c in covering(lv, 2, 10 + ci, fixed={"container": cont}):
                add("pair_container", c, k)
                k += 1
        # (b) per (ns, nf) on the diagonal and the corners: pairwise over the index kinds of all dim slots x
        #     container x order, everything else at its baseline (the "clean" layouts)
        for ns in (1, 2, 3):
            for nf in (1, 2, 3):
                if (ns, nf) not in ((1, 1), (2, 2), (3, 3), (1, 3), (3, 1)):
                    continue
                lv = {n: v for n, v in _relevant(ns, nf).items() if n.startswith("k_") or n in ("container", "order")}
                for c in covering(lv, 2, 100 + 10 * ns + nf, fixed={"ns": ns, "nf": nf}):
                    add("pair_kinds", c, k)
                    k += 1
        # (c) namings the Stacker's own validation declares unusable (refusal permitted, wrong values are not)
        for j in range(24):
            rng = gen.rng_for(77, j)
            c = _random_case(rng, allow_invalid=True, names=("eq_sample", "eq_feature", "eq_crossed")[j % 3], ns=2 + j % 2 if j % 3 != 1 else None)
            add("declared_invalid", c, k)
            k += 1
        nrand = 200
    else:
        cell = 0
        for cont in L.CONTAINERS:
            for ns in (1, 2, 3):
                for nf in (1, 2, 3):
                    for order in L.ORDERS:
                        lv = _relevant(ns, nf, cont)
                        lv.pop("order")
                        fixed = {"container": cont, "ns": ns, "nf": nf, "order": order}
                        for c in covering(lv, 2, 1000 + cell, fixed=fixed):
                            add("pair_cell", c, k)
                            k += 1
                        cell += 1
        for ns, nf in ((3, 3), (2, 2), (1, 2), (2, 1), (3, 1), (1, 3)):
            lv = {n: v for n, v in _relevant(ns, nf).items() if n.startswith("k_") or n == "container"}
            for c in covering(lv, 3, 5000 + 10 * ns + nf, fixed={"ns": ns, "nf": nf}):
                add("triple_kinds", c, k)
                k += 1
        for j in range(60):
            rng = gen.rng_for(78, j)
            c = _random_case(rng, allow_invalid=True, names=("eq_sample", "eq_feature", "eq_crossed")[j % 3], ns=2 + j % 2 if j % 3 != 1 else None)
            add("declared_invalid", c, k)
            k += 1
        nrand = 4000
    for j in range(nrand):
        rng = gen.rng_for(seed, 2, j)
        c = _random_case(rng)
        d = dict(kind="random", dseed=int(rng.integers(0, 2**31 - 1)))
        d.update(c)
        out.append(d)
    return out


# -----------------------------------------------------------------------------------------------------------
# oracle helpers
# -----------------------------------------------------------------------------------------------------------
def _guard(obs, op, fn, refusable=False, before_fail=None):
    """Run one call of the code under test.  An exception raised inside xeofs on a call the property says must
    return is recorded as a violation (with the raising frame) and the case continues with its other parts.
    `refusable`: the input is one the library itself declares unusable -> an exception is a permitted refusal."""
    try:
        return True, fn()
    except Exception as e:  # noqa: BLE001
        # the runner's watchdog / harness-flagged errors are not the library's: let them through
        if type(e).__name__ == "_CaseTimeout" or isinstance(e, MemoryError) or getattr(e, "_xv_harness", False):
            raise
        site = exception_site(e, REPO)
        if site is None:
            raise
        if refusable:
            obs.info.setdefault("refusals", []).append(f"{op}: {type(e).__name__} at {site}: {str(e)[:160]}")
            return False, None
        if before_fail is not None:
            before_fail()
        obs.n_checks += 1
        obs.fail("unexpected_exception", f"{op}: {type(e).__name__}: {e}", tags={"symptom": "exception", "exc": type(e).__name__, "site": site, "op": op})
        return False, None


def _renamed_differ(pre):
    """diagnostic tag only (reads internal state, never a verdict): did the per-item DimensionRenamers give the
    sample dims different internal names?"""
    try:
        return int(len({tuple(t.sample_dims_after) for t in pre.renamer.transformers}) > 1)
    except Exception:  # noqa: BLE001
        return -1


def _align(obs, op, what, da, dims_expected, labels_ref, extra_dims=()):
    """Check dimension set and label sets of one array; return its values laid out as dims_expected (+extra) in the
    reference label order, or None."""
    tg = {"op": op}
    want = set(dims_expected) | set(extra_dims)
    ok = obs.check(
        f"{op}:dims", set(da.dims) == want, f"{what}: dims {tuple(da.dims)} but expected the set {sorted(want)}", tags=dict(tg, symptom="dims_changed")
    )
    if len(set(da.dims)) != len(da.dims):
        ok = False
    idx = []
    for d in dims_expected:
        if d not in da.dims:
            ok = False
            continue
        keys, how = L.labels_of(da, d)
        refk = [L.key_of(v) for v in labels_ref[d]]
        good = obs.check(
            f"{op}:labels",
            len(keys) == len(set(keys)) and set(keys) == set(refk),
            f"{what}: labels along {d!r} are {keys[:8]} ({how}) but the input has {refk[:8]}",
            tags=dict(tg, symptom="label_set_changed"),
        )
        if not good:
            ok = False
            continue
        if how != "multiindex" and labels_ref[d] and isinstance(labels_ref[d][0], tuple):
            obs.count("recorded:multiindex_came_back_flat:" + op)
        if keys != refk:
            obs.count("recorded:element_order_changed:" + op)
        idx.append(L.positions(labels_ref[d], keys))
    if not ok:
        return None
    other = [d for d in da.dims if d not in dims_expected]
    v = np.asarray(da.transpose(*dims_expected, *other).values)
    for ax, pos in enumerate(idx):
        v = np.take(v, pos, axis=ax)
    return v


def _container(obs, op, out, b):
    """container type / list length / variable names; returns list of per-item outputs or None"""
    import xarray as xr

    tg = {"op": op}
    if b["is_list"]:
        ok = obs.check(
            f"{op}:type",
            isinstance(out, (list, tuple)) and len(out) == len(b["ref"]),
            f"expected a list of {len(b['ref'])} objects, got {type(out).__name__}" + (f" of length {len(out)}" if isinstance(out, (list, tuple)) else ""),
            tags=dict(tg, symptom="type_changed"),
        )
        if not ok:
            return None
        outs = list(out)
    else:
        outs = [out]
    res = []
    for it, o in zip(b["ref"], outs):
        T = xr.DataArray if it["type"] == "DataArray" else xr.Dataset
        ok = obs.check(f"{op}:type", isinstance(o, T), f"expected {it['type']}, got {type(o).__name__}", tags=dict(tg, symptom="type_changed"))
        if ok and it["type"] == "Dataset":
            names = [v["name"] for v in it["vars"]]
            ok = obs.check(
                f"{op}:varnames", set(o.data_vars) == set(names), f"variables {sorted(map(str, o.data_vars))} but expected {names}", tags=dict(tg, symptom="varnames_changed")
            )
        res.append(o if ok else None)
    return res


def _values(obs, op, what, got, want, tol, scale, ids, NS=None):
    """label-aligned value comparison with symptom classification"""
    tg = {"op": op}
    got = np.asarray(got, dtype=float) if not np.iscomplexobj(got) else np.asarray(got)
    ng, nw = np.isnan(got), np.isnan(want)
    lost = nw < ng  # input has a value, output NaN
    inv = ng < nw  # input missing, output has a value
    ok1 = obs.check(f"{op}:value_lost", not lost.any(), f"{what}: {int(lost.sum())} of {int((~nw).sum())} input values come back as NaN", tags=dict(tg, symptom="value_lost"))
    ok2 = obs.check(f"{op}:value_invented", not inv.any(), f"{what}: {int(inv.sum())} missing input cells come back with a value", tags=dict(tg, symptom="value_invented"))
    both = ~ng & ~nw
    if both.any():
        g = np.where(both, got, 0.0)
        w = np.where(both, want, 0.0)
        msg = ""
        if ids:
            bad = np.argwhere(g != w)
            if len(bad):
                i = tuple(bad[0])
                msg = f"{what}: {len(bad)} cells carry another cell's value, e.g. position {i}: got id {g[i]:.0f}, own id {w[i]:.0f}"
        obs.close(f"{op}:values", g, w, tol, scale=scale, tags=dict(tg, symptom="value_on_wrong_label" if ids else "value_differs"), msg=msg)
    return ok1 and ok2


def _conservation(obs, rec, b, op):
    """decode the ids in the stacked matrix"""
    tg = {"op": op}
    if "error" in rec:
        raise RuntimeError("fit_transform monitor failed: " + rec["error"])
    M = rec["M"]
    sn, fn = rec["sample_name"], rec["feature_name"]
    ok = obs.check(
        f"{op}:matrix_dims", hasattr(M, "dims") and set(M.dims) == {sn, fn} and M.ndim == 2, f"stacked matrix has dims {getattr(M, 'dims', None)}", tags=dict(tg, symptom="matrix_dims")
    )
    if not ok:
        return
    A = np.asarray(M.transpose(sn, fn).values, dtype=float)
    want = L.expected_ids(b)
    nvalid_f = 0
    for it in b["ref"]:
        for v in it["vars"]:
            a = np.moveaxis(v["values"], [v["dims"].index(d) for d in v["sdims"]], list(range(len(v["sdims"])))).reshape(b["NS"], -1)
            nvalid_f += int((~np.isnan(a)).any(axis=0).sum())
    obs.check(f"{op}:matrix_shape", A.shape == (b["NS"], nvalid_f), f"stacked matrix is {A.shape}, input has {b['NS']} samples x {nvalid_f} non-missing features", tags=dict(tg, symptom="matrix_shape"))
    obs.check(f"{op}:matrix_nan", not np.isnan(A).any(), f"{int(np.isnan(A).sum())} NaN in the stacked matrix", tags=dict(tg, symptom="matrix_nan"))
    if not b["ids"]:
        return
    _cnt("conservation:decoded")
    flat = A[~np.isnan(A)]
    integral = bool(np.all(flat == np.round(flat)))
    obs.check(f"{op}:cells_are_ids", integral, "stacked matrix holds values that are no cell ids", tags=dict(tg, symptom="cell_foreign"))
    got = np.sort(flat)
    gu, gc = np.unique(got, return_counts=True)
    missing = np.setdiff1d(want, gu)
    foreign = np.setdiff1d(gu, want)
    obs.check(f"{op}:cell_lost", missing.size == 0, f"{missing.size} non-missing input cells do not appear in the stacked matrix (first ids {missing[:5]})", tags=dict(tg, symptom="cell_lost"))
    obs.check(f"{op}:cell_foreign", foreign.size == 0, f"{foreign.size} matrix entries are no input cell (first {foreign[:5]})", tags=dict(tg, symptom="cell_foreign"))
    obs.check(f"{op}:cell_duplicated", bool(np.all(gc == 1)), f"{int((gc > 1).sum())} input cells appear more than once", tags=dict(tg, symptom="cell_duplicated"))
    if not integral or np.isnan(A).any():
        return
    NS = b["NS"]
    sid = np.mod(A, NS)
    fid = np.floor_divide(A, NS)
    obs.check(f"{op}:row_one_sample", bool(np.all(sid == sid[:, :1])), "a row of the stacked matrix mixes cells of different sample labels", tags=dict(tg, symptom="row_mixes_samples"))
    obs.check(f"{op}:col_one_feature", bool(np.all(fid == fid[:1, :])), "a column of the stacked matrix mixes cells of different (variable, feature label)", tags=dict(tg, symptom="column_mixes_features"))
    obs.check(f"{op}:rows_distinct", len(set(sid[:, 0].tolist())) == A.shape[0], "two rows carry the same sample label", tags=dict(tg, symptom="row_duplicated"))
    obs.check(f"{op}:cols_distinct", len(set(fid[0, :].tolist())) == A.shape[1], "two columns carry the same feature label", tags=dict(tg, symptom="column_duplicated"))


def _relayout(X, b, how):
    """the same labelled data in another physical layout; None when the layout offers nothing to change"""
    import xarray as xr

    items = X if b["is_list"] else [X]
    out, changed = [], False
    for it, o in zip(b["ref"], items):
        if how == "transposed":
            # Dataset items keep their layout: their transposed transform is a recorded finding of C04
            if isinstance(o, xr.DataArray) and o.ndim > 1:
                o = o.transpose(*o.dims[::-1])
                changed = True
        else:
            fd = next((d for v in it["vars"] for d in v["fdims"]), None)
            if fd is not None and o.sizes[fd] > 1:
                o = o.isel({fd: slice(None, None, -1)})
                changed = True
        out.append(o)
    if not changed:
        return None
    return out if b["is_list"] else out[0]


def _sample_subset(X, b):
    """the first half (by the first item's labels) of the first sample dimension, selected by label in every item"""
    items = X if b["is_list"] else [X]
    d = b["sample_dim_set"][0]
    idx0 = items[0].indexes[d]
    chosen = idx0[: max(1, len(idx0) // 2)]
    out = [o.isel({d: np.sort(o.indexes[d].get_indexer(chosen))}) for o in items]
    return out if b["is_list"] else out[0]


def _same_matrix(obs, M, M2, b, sn, fn, scale, op="transform"):
    tg = {"op": op}
    ok = obs.check(
        f"{op}:matrix_dims",
        hasattr(M2, "dims") and set(M2.dims) == {sn, fn} and set(M.dims) == {sn, fn} and dict(M2.sizes) == dict(M.sizes),
        f"transform() gives {dict(getattr(M2, 'sizes', {}))}, fit_transform() gave {dict(getattr(M, 'sizes', {}))}",
        tags=dict(tg, symptom="matrix_shape"),
    )
    if not ok:
        return
    A = np.asarray(M.transpose(sn, fn).values, dtype=float)
    B = np.asarray(M2.transpose(sn, fn).values, dtype=float)
    msg = ""
    if b["ids"] and not np.array_equal(A, B):
        i = tuple(np.argwhere(A != B)[0])
        msg = f"transform() puts cell id {B[i]:.0f} where fit_transform() put id {A[i]:.0f} (row {i[0]}, column {i[1]})"
    obs.close(f"{op}:same_matrix", B, A, TOL_RT, scale=scale, tags=dict(tg, symptom="transform_matrix_differs"), msg=msg)


def _compare_data(obs, op, out, b, tol, scale):
    """full-structure comparison of a data-like output with the input"""
    outs = _container(obs, op, out, b)
    if outs is None:
        return
    for k, (it, o) in enumerate(zip(b["ref"], outs)):
        if o is None:
            continue
        for v in it["vars"]:
            da = o if it["type"] == "DataArray" else o[v["name"]]
            what = f"item {k} variable {v['name']}"
            got = _align(obs, op, what, da, v["dims"], v["labels"])
            if got is None:
                continue
            _values(obs, op, what, got, v["values"], tol, scale, b["ids"])
            if tuple(da.dims) != tuple(v["dims"]):
                obs.count("recorded:dim_order_changed:" + op)
            if it["type"] == "DataArray" and da.name != v["name"]:
                obs.count("recorded:dataarray_name_changed:" + op)


# -----------------------------------------------------------------------------------------------------------
def run_case(case, obs):
    import warnings

    import xarray as xr
    import xeofs as xe
    from xeofs.preprocessing.preprocessor import Preprocessor

    c = L.normalize({n: case[n] for n in list(L.FACTORS) + ["allow_invalid"] if n in case})
    b = L.build(dict(c, dseed=case["dseed"]))
    skinds = [c[f"k_s{i}"] for i in range(c["ns"])]
    fkinds = [c[f"k_f{i}"] for i in range(c["nf"])]
    # mechanism tags: strings/bools form the grouping key, the 0/1 integers are for known-finding predicates only
    obs.tag(
        container=c["container"],
        names=c["names"],
        ns=c["ns"],
        nf=c["nf"],
        sample_mi=int("multiindex" in skinds),
        feature_mi=int("multiindex" in fkinds),
        extra_coords={"none": 0, "scalar": 1, "1d": 2, "2d": 3}[c["extra"]],
        nan_feature=int(c["nan"] == "feature"),
        flags_on=int(c["flags"] != "off"),
    )
    if c["container"] == "ds_mixed":
        obs.tag(mix=c["mix"] if c["nf"] > 1 else "nofeat")
    obs.cell(
        f"container:{c['container']}", f"ns:{c['ns']}", f"nf:{c['nf']}", f"order:{c['order']}", f"extra:{c['extra']}", f"names:{c['names']}",
        f"flags:{c['flags']}", f"nan:{c['nan']}", f"dtype:{c['dtype']}", f"sdorder:{c['sdorder']}",
    )  # fmt: skip
    if c["container"] == "ds_mixed":
        obs.cell(f"mix:{c['mix']}")
    for kd in set(skinds + fkinds):
        obs.cell(f"kind:{kd}")
    obs.cell(f"cell:{c['container']}|ns{c['ns']}|nf{c['nf']}")
    obs.note("factors", c)
    obs.nontrivial = any(c[n] != L.BASELINE[n] for n in L.FACTORS if not (n == "container" and c[n] == "ds_same"))
    refusable = L.declared_invalid(c)
    if refusable:
        obs.cell("names:declared_invalid_by_stacker")
    X, W = b["X"], b["W"]
    scale = max(float(np.nanmax(np.abs(np.concatenate([v["values"].ravel() for it in b["ref"] for v in it["vars"]])))), 1.0)
    sn, fn = b["sample_name"], b["feature_name"]

    with warnings.catch_warnings():
        warnings.simplefilter("ignore")
        # ---------------- part 1: preprocessor round trip -----------------------------------------------
        obs.tag(cls="Preprocessor", history="none")
        del _REC[:]
        pre = Preprocessor(sample_name=sn, feature_name=fn, **b["kw"])
        tag_rd = lambda: obs.tag(renamed_differ=_renamed_differ(pre))  # noqa: E731
        ok, M = _guard(obs, "fit_transform", lambda: pre.fit_transform(X, b["sample_dims"], W), refusable, tag_rd)
        if ok:
            tag_rd()
            recs = list(_REC)
            if len(recs) != 1:
                raise RuntimeError(f"fit_transform monitor saw {len(recs)} calls, expected 1")
            _conservation(obs, recs[0], b, "fit_transform")
            ok, back = _guard(obs, "inverse_transform_data", lambda: pre.inverse_transform_data(M), refusable)
            if ok:
                _compare_data(obs, "inverse_transform_data", back, b, TOL_RT, scale)
            # second execution on the same input: transform() must build the very same matrix (same cell in the
            # same row / column) as fit_transform(), else later projections hang on other labels than the fit
            ok, M2 = _guard(obs, "transform", lambda: pre.transform(X), refusable)
            if ok:
                _same_matrix(obs, M, M2, b, sn, fn, scale)
            # third execution: the SAME labelled data handed over in another physical layout.  (a) DataArray items
            # with their axes in reverse order ("dimensions in any order"): must build the same matrix; (b) the
            # element order along the first feature dimension reversed: xeofs refuses that today -- it may be
            # refused or aligned by label, but never accepted with the values in the columns of other labels.
            for how in ("transposed", "feature_reversed"):
                Xr = _relayout(X, b, how)
                if Xr is None:
                    continue
                _cnt("relayout:" + how)
                if how == "feature_reversed":
                    try:
                        ok, M3 = True, pre.transform(Xr)
                    except Exception as e:  # noqa: BLE001
                        if exception_site(e, REPO) is None:
                            raise
                        ok, M3 = False, None
                        _cnt("relayout_refused:" + how)
                else:
                    ok, M3 = _guard(obs, "transform_" + how, lambda Xr=Xr: pre.transform(Xr), refusable)
                if ok:
                    _cnt("relayout_accepted:" + how)
                    _same_matrix(obs, M, M3, b, sn, fn, scale, op="transform_" + how)
            # hostile history: projecting OTHER samples (a label-subset of the training data) must not change what
            # the fitted chain restores for the training matrix
            Xs = _sample_subset(X, b)
            try:
                pre.transform(Xs)
                _cnt("history:transform_subset")
            except Exception:  # noqa: BLE001  (a subset may be unusable for reasons of its own)
                _cnt("history:transform_subset_raised")
            obs.tag(history="after_transform_of_subset")
            ok, back = _guard(obs, "inverse_transform_data", lambda: pre.inverse_transform_data(M), refusable)
            if ok:
                _compare_data(obs, "inverse_transform_data", back, b, TOL_RT, scale)
            obs.tag(history="none")

        # ---------------- part 2: EOF on the same layout ------------------------------------------------
        obs.tag(cls="EOF")
        n = b["NS"]
        p = 0
        for it in b["ref"]:
            for v in it["vars"]:
                a = np.moveaxis(v["values"], [v["dims"].index(d) for d in v["sdims"]], list(range(len(v["sdims"])))).reshape(n, -1)
                p += int((~np.isnan(a)).any(axis=0).sum())
        center = b["kw"]["with_center"]
        kmodes = max(1, min(n - 1 if center else n, p))
        model = xe.single.EOF(
            n_modes=kmodes, center=center, standardize=b["kw"]["with_std"], use_coslat=b["kw"]["with_coslat"], sample_name=sn, feature_name=fn, solver="full"
        )
        del _REC[:]
        tag_rd = lambda: obs.tag(renamed_differ=_renamed_differ(model.preprocessor))  # noqa: E731
        ok, _ = _guard(obs, "fit", lambda: model.fit(X, dim=b["sample_dims"], weights=W), refusable, tag_rd)
        if ok:
            tag_rd()
            for rec in list(_REC):
                _conservation(obs, rec, b, "fit")
            if case["dseed"] % 2 == 0:
                # hostile history: project other samples before the fitted model's accessors are read
                try:
                    model.transform(_sample_subset(X, b))
                    _cnt("history:model_transform_subset")
                    obs.tag(history="after_transform_of_subset")
                except Exception:  # noqa: BLE001
                    _cnt("history:model_transform_subset_raised")
            _eof_outputs(obs, model, b, n, scale, refusable)
    _drain(obs)
    if obs.info.get("refusals"):
        obs.refuse("naming declared unusable by Stacker._validate_dimension_names; " + obs.info["refusals"][0])


def _eof_outputs(obs, model, b, n, scale, refusable):
    import xarray as xr

    # components
    V = None
    ok, comps = _guard(obs, "components", lambda: model.components(), refusable)
    if ok:
        outs = _container(obs, "components", comps, b)
        if outs is not None:
            V = []
            for k, (it, o) in enumerate(zip(b["ref"], outs)):
                for v in it["vars"]:
                    if o is None:
                        V.append(None)
                        continue
                    da = o if it["type"] == "DataArray" else o[v["name"]]
                    V.append(_align(obs, "components", f"item {k} variable {v['name']}", da, v["fdims"], v["labels"], extra_dims=("mode",)))
    # scores
    S = None
    ok, scores = _guard(obs, "scores", lambda: model.scores(), refusable)
    if ok:
        if obs.check("scores:type", isinstance(scores, xr.DataArray), f"scores are a {type(scores).__name__}", tags={"op": "scores", "symptom": "type_changed"}):
            S = _align(obs, "scores", "scores", scores, b["sample_dim_set"], b["slabels"], extra_dims=("mode",))
            # reconstruction from the scores the model hands out
            ok, rec = _guard(obs, "inverse_transform", lambda: model.inverse_transform(scores), refusable)
            if ok:
                _compare_data(obs, "inverse_transform", rec, b, TOL_EOF, scale)
    # label-wise product scores x components == X  (ids as data: no centring, no weights)
    if not (b["ids"] and S is not None and V is not None):
        return
    j = 0
    for k, it in enumerate(b["ref"]):
        for v in it["vars"]:
            Vv = V[j]
            j += 1
            if Vv is None:
                continue
            Sm = S.reshape(n, -1)
            Vm = Vv.reshape(-1, Vv.shape[-1])
            can = np.moveaxis(v["values"], [v["dims"].index(d) for d in list(v["sdims"]) + list(v["fdims"])], list(range(v["values"].ndim))).reshape(n, -1)
            valid = ~np.isnan(can).all(axis=0)
            what = f"scores x components, item {k} variable {v['name']}"
            obs.check(
                "components:nan_pattern",
                bool(np.all(np.isnan(Vm).all(axis=1) == ~valid) and np.all(np.isnan(Vm).any(axis=1) == ~valid)),
                f"{what}: components are NaN at other labels than the missing features",
                tags={"op": "components", "symptom": "component_nan_pattern"},
            )
            if not obs.check("scores:nan", not np.isnan(Sm).any(), "scores contain NaN", tags={"op": "scores", "symptom": "value_lost"}):
                continue
            if valid.any() and not np.isnan(Vm[valid]).any():
                obs.close(
                    "components_scores:product", Sm @ Vm[valid].T, can[:, valid], TOL_EOF, scale=scale,
                    tags={"op": "components_scores", "symptom": "value_on_wrong_label"},
                )  # fmt: skip


def _drain(obs):
    for k, v in list(_COUNT.items()):
        obs.count(k, v)
    _COUNT.clear()
    del _REC[:]
