"""C02 developer aid (not used by the runner): reduce violating cases to the factors that are needed.

    XV_KEEP=/tmp/c02.json ./check C02 quick
    XEOFS_VERIF=1 /venv/bin/python -m xv.props.c02_triage /tmp/c02.json

For every distinct violation signature (cls, op, symptom, exception type, raising frame) in the dump, the first
and a middle witness are re-executed in this process while one factor after the other is reset to its baseline
level (ascending-int DataArray, one sample and one feature dim, default names, flags off, ...); a reset is kept
when the same signature still occurs.  What remains is a 1-minimal factor set -- the configuration facts that
delimit the mechanism.  This is again runtime observation of the real code, only on derived inputs.
"""
import collections
import json
import sys
import warnings


def _signatures(mod, case):
    from ..obs import Ambiguous, Obs, Refused

    obs = Obs("C02", case)
    try:
        mod.run_case(case, obs)
    except (Refused, Ambiguous):
        pass
    out = set()
    for v in obs.violations:
        t = v["tags"]
        out.add((t.get("cls"), t.get("op"), t.get("symptom"), t.get("exc"), t.get("site")))
    return out


ORDER = ["extra", "names", "flags", "nan", "dtype", "sdorder", "order", "k_s2", "k_s1", "k_s0", "k_f2", "k_f1", "k_f0", "mix", "ns", "nf", "container"]


def minimize(mod, L, case, target):
    c = dict(case)
    for f in ORDER:
        if c[f] == L.BASELINE[f]:
            continue
        for val in list(range(1, c[f])) if f in ("ns", "nf") else [L.BASELINE[f]]:
            t = dict(c)
            t[f] = val
            t.update(L.normalize({n: t[n] for n in list(L.FACTORS) + ["allow_invalid"] if n in t}))
            if target in _signatures(mod, t):
                c = t
                break
    return {f: c[f] for f in L.FACTORS if c[f] != L.BASELINE[f]}


def main(path):
    from .. import boot

    boot.pin_env()
    boot.setup_path()
    warnings.filterwarnings("ignore")
    from . import c02 as mod
    from . import c02_layout as L

    mod.setup("quick")
    with open(path) as f:
        res = json.load(f)
    groups = collections.OrderedDict()
    for r in res:
        for v in r["violations"]:
            t = v["tags"]
            key = (t.get("cls"), t.get("op"), t.get("symptom"), t.get("exc"), t.get("site"))
            groups.setdefault(key, []).append((r["case"], v["msg"]))
    print(len(groups), "violation signatures")
    for key, lst in groups.items():
        case, msg = lst[0]
        m1 = minimize(mod, L, case, key)
        print("---", key, "n =", len(lst))
        print("    msg:", msg[:200].replace("\n", " "))
        print("    needs:", m1)
        if len(lst) > 3:
            m2 = minimize(mod, L, lst[len(lst) // 2][0], key)
            if m2 != m1:
                print("    needs (2nd witness):", m2)


if __name__ == "__main__":
    main(sys.argv[1])
