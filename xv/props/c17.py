"""C17 -- unusable input is rejected with an error, never answered with numbers.

Fault enumeration: catalogue x entry point x class x container, each case a
SINGLE-fault mutation of a call that is valid without the fault (the valid
call is executed first; if it fails the case is 'refused', not a verdict).
Observation = exception or its absence at the mutated call.  A mutated call
that RETURNS is a violation.  Negative controls (alpha > 1, a Dataset with
additional variables, score arrays with additional dimensions) are valid
calls: whatever they do is never reported, they are executed to show the
monitor does not fire on them.
"""
import warnings

import numpy as np

from .. import gen, xu, zoo

LEVEL = "fault_enumeration"
EXHAUSTIVE = {"quick": False, "thorough": True}
RULE = (
    "fault catalogue (fit-time: 23 faults, transform-time: 14, inverse_transform: 3, negative controls: 4) x model class "
    "(quick: representatives of every family; thorough: every class of xeofs.single/cross/multi incl. rotators) x "
    "container kind (DataArray / Dataset / list) where the fault is expressible; every combination is enumerated, "
    "nothing is sampled (the seed only changes the numbers inside the valid base data); non-trivial = the un-mutated "
    "call succeeded, so the mutated call isolates exactly one fault; distinct = distinct (class, container, entry, fault)"
)
ASSUMPTIONS = [
    "an exception of any type counts as a refusal; only a returning call is judged",
    "negative controls are taken from the property's quantifier text and are never reported",
]

QUICK_CLASSES = ("EOF", "ComplexEOF", "SparsePCA", "POP", "ExtendedEOF", "EOFRotator", "MCA", "CPCCA", "ComplexMCA", "HilbertCCA", "MCARotator", "CPCCARotator", "multi.CCA")
ALL_CLASSES = tuple(zoo.SINGLE) + tuple(zoo.SINGLE_ROT) + tuple(zoo.CROSS) + tuple(zoo.CROSS_ROT) + tuple(zoo.MULTI)

FIT_FAULTS = (
    "type_ndarray", "type_list_ndarray", "type_dataframe", "type_none", "type_int",
    "dim_unknown", "dim_partly_unknown", "dim_partly_unknown_nocenter", "dim_empty", "dim_all", "dim_nonstring",
    "nmodes_gt_rank", "nmodes_rank_plus1", "nmodes_gt_rank_square", "nmodes_zero", "nmodes_negative", "nmodes_string", "nmodes_none", "nmodes_float_gt1",
    "solver_unknown", "solver_unknown_dask", "alpha_negative", "samples_mismatch", "weights_ndarray", "npca_gt_rank",
)
TRANSFORM_FAULTS = (
    "t_type_ndarray", "t_missing_feature_dim", "t_missing_sample_dim", "t_extra_dim", "t_renamed_dim", "t_shifted_coords",
    "t_reordered_other_values", "t_reordered_same_labels", "t_fewer_features", "t_dropped_variable", "t_wrong_list_length", "t_list_too_long", "t_list_for_single", "t_dataarray_for_dataset", "t_variable_missing_feature_dim",
    "t_missing_feature_dim_scalar_coord", "t_variable_missing_feature_dim_extra_var",
)
INVERSE_FAULTS = ("i_unknown_mode", "i_unknown_modes_mixed", "i_type_ndarray")
# c_dataset_wrapping_dataarray: the SAME numbers wrapped into a one-variable Dataset for a DataArray-fitted model;
# the property's list of faults does not name it and the projection is the documented one, so it is recorded only.
CONTROLS = ("c_alpha_gt1", "c_extra_variable", "c_scores_extra_dim", "c_dataset_wrapping_dataarray")


def required(tier):
    return {
        "mon": ["mutated_calls", "baseline_calls_ok"],
        "cover": ["entry:fit", "entry:transform", "entry:inverse", "entry:control"] + [f"fault:{f}" for f in FIT_FAULTS + TRANSFORM_FAULTS + INVERSE_FAULTS],
        "max_refused_share": 0.5,
    }


def _applicable(cls, container, fault):
    k = zoo.kind(cls)
    rot = k in ("single_rot", "cross_rot")
    cross = k in ("cross", "cross_rot")
    if fault in ("alpha_negative", "c_alpha_gt1"):
        return cls.endswith("CPCCA")
    if fault == "samples_mismatch":
        return cross or k == "multi"
    if fault in ("nmodes_gt_rank", "nmodes_rank_plus1", "nmodes_gt_rank_square"):
        if cls == "ExtendedEOF" and fault != "nmodes_gt_rank":
            return False  # the rank that matters there is that of the delay-embedded matrix
        return not rot and cls not in ("POP",) or (cls == "POP" and fault == "nmodes_gt_rank")
    if fault == "solver_unknown":
        return k != "multi"
    if fault == "solver_unknown_dask":
        return k != "multi" and cls not in zoo.COMPLEX_INPUT_OK and not cls.startswith("Hilbert")  # complex + dask is refused for its own reason
    if fault == "weights_ndarray":
        return k != "multi"
    if fault == "npca_gt_rank":
        return k == "cross" or cls in ("POP", "ExtendedEOF")
    if fault == "dim_partly_unknown_nocenter":
        return k == "single" and cls not in ("ExtendedEOF", "OPA")
    if fault.startswith("t_"):
        if cls not in zoo.HAS_TRANSFORM:
            return False
        if fault in ("t_dropped_variable", "t_dataarray_for_dataset", "t_variable_missing_feature_dim", "t_variable_missing_feature_dim_extra_var"):
            return container == "dataset"
        if fault == "t_missing_feature_dim_scalar_coord":
            return True
        if fault in ("t_wrong_list_length", "t_list_too_long"):
            return container == "list"
        if fault == "t_list_for_single":
            return container == "dataarray" and k != "multi"
        if fault in ("t_missing_feature_dim", "t_fewer_features", "t_reordered_other_values", "t_reordered_same_labels", "t_shifted_coords", "t_renamed_dim", "t_extra_dim", "t_missing_sample_dim"):
            return True
    if fault.startswith("i_"):
        return cls in zoo.HAS_INVERSE
    if fault == "c_extra_variable":
        return container == "dataset" and cls in zoo.HAS_TRANSFORM
    if fault == "c_scores_extra_dim":
        return cls in zoo.HAS_INVERSE
    if fault == "c_dataset_wrapping_dataarray":
        return container == "dataarray" and cls in zoo.HAS_TRANSFORM
    if fault.startswith("type_") or fault.startswith("dim_") or fault.startswith("nmodes_"):
        if fault.startswith("nmodes_") and rot and fault in ("nmodes_string", "nmodes_none", "nmodes_float_gt1", "nmodes_zero", "nmodes_negative"):
            return True
        return True
    return True


def cases(tier, seed):
    classes = QUICK_CLASSES if tier == "quick" else ALL_CLASSES
    out = []
    for cls in classes:
        complex_cls = cls in zoo.COMPLEX_INPUT_OK
        containers = ("dataarray",) if (complex_cls or cls == "multi.CCA") else ("dataarray", "dataset", "list")
        for container in containers:
            for fault in FIT_FAULTS + TRANSFORM_FAULTS + INVERSE_FAULTS + CONTROLS:
                if not _applicable(cls, container, fault):
                    continue
                # container-independent faults only once per class
                if container != "dataarray" and (fault.startswith(("nmodes_", "npca_", "solver_", "alpha_", "i_", "c_alpha", "c_scores")) or fault in ("type_none", "type_int", "dim_nonstring")):
                    continue
                out.append(dict(cls=cls, container=container, fault=fault, dseed=int(seed)))
    return out


# ------------------------------------------------------------------------------------------------
def _field(rng, n, fshape, fdims, cplx=False):
    p = int(np.prod(fshape))
    M, _, _ = gen.low_rank(n, p, 0.6 ** np.arange(min(n - 2, p)), rng, cplx=cplx)
    return xu.make_da(M + rng.standard_normal(p), fshape, fdims)


def _container(rng, kind, n, cplx, second=False):
    import xarray as xr

    if kind == "dataarray":
        return _field(rng, n, (4,) if second else (2, 3), ("x",) if second else ("lat", "lon"), cplx)
    if kind == "dataset":
        return xr.Dataset({"va": _field(rng, n, (2, 3), ("lat", "lon"), cplx), "vb": _field(rng, n, (2, 3), ("lat", "lon"), cplx)})
    return [_field(rng, n, (2, 3), ("lat", "lon"), cplx), _field(rng, n, (4,), ("x",), cplx)]


def _map(obj, fn, only_first=False):
    """Apply fn to every DataArray/Dataset item of a container (or only to the first)."""
    if isinstance(obj, list):
        return [fn(o) if (i == 0 or not only_first) else o for i, o in enumerate(obj)]
    return fn(obj)


def _mutate_transform(fault, X, rng):
    import xarray as xr

    first = (lambda o: o[0]) if isinstance(X, list) else (lambda o: o)
    if fault == "t_type_ndarray":
        return np.asarray(first(X).to_array().values if isinstance(first(X), xr.Dataset) else first(X).values)
    if fault == "t_missing_feature_dim":
        return _map(X, lambda o: o.isel(lon=0, drop=True) if "lon" in o.dims else o.isel({o.dims[-1]: 0}, drop=True), only_first=True)
    if fault == "t_missing_feature_dim_scalar_coord":
        # X.isel(lon=0) / X.sel(lon=v) without drop=True: the dimension is gone, a scalar coordinate of that name stays
        return _map(X, lambda o: o.isel(lon=0) if "lon" in o.dims else o.isel({o.dims[-1]: 0}), only_first=True)
    if fault == "t_variable_missing_feature_dim_extra_var":
        # a Dataset with an additional variable (a valid call) in FRONT of a fitted variable that has lost a dimension
        return xr.Dataset({"aaa_extra": X["va"] * 2.0, "va": X["va"].isel(lon=0, drop=True), **{v: X[v] for v in X.data_vars if v != "va"}})
    if fault == "t_missing_sample_dim":
        return _map(X, lambda o: o.isel(time=0, drop=True))
    if fault == "t_extra_dim":
        return _map(X, lambda o: o.expand_dims(extra=[0, 1]), only_first=True)
    if fault == "t_renamed_dim":
        return _map(X, lambda o: o.rename({"lat": "latitude2"}) if "lat" in o.dims else o.rename({o.dims[-1]: "other"}), only_first=True)
    if fault == "t_shifted_coords":
        return _map(X, lambda o: o.assign_coords(lon=o.lon + 1000) if "lon" in o.dims else o.assign_coords({o.dims[-1]: o[o.dims[-1]] + 1000}), only_first=True)
    if fault == "t_reordered_other_values":
        def f(o):
            d = "lon" if "lon" in o.dims else o.dims[-1]
            return o.assign_coords({d: o[d].values[::-1] * 2 + 1})
        return _map(X, f, only_first=True)
    if fault == "t_reordered_same_labels":
        # the same SET of labels attached to the positions in reverse order (values stay where they are):
        # the coordinates differ from the fitted ones although a set comparison would call them equal
        def g(o):
            d = "lat" if "lat" in o.dims else o.dims[-1]
            return o.assign_coords({d: o[d].values[::-1]})
        return _map(X, g, only_first=True)
    if fault == "t_fewer_features":
        return _map(X, lambda o: o.isel(lon=slice(0, 2)) if "lon" in o.dims else o.isel({o.dims[-1]: slice(0, 2)}), only_first=True)
    if fault == "t_dropped_variable":
        return X.drop_vars("vb")
    if fault == "t_variable_missing_feature_dim":
        # the Dataset still has every fitted dimension, one of its variables has lost one (e.g. after .sel(lon=..))
        return X.assign(va=X["va"].isel(lon=0, drop=True))
    if fault == "t_wrong_list_length":
        return X[:1]
    if fault == "t_list_too_long":
        return list(X) + [X[0]]
    if fault == "t_list_for_single":
        return [X, X.isel(lon=0, drop=True) if "lon" in X.dims else X]
    if fault == "t_dataarray_for_dataset":
        return X["va"]
    raise KeyError(fault)


def run_case(case, obs):
    import pandas as pd
    import xarray as xr

    cls, container, fault = case["cls"], case["container"], case["fault"]
    k = zoo.kind(cls)
    rot = k in ("single_rot", "cross_rot")
    cross = k in ("cross", "cross_rot")
    multi = k == "multi"
    base = (zoo.SINGLE_ROT.get(cls) or (zoo.CROSS_ROT[cls][0] if cls in zoo.CROSS_ROT else cls))
    entry = "control" if fault.startswith("c_") else ("transform" if fault.startswith("t_") else ("inverse" if fault.startswith("i_") else "fit"))
    obs.tag(cls=cls, container=container, fault=fault, entry=entry)
    obs.cell(f"cls:{cls}", f"entry:{entry}", f"fault:{fault}", f"container:{container}")
    rng = gen.rng_for(case["dseed"], 17)
    cplx = base in zoo.COMPLEX_INPUT_OK
    n = 16
    X = _container(rng, container, n, cplx)
    Y = _container(rng, container, n, cplx, second=True) if (cross or multi) else None
    Z = _field(rng, n, (3,), ("z",)) if multi else None
    kw = zoo.default_kwargs(base, n_modes=2)
    rot_kw = {"n_modes": 2}

    def data():
        if multi:
            return [X, Y, Z]
        return [X, Y] if cross else [X]

    def do_fit(d, kw_=None, rot_kw_=None, dim="time", weights=None):
        with warnings.catch_warnings():
            warnings.simplefilter("ignore")
            if rot:
                return zoo.fit(cls, d, dim, kw_ or kw, rot_kw=rot_kw_ or rot_kw, weights=weights)
            return zoo.fit(base, d, dim, kw_ or kw, weights=weights)

    # ---- the valid call must work, otherwise the mutated call isolates nothing -------------------
    try:
        f0 = do_fit(data())
        if entry == "transform" or fault in ("c_extra_variable", "c_dataset_wrapping_dataarray"):
            f0.transform(*data())
        if entry == "inverse" or fault == "c_scores_extra_dim":
            f0.inverse_transform(*f0.scores())
    except Exception as e:  # noqa: BLE001
        obs.refuse(f"valid baseline call fails ({type(e).__name__}: {str(e)[:120]}) -- judged by C03/C04, not here")
    obs.count("baseline_calls_ok")
    obs.nontrivial = True

    # ---- the mutated call -------------------------------------------------------------------------
    def attempt(fn):
        obs.count("mutated_calls")
        try:
            with warnings.catch_warnings():
                warnings.simplefilter("ignore")
                res = fn()
        except Exception as e:  # noqa: BLE001  (a refusal of any type is what the property demands)
            obs.note("refused_with", type(e).__name__)
            obs.cell(f"exc:{type(e).__name__}")
            return None, e
        return res, None

    def expect_refusal(fn, what):
        res, exc = attempt(fn)
        obs.check(
            "malformed_call_refused",
            exc is not None,
            f"{cls}.{entry} returned {type(res).__name__} for a call with fault '{fault}' ({what})",
            tags={"symptom": "malformed_call_answered"},
        )

    if entry == "control":
        # valid calls: never judged
        if fault == "c_alpha_gt1":
            attempt(lambda: do_fit(data(), dict(kw, alpha=1.5)))
        elif fault == "c_dataset_wrapping_dataarray":
            d = data()
            attempt(lambda: f0.transform(*([xr.Dataset({"va": d[0]})] + d[1:])))
        elif fault == "c_extra_variable":
            attempt(lambda: f0.transform(*[d.assign(extra=d["va"] * 2) if isinstance(d, xr.Dataset) else d for d in data()]))
        else:
            attempt(lambda: f0.inverse_transform(*[s.expand_dims(member=[0, 1]) for s in f0.scores()]))
        obs.count("negative_controls_run")
        obs.n_checks += 1
        return

    if entry == "fit":
        d = data()
        first = d[0][0] if isinstance(d[0], list) else d[0]
        arr = np.asarray(first.to_array().values if isinstance(first, xr.Dataset) else first.values)
        if fault == "type_ndarray":
            expect_refusal(lambda: do_fit([arr] + d[1:]), "numpy array as input")
        elif fault == "type_list_ndarray":
            expect_refusal(lambda: do_fit([[arr, arr]] + d[1:]), "list of numpy arrays as input")
        elif fault == "type_dataframe":
            expect_refusal(lambda: do_fit([pd.DataFrame(arr.reshape(arr.shape[0] if arr.ndim < 4 else arr.shape[1], -1))] + d[1:]), "DataFrame as input")
        elif fault == "type_none":
            expect_refusal(lambda: do_fit([None] + d[1:]), "None as input")
        elif fault == "type_int":
            expect_refusal(lambda: do_fit([3] + d[1:]), "int as input")
        elif fault == "dim_unknown":
            expect_refusal(lambda: do_fit(d, dim="no_such_dim"), "unknown sample dimension")
        elif fault == "dim_partly_unknown":
            expect_refusal(lambda: do_fit(d, dim=("time", "no_such_dim")), "one existing and one unknown sample dimension")
        elif fault == "dim_partly_unknown_nocenter":
            # without centring / standardising nothing in the scaler reduces over the sample dimensions,
            # so a later stage has to notice the unknown name
            expect_refusal(lambda: do_fit(d, dict(kw, center=False), dim=("time", "no_such_dim")), "one existing and one unknown sample dimension, center=False")
        elif fault == "dim_empty":
            expect_refusal(lambda: do_fit(d, dim=()), "empty sample dimensions")
        elif fault == "dim_all":
            alld = tuple(first.dims)
            expect_refusal(lambda: do_fit(d, dim=alld), "all dimensions declared as sample dimensions")
        elif fault == "dim_nonstring":
            expect_refusal(lambda: do_fit(d, dim=0), "non-string sample dimension")
        elif fault == "nmodes_rank_plus1":
            # one more than min(n_samples, n_features) of the first field
            p0 = int(np.prod([first.sizes[x] for x in first.dims if x != "time"])) * (len(first.data_vars) if isinstance(first, xr.Dataset) else 1)
            if isinstance(d[0], list):
                p0 = sum(int(np.prod([o.sizes[x] for x in o.dims if x != "time"])) for o in d[0])
            bad = min(n, p0) + 1
            extra = {"n_pca_modes": bad} if base == "OPA" else {}
            expect_refusal(lambda: (lambda f: (f.scores(), f.components()))(do_fit(d, dict(kw, n_modes=bad, **extra))), f"n_modes={bad} = rank+1")
        elif fault == "nmodes_gt_rank_square":
            # square decomposed matrix (n_samples == n_features) and the exact solver: an SVD that is truncated
            # afterwards would silently return fewer modes than requested
            sq = [_field(rng, n, (4, 4), ("lat", "lon"), cplx)] + ([_field(rng, n, (4, 4), ("lat", "lon"), cplx)] if (cross or multi) else []) + ([Z] if multi else [])
            extra = {"n_pca_modes": n + 1} if base == "OPA" else {}
            if cross:
                extra["use_pca"] = False
            expect_refusal(lambda: (lambda f: (f.scores(), f.components()))(do_fit(sq, dict(kw, n_modes=n + 1, solver="full", **extra) if not multi else dict(kw, n_modes=n + 1))), f"n_modes={n + 1} > rank of a square {n}x{n} problem")
        elif fault == "nmodes_gt_rank":
            expect_refusal(lambda: do_fit(d, dict(kw, n_modes=200, **({"n_pca_modes": 200} if base in ("OPA",) else {}))), "more modes than the rank")
        elif fault.startswith("nmodes_"):
            bad = {"nmodes_zero": 0, "nmodes_negative": -2, "nmodes_string": "two", "nmodes_none": None, "nmodes_float_gt1": 1.5}[fault]
            if rot:
                expect_refusal(lambda: (lambda f: (f.scores(), f.components()))(do_fit(d, rot_kw_=dict(rot_kw, n_modes=bad))), f"rotator n_modes={bad!r}")
            else:
                expect_refusal(lambda: (lambda f: (f.scores(), f.components()))(do_fit(d, dict(kw, n_modes=bad))), f"n_modes={bad!r}")
        elif fault == "solver_unknown":
            expect_refusal(lambda: do_fit(d, dict(kw, solver="no_such_solver")), "unknown solver name")
        elif fault == "solver_unknown_dask":
            # the same malformed option on chunked (dask-backed) input: the solver dispatch has a branch of its own there
            dd = [_map(x, lambda o: o.chunk({"time": 10})) for x in d]
            for bad in ("no_such_solver", "Full"):
                expect_refusal(lambda bad=bad: (lambda f: (f.scores()[0].compute(), f.components()))(do_fit(dd, dict(kw, solver=bad))), f"unknown solver name {bad!r} with dask input")
        elif fault == "alpha_negative":
            expect_refusal(lambda: do_fit(d, dict(kw, alpha=-0.5)), "negative alpha")
        elif fault == "samples_mismatch":
            d2 = list(d)
            d2[1] = _map(d2[1], lambda o: o.isel(time=slice(0, n - 3)))
            expect_refusal(lambda: do_fit(d2), "fields with different sample counts")
        elif fault == "npca_gt_rank":
            # integer n_pca_modes above the rank of the field(s): scalar, and per-field list for cross-set models
            expect_refusal(lambda: (lambda f: (f.scores(), f.components()))(do_fit(d, dict(kw, n_pca_modes=200, **({"use_pca": True} if (cross or base == "POP") else {})))), "n_pca_modes=200 > rank")
            if cross:
                expect_refusal(lambda: (lambda f: (f.scores(), f.components()))(do_fit(d, dict(kw, n_pca_modes=[2, 200], use_pca=True))), "n_pca_modes=[2, 200]: second field above its rank")
        elif fault == "weights_ndarray":
            expect_refusal(lambda: do_fit(d, weights=[np.ones(3)] * len(d)), "numpy weights")
        return

    if entry == "transform":
        d = data()
        mut = _mutate_transform(fault, d[0], rng)
        expect_refusal(lambda: f0.transform(*([mut] + d[1:])), "first field mutated")
        if cross and fault in ("t_missing_feature_dim", "t_shifted_coords", "t_fewer_features") and container == "dataarray":
            mut2 = _mutate_transform(fault, d[1], rng)
            res, exc = attempt(lambda: f0.transform(d[0], mut2))
            obs.check("malformed_call_refused", exc is not None, f"{cls}.transform answered with fault '{fault}' in the second field", tags={"symptom": "malformed_call_answered", "field": "Y"})
        return

    if entry == "inverse":
        sc = f0.scores()
        if fault == "i_unknown_mode":
            bad = [s.isel(mode=[0]).assign_coords(mode=[99]) for s in sc]
        elif fault == "i_unknown_modes_mixed":
            bad = [s.assign_coords(mode=[1] + [50 + i for i in range(s.sizes["mode"] - 1)]) for s in sc]
        else:
            bad = [np.asarray(s.values) for s in sc]
        expect_refusal(lambda: f0.inverse_transform(*bad), "scores naming modes the model does not have" if fault != "i_type_ndarray" else "numpy scores")
