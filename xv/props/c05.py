"""C05 -- out-of-sample transform is a per-sample map labelled by the new data.

Per fitted transform-capable model and generated new data set Z (same feature layout):
 (a) the result is labelled with Z's own sample coordinates (entirely missing samples may be absent / NaN),
 (b) no NaN where Z has data,
 (c) transform(concat(A, B)) == concat(transform(A), transform(B)) for every split point of small Z
     (n <= 8 along the split dim: exhaustive; random split points otherwise; each sample dim of a 2-d grid),
 (d) transform(X_fit[idx]) == scores()[idx] for single samples, sorted / unsorted subsets, repeated picks.
Everything is a relation between executions of the real code; rows are matched BY LABEL with the labels the
workload builder assigned (repeated labels: by order of occurrence).
"""
import numpy as np

from .. import gen
from . import c04_common as cc

LEVEL = "exploration"
ZKINDS = (
    "one", "few_disjoint", "few_overlap", "equal", "repeated", "many_disjoint", "nan_s",
    "2d", "mi", "mi_transform_only", "mi_fit_only", "2d_nan_s", "mi_nan_s",
)  # fmt: skip
REFUSAL_OK = ("mi_fit_only",)  # measured: MultiIndex only at transform is projected and labelled correctly by every class
RULE = (
    "structured corpus = every transform-capable class x every new-data class (1 sample; 2-8 disjoint; overlapping; "
    "equal to training; repeated labels; more samples than training; entirely missing samples; two sample dims of other "
    "sizes; sample MultiIndex with other level values; MultiIndex only at fit / only at transform; missing samples on a "
    "stacked sample axis) with the C04 configuration (alpha, use_pca, power, container, index kind) cycled; seeded random "
    "part draws all of these.  Split points are exhaustive for <= 8 samples along the split dim.  A case is non-trivial "
    "when at least one split or subset comparison over >= 2 modes was evaluated; distinct = distinct canonical case record"
)
ASSUMPTIONS = [
    "labels of the generated inputs are the ground truth for matching rows; repeated labels are matched by order of occurrence",
    "new data share the feature layout of the training data incl. the positions of entirely missing features",
    "fit with a MultiIndex / transform with a plain index on the same dim may be refused by the code: an exception there is 'refused', any returned result is checked (the converse - a MultiIndex only on the new data - must work)",
    "cross-set inputs have their entirely missing samples at the same positions in both fields",
]
EXHAUSTIVE = {"quick": False, "thorough": False}
BY_CLS = {}
for _c in cc.CONFIGS:
    BY_CLS.setdefault(_c["cls"], []).append(_c)
INDEX_KINDS = ("1d:int", "1d:unsorted", "1d:str", "1d:datetime")


def required(tier):
    cells = [f"cls:{c}" for c in cc.CLASSES] + [f"z:{z}" for z in ZKINDS] + [f"container:{k}" for k in cc.CONTAINERS]
    cells += [f"layout:{k}" for k in cc.LAYOUTS] + ["normalized:True", "normalized:False", "splits:exhaustive", "splits:random"]
    cells += [f"subset:{k}" for k in ("single", "sorted", "unsorted", "repeated", "grid")] + ["empty_element+repeated_labels", "xy_different_samples"]
    return {"mon": ["value_comparisons", "finite_checks", "split_comparisons", "subset_comparisons"], "cover": cells}


def train_layout(zkind, rng, i=None):
    if zkind in ("2d", "2d_nan_s"):
        return "2d"
    if zkind in ("mi", "mi_nan_s", "mi_fit_only"):
        return "mi"
    if zkind == "mi_transform_only":
        return "1d:int"
    return INDEX_KINDS[i % 4] if i is not None else str(rng.choice(INDEX_KINDS))


def draw(cfg, zkind, rng, i=None):
    layout = train_layout(zkind, rng, i)
    container = None if i is None else [cc.CONTAINERS[i % 5], cc.CONTAINERS[(i // 5 + 1) % 5], cc.CONTAINERS[(i + 2) % 5]]
    if i is None:
        nan = str(rng.choice(["none", "f", "s", "sf"], p=[0.45, 0.25, 0.15, 0.15]))
    else:
        nan = ("none", "f", "s", "none")[i % 4]
        if layout in cc.STACKED:
            nan = "none" if nan == "s" else nan
    case = cc.draw_case(cfg, rng, container=container, layout=layout, nan=nan, wide=None if i is None else bool(i % 4 == 3))
    case["zkind"] = zkind
    case["normalized"] = bool(rng.random() < 0.5) if i is None else bool(i % 2)
    case["zseed"] = int(rng.integers(0, 2**31 - 1))
    return case


def cases(tier, seed):
    out = []
    i = 0
    for ci, cls in enumerate(cc.CLASSES):
        for zi, zkind in enumerate(ZKINDS):
            cfgs = BY_CLS[cls]
            cfg = cfgs[(zi * 7 + ci * 3 + 3) % len(cfgs)]
            out.append(draw(cfg, zkind, gen.rng_for(5005, i), i))
            i += 1
    # dedicated: a list whose first DataArray is missing throughout x repeated sample labels (found by the thorough tier)
    for j, cell in enumerate(("EOF", "MCA|pca=0")):
        cfg = next(c for c in cc.CONFIGS if c["cell"] == cell)
        case = draw(cfg, "repeated", gen.rng_for(5005, 9000 + j), 4 + 5 * j)  # i % 5 == 4 -> first container is a list
        f0 = case["fields"][0]
        assert f0["kind"] == "list"
        f0["nan_cols"], f0["nf_nan"] = list(range(f0["q"])), f0["q"]
        case["nan"] = "f"
        out.append(case)
    nrand = 100 if tier == "quick" else 5000
    pz = np.array([1.0 if z not in ("2d_nan_s", "mi_nan_s") + REFUSAL_OK else 0.4 for z in ZKINDS])
    pz = pz / pz.sum()
    pc = np.array([0.4 if c in cc.CROSS_ROTATORS else 0.3 if c == "multi.CCA" else 1.0 for c in cc.CLASSES])
    pc = pc / pc.sum()
    for j in range(nrand):
        rng = gen.rng_for(seed, 5, j)
        cls = str(rng.choice(cc.CLASSES, p=pc))
        cfg = BY_CLS[cls][int(rng.integers(0, len(BY_CLS[cls])))]
        out.append(draw(cfg, str(rng.choice(ZKINDS, p=pz)), rng))
    return out


# --------------------------------------------------------------------------------------
def new_ids(case, lay_tr, rng):
    """(layout name of Z, ids per sample dim, number of entirely missing samples)."""
    z = case["zkind"]
    n = int(np.prod(lay_tr["sizes"]))
    tr_ids = list(range(n))
    fresh = lambda m: [int(v) for v in 100 + rng.choice(60, size=m, replace=False)]  # noqa: E731

    def mixed(m):
        a = max(1, m // 2)
        ids = [int(v) for v in rng.choice(tr_ids, size=min(a, n), replace=False)] + fresh(m - min(a, n))
        return [ids[k] for k in rng.permutation(len(ids))]

    if z == "one":
        return case["layout"], [fresh(1)], 0
    if z == "few_disjoint":
        return case["layout"], [fresh(int(rng.integers(2, 9)))], 0
    if z == "few_overlap":
        return case["layout"], [mixed(int(rng.integers(3, 9)))], 0
    if z == "equal":
        return case["layout"], cc.train_ids(case, gen.rng_for(case["dseed"], 7)), 0
    if z == "repeated":
        m = int(rng.integers(4, 9))
        pool = mixed(max(2, m // 2))
        ids = [pool[k] for k in rng.integers(0, len(pool), size=m)]
        ids[-1] = ids[0]  # at least one repetition
        return case["layout"], [ids], 0
    if z == "many_disjoint":
        return case["layout"], [fresh(n + int(rng.integers(1, 11)))], 0
    if z == "nan_s":
        return case["layout"], [mixed(int(rng.integers(4, 10)))], int(rng.integers(1, 3))
    if z in ("2d", "2d_nan_s"):
        n1, n2 = lay_tr["sizes"]
        while True:
            m1, m2 = int(rng.integers(1, 6)), int(rng.integers(1, 6))
            if (m1, m2) != (n1, n2) and m1 * m2 >= 2:
                break
        if z == "2d_nan_s":
            m1, m2 = max(m1, 2), max(m2, 2)
        pick = lambda m, ntr: [int(v) for v in rng.permutation(list(range(ntr)) + list(range(100, 100 + m)))[:m]]  # noqa: E731
        return "2d", [pick(m1, n1), pick(m2, n2)], (1 if z == "2d_nan_s" else 0)
    if z in ("mi", "mi_nan_s"):
        m = int(rng.integers(2, 9)) if z == "mi" else int(rng.integers(3, 9))
        return "mi", [fresh(m) if rng.random() < 0.6 else mixed(m)], (1 if z == "mi_nan_s" else 0)
    if z == "mi_transform_only":
        return "mi", [fresh(int(rng.integers(2, 7)))], 0
    if z == "mi_fit_only":
        return "1d:int", [fresh(int(rng.integers(2, 7)))], 0
    raise ValueError(z)


def split_points(m, rng):
    if m <= 1:
        return [], True
    if m <= 8:
        return list(range(1, m)), True
    return sorted({int(v) for v in rng.integers(1, m, size=3)}), False


def subsets(case, lay, valid, rng):
    """[(kind, per-dim position lists)] of the training samples."""
    sizes = lay["sizes"]
    out = []
    if len(sizes) == 1:
        n = sizes[0]
        out.append(("single", [[int(rng.integers(0, n))]]))
        m = max(2, n // 2)
        out.append(("sorted", [sorted(int(v) for v in rng.choice(n, size=m, replace=False))]))
        out.append(("unsorted", [[int(v) for v in rng.choice(n, size=min(n, m + 1), replace=False)]]))
        rep = [int(v) for v in rng.integers(0, n, size=int(rng.integers(3, 8)))]
        rep[-1] = rep[0]
        out.append(("repeated", [rep]))
        if (~valid).any():
            miss = int(np.flatnonzero(~valid)[0])
            out.append(("sorted", [sorted({miss} | {int(v) for v in rng.choice(n, size=min(n, 3), replace=False)})]))
    else:
        n1, n2 = sizes
        out.append(("single", [[int(rng.integers(0, n1))], [int(rng.integers(0, n2))]]))
        a = [int(v) for v in rng.choice(n1, size=int(rng.integers(1, n1 + 1)), replace=False)]
        b = [int(v) for v in rng.choice(n2, size=int(rng.integers(1, n2 + 1)), replace=False)]
        out.append(("grid", [sorted(a), sorted(b)]))
        out.append(("grid", [a, b]))
    return out


def run_case(case, obs):
    z = case["zkind"]
    obs.tag(cls=case["cls"], op="transform")
    obs.cell(f"cls:{case['cls']}", f"z:{z}", f"layout:{case['layout']}", f"normalized:{case['normalized']}", f"cell:{case['cell']}")
    for f_ in case["fields"]:
        obs.cell(f"container:{f_['kind']}")
    tr = cc.build_training(case)
    fitted = cc.fit_model(case, tr, obs)
    lay = tr["lay"]
    sdims, keys, valid = lay["sdims"], lay["keys"], tr["valid"]
    nfld = len(case["fields"])
    tol = cc.TOL
    kw = {} if fitted.kind == "multi" else {"normalized": case["normalized"]}
    rng = gen.rng_for(case["zseed"], 11)
    stacked_tr = case["layout"] in cc.STACKED
    empty = cc.empty_element(case)

    def etags(nan_samples, stacked, key_list):
        """Facts delimiting exception mechanisms (only the two common ones are always present)."""
        t = {"nan_samples": bool(nan_samples), "stacked_samples": bool(stacked)}
        if len(set(key_list)) < len(key_list):
            t["repeated_labels"] = True
            if empty:
                obs.cell("empty_element+repeated_labels")
        if empty:
            t["empty_element"] = True
        return t

    # ---- reference: the model's own scores laid out on the training rows ------------------------------
    S = cc.guarded(obs, "scores", lambda: fitted.scores(**kw), tags={"op": "scores"})
    want, modes = [None] * nfld, [None] * nfld
    if S is not None and obs.check("scores_count", len(S) == nfld, f"{len(S)} score arrays for {nfld} fields", tags={"symptom": "result_count"}):
        for i, s in enumerate(S):
            want[i], modes[i] = cc.lay_on_rows(obs, "scores", s, sdims, keys, valid, {}, ctx={"field": i})

    def call(op, fields, tags, ctx):
        T = cc.guarded(obs, op, lambda: fitted.transform(*fields, **kw), tags=tags, ctx=ctx)
        if T is None:
            return None
        if not obs.check("transform_count", len(T) == nfld, f"{op}: {len(T)} results for {nfld} fields", tags=dict(tags, symptom="result_count")):
            return None
        return T

    # ---- (d) subsets of the training data -------------------------------------------------------------
    for kind, idx in subsets(case, lay, valid, rng):
        rows = cc.rows_of(lay, idx)
        if not valid[rows].any():
            continue
        obs.cell(f"subset:{kind}")
        sub = [cc.isel_field(f, dict(zip(sdims, idx))) for f in tr["fields"]]
        sub_keys = [keys[r] for r in rows]
        tags = etags((~valid[rows]).any(), stacked_tr, sub_keys)
        ctx = {"what": "subset", "subset": kind, "n": len(rows)}
        T = call("transform(subset)", sub, tags, ctx)
        if T is None:
            continue
        for i, t in enumerate(T):
            if want[i] is None:
                continue
            n0 = obs.mon.get("value_comparisons", 0)
            cc.compare(
                obs, "subset", t, sdims, sub_keys, want[i][rows], valid[rows], modes[i], tol, {"stacked_samples": stacked_tr},
                "subset_ne_scores", "labels_not_from_new_data", ctx=dict(ctx, field=i, **tags), vtags=cc.field_tags(case, i),
            )
            if obs.mon.get("value_comparisons", 0) > n0:
                obs.count("subset_comparisons")
                if want[i].shape[1] >= 2:
                    obs.nontrivial = True

    # ---- new data Z -----------------------------------------------------------------------------------
    zlayout, zids, z_nan = new_ids(case, lay, rng)
    zlay = cc.make_layout(zlayout, zids)
    zs, zk = zlay["sdims"], zlay["keys"]
    m = int(np.prod(zlay["sizes"]))
    z_nan = min(z_nan, m - 1)
    nan_rows = sorted(int(v) for v in rng.choice(m, size=z_nan, replace=False)) if z_nan else []
    zvalid = np.ones(m, dtype=bool)
    zvalid[nan_rows] = False
    Mz = cc.raw_matrices(case, m, rng, nan_rows)
    Z = [cc.make_field(M, zlay, f) for M, f in zip(Mz, case["fields"])]
    ztags = etags(z_nan, zlayout in cc.STACKED, zk)
    ctx = {"what": "new data", "zkind": z, "n": m}
    obs.note("z", {"layout": zlayout, "sizes": list(zlay["sizes"]), "missing": nan_rows})
    if z in REFUSAL_OK:
        # the index *kind* of the sample dim differs between fit and transform: the code may refuse
        try:
            import warnings

            with warnings.catch_warnings():
                warnings.simplefilter("ignore")
                T = fitted.transform(*Z, **kw)
        except Exception as e:  # noqa: BLE001
            if cc.exception_site(e, cc.REPO) is None:
                raise
            obs.count("refused_index_kind_change")
            obs.refuse(f"{z}: {type(e).__name__}: {str(e)[:120]}")
        if not obs.check("transform_count", len(T) == nfld, f"{len(T)} results for {nfld} fields", tags=dict(ztags, symptom="result_count")):
            T = None
    else:
        T = call("transform(new)", Z, ztags, ctx)
    if T is None:
        return
    onz, ok = [None] * nfld, True
    for i, t in enumerate(T):
        if modes[i] is None:
            ok = False
            continue
        # (a) labels of Z, (b) no NaN where Z has data
        oki, onz[i] = cc.compare(
            obs, "new", t, zs, zk, None, zvalid, modes[i], tol, {"stacked_samples": ztags["stacked_samples"]},
            "nan_where_data", "labels_not_from_new_data", ctx=dict(ctx, field=i, **ztags),
        )
        ok = ok and oki and onz[i] is not None
    if not ok:
        obs.count("splits_skipped_after_label_failure")
        return

    # ---- (c) concatenation ----------------------------------------------------------------------------
    for ax, d in enumerate(zs):
        size = zlay["sizes"][ax]
        pts, exhaustive = split_points(size, rng)
        if pts:
            obs.cell("splits:exhaustive" if exhaustive else "splits:random")
        for sp in pts:
            for part in (list(range(0, sp)), list(range(sp, size))):
                idx = [list(range(s_)) for s_ in zlay["sizes"]]
                idx[ax] = part
                rows = cc.rows_of(zlay, idx)
                if not zvalid[rows].any():
                    continue
                P = [cc.isel_field(f, {d: part}) for f in Z]
                ptags = etags((~zvalid[rows]).any(), ztags["stacked_samples"], [zk[r] for r in rows])
                pctx = dict(ctx, what="part", split_dim=d, split_at=sp, part_n=len(rows))
                TP = call("transform(part)", P, ptags, pctx)
                if TP is None:
                    continue
                for i, t in enumerate(TP):
                    n0 = obs.mon.get("value_comparisons", 0)
                    cc.compare(
                        obs, "part", t, zs, [zk[r] for r in rows], onz[i][rows], zvalid[rows], modes[i], tol,
                        {"stacked_samples": ztags["stacked_samples"]}, "not_additive_under_concat", "labels_not_from_new_data",
                        ctx=dict(pctx, field=i, **ptags), vtags=cc.field_tags(case, i),
                    )
                    if obs.mon.get("value_comparisons", 0) > n0:
                        obs.count("split_comparisons")
                        if onz[i].shape[1] >= 2:
                            obs.nontrivial = True


    # ---- (e) cross-set: X and Y of ONE call carry different sample sets ------------------------------------
    # each field's scores depend only on that field's samples: the X result must be labelled by X's samples
    # and the Y result by Y's, with the values of the separate transforms (never re-indexed onto each other)
    if nfld >= 2 and fitted.kind in ("cross", "cross_rot", "multi") and zlay["sizes"][0] >= 3 and not z_nan:
        size = zlay["sizes"][0]
        cut = max(1, size // 3)
        partA, partB = list(range(0, size - cut)), list(range(cut, size))[::-1]
        obs.cell("xy_different_samples")
        idxA = [list(range(s_)) for s_ in zlay["sizes"]]
        idxB = [list(range(s_)) for s_ in zlay["sizes"]]
        idxA[0], idxB[0] = partA, partB
        rowsA, rowsB = cc.rows_of(zlay, idxA), cc.rows_of(zlay, idxB)
        PX = cc.isel_field(Z[0], {zs[0]: partA})
        PYs = [cc.isel_field(Zi, {zs[0]: partB}) for Zi in Z[1:]]  # multi-set: every further view on B
        xtags = etags(False, ztags["stacked_samples"], [zk[r] for r in rowsA])
        xctx = dict(ctx, what="xy_different_samples")
        TXY = call("transform(X on A, Y on B)", [PX] + PYs, xtags, xctx)
        if TXY is not None:
            for i, (t, rows) in enumerate(zip(TXY, [rowsA] + [rowsB] * len(PYs))):
                cc.compare(
                    obs, "xy_diff", t, zs, [zk[r] for r in rows], onz[i][rows], zvalid[rows], modes[i], tol,
                    {"stacked_samples": ztags["stacked_samples"]}, "field_depends_on_other_fields_samples", "labels_not_from_new_data",
                    ctx=dict(xctx, field=i, **xtags), vtags=cc.field_tags(case, i),
                )
            obs.count("xy_different_samples_comparisons")


def evidence_extra(results, extras):
    by = {}
    for r in results:
        k = f"{r['case']['zkind']}:{r['status']}"
        by[k] = by.get(k, 0) + 1
    return {"status_by_new_data_class": dict(sorted(by.items()))}
