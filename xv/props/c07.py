"""C07 -- results do not depend on how the same data is laid out or named.

Relation monitor between two executions of the real code: a *base* fit and a
fit of a re-laid-out copy of the same numbers (same configuration,
``solver="full"`` / exact back-ends only).  The copy differs from the base by
one transformation (structured corpus) or by a composition of several (random
part):

* ``transpose``   -- other order of the dimensions (per Dataset variable / list item; "aligned" = the
                     sample dimension(s) keep one common arrangement in all pieces and fields, "mixed" =
                     every piece / field is transposed on its own),
* ``featperm``    -- other order of the feature labels (coordinate labels move with the values; for
                     Datasets/lists also the order of the variables / items),
* ``sampleperm``  -- other order of the samples (labels move with the values),
* ``split_ds`` / ``split_list`` -- the feature axis ``v`` of a DataArray X(t, v, lat[, lon]) is
                     partitioned into Dataset variables or list items (a true partition, no NaN padding;
                     list items may keep a ``v`` axis of length >= 1),
* ``naming``      -- non-default ``sample_name`` / ``feature_name`` (8 kinds: "s"/"f", arbitrary, exotic
                     (blank, unicode, punctuation), names of user dims, swapped "feature"/"sample", only
                     one of the two, names of the internal positional dims "dimN").

Everything the two fits return is read back BY LABEL into one canonical array
layout and must agree to 1e-9 relative: the mode spectra, the components at
each label, the scores and transform(training data) at each sample label (so a
sample permutation must permute the scores identically and change nothing
else; with one sample dimension the scores must also come back in the
presented order).  Real-valued decompositions are compared without any
alignment (sign included); complex-valued ones after ONE unit-modulus phase
per mode, estimated from the components and applied to components *and*
scores (DESIGN section 4); amplitudes are compared without alignment.

Uniqueness guard (never a verdict): the base fit is asked for one mode more
than is compared and the case is ``ambiguous`` when the reported spectrum has a
relative gap < 1e-3, when the sign convention is tied, when a non-exact SVD
back-end ran (M-BACK events of xv.mon) or when the rotation refuses to converge.

Violation tags: cls, op (+ parts for compositions), container, names_default /
naming, list_sample_axes_differ (a list input whose items carry the sample
dimension(s) at different axis positions), fields_sample_order_differ (two
sample dimensions whose relative order differs between the fields of a
cross-/multi-set model), symptom (exception + exc + site |
mode_sign_flip | spectrum_differs | components_differ | scores_differ |
*_amplitude_differs | transform_differ | result_structure | score_order).
"""
import inspect
import warnings

import numpy as np

from .. import gen, mon, zoo
from ..boot import REPO
from ..obs import exception_site
from . import c07_bands

LEVEL = "exploration"
RULE = (
    "structured corpus = every model class x every applicable transformation (transpose, featperm, sampleperm, "
    "split_ds, split_list, naming[8 kinds]) x base container (DataArray/Dataset/list) with seed-independent data; "
    "random part = seeded draws of class, transformation or a composition of 2-4 of them, shapes n=12..40, "
    "p=4..36, real/complex input, standardize/coslat, class configuration (alpha, use_pca, rotation power, base "
    "class of a rotator, EEOF/POP/OPA PCA truncation). A case is non-trivial when the re-laid-out copy really "
    "differs from the base (non-identity permutation / transposition / partition / non-default name); distinct = "
    "distinct canonical case record."
)
ASSUMPTIONS = [
    "both fits use exact SVD back-ends only (solver='full'; inner PCA steps that hard-code solver='auto' are given "
    "n_pca_modes > 0.8*min(n,p) so that they take the exact branch); a case in which any other back-end ran is "
    "reported ambiguous, not decided",
    "individual modes are only compared when the base fit's reported spectrum (one mode more than compared) has "
    "relative gaps >= 1e-3 and the sign convention is not tied (|max| vs |min| loading differ by > 1e-6 relative)",
    "complex-valued decompositions (Complex*/Hilbert* classes on complex results, POP) are unique up to one "
    "unit-modulus factor per mode shared by component and score; that factor is estimated from the components "
    "and removed before comparing; amplitudes are compared without alignment",
    "POP (eigenvectors of a non-normal matrix) is only compared when eps*cond(eigenvector basis)*cond(regression)/gap "
    "is below 1e-11; otherwise the case is ambiguous",
    "POP modes of equal norm (conjugate pairs) are put in a canonical order (positive imaginary eigenvalue first) "
    "before comparison because the code orders them by an argsort over tied norms",
    "sample permutation is not asserted for ExtendedEOF, OPA, POP, Hilbert variants (statement) nor for "
    "EOFBootstrapper (resampling draws positions from a seeded generator, so a permuted input legitimately "
    "produces another bootstrap realisation); multi.CCA has no sample_name/feature_name parameters",
    "X and Y of cross-set models receive the same sample permutation (samples are paired by position)",
]
EXHAUSTIVE = {"quick": False, "thorough": False}

TOL = 1e-9
GAP = 1e-3

CLASSES = tuple(zoo.SINGLE) + tuple(zoo.SINGLE_ROT) + tuple(zoo.CROSS) + tuple(zoo.CROSS_ROT) + tuple(zoo.MULTI) + ("EOFBootstrapper",)
OPS = ("transpose", "featperm", "sampleperm", "split_ds", "split_list", "naming", "itemperm")
# itemperm: ONE item of a list input stores the (shared) sample labels in another order than the other
# items -- the same data by label; the pieces must be aligned on their labels, not glued by position
NAMING_KINDS = ("sf", "arb", "exotic", "userdim", "swap", "s_only", "f_only", "dimn")
SAMPLEPERM_EXEMPT = set(zoo.ORDER_DEPENDENT) | {"EOFBootstrapper"}
NO_NAME_PARAMS = {"multi.CCA"}
COMPLEX_FAMILY = (
    {"ComplexEOF", "HilbertEOF", "ComplexEOFRotator", "HilbertEOFRotator", "POP"}
    | {c for c in zoo.CROSS if c.startswith(("Complex", "Hilbert"))}
    | {c for c in zoo.CROSS_ROT if c.startswith(("Complex", "Hilbert"))}
)


def applicable(cls, op):
    if op == "sampleperm" and cls in SAMPLEPERM_EXEMPT:
        return False
    if op == "naming" and cls in NO_NAME_PARAMS:
        return False
    if op == "itemperm" and cls in SAMPLEPERM_EXEMPT:
        return False
    return True


def group_of(cls):
    k = zoo.kind(cls)
    if k in ("cross", "cross_rot"):
        return "cross"
    if k == "multi":
        return "multi"
    if k == "boot":
        return "boot"
    if cls in ("OPA", "POP"):
        return "ar_small"
    if cls == "ExtendedEOF":
        return "eeof"
    return "eof"


def setup(tier):
    mon.install_decomposer()
    mon.install_svd()


def required(tier):
    cover = [f"cls:{c}" for c in CLASSES]
    for c in CLASSES:
        for op in OPS:
            if applicable(c, op):
                cover.append(f"cell:{c}:{op}")
    cover += [f"naming:{k}" for k in NAMING_KINDS]
    cover += ["container:da", "container:ds", "container:list", "cplx:True", "sdims:2", "op:combo", "aligned:phase", "aligned:none"]
    cover += ["input:list_sample_axes_differ", "input:fields_sample_order_differ"]
    cover += [f"bands:{c}:std{int(st)}cos{int(cl)}" for c in c07_bands.CLASSES for st, cl in c07_bands.FLAGS]
    cover += ["bands:weights"] + [f"sdims_nan:{c}" for c in c07_bands.SDIM_CLASSES]
    return {"mon": ["backend:svd", "relation:compared", "relation:transform", "relation:lat_bands", "relation:reversed_lat_with_weights", "relation:sdims_nan"], "cover": cover, "max_refused_share": 0.2}


# ----------------------------------------------------------------------------
# case generation (numpy only)
# ----------------------------------------------------------------------------
def _shape(rng, small):
    """[nv, nlat, nlon]; nlon == 0 means there is no lon dimension."""
    if small:
        opts = [(2, 2, 0), (2, 3, 0), (3, 2, 0), (2, 2, 2), (2, 4, 0), (4, 2, 0), (2, 2, 1)]
    else:
        opts = [(2, 2, 0), (2, 3, 0), (3, 2, 0), (2, 2, 2), (2, 4, 0), (3, 3, 0), (2, 3, 2), (3, 2, 2), (3, 4, 0), (2, 4, 3), (3, 3, 3), (4, 3, 3), (2, 5, 1)]
    return [int(x) for x in opts[int(rng.integers(0, len(opts)))]]


def _p(shape):
    return shape[0] * shape[1] * max(shape[2], 1)


ROTATORS = tuple(zoo.SINGLE_ROT) + tuple(zoo.CROSS_ROT)
# random part: rotators cost 3-10x a plain fit (their fit serialises the whole model), so they are drawn less often
_W = np.array([0.35 if c in ROTATORS else 1.0 for c in CLASSES])
_W = _W / _W.sum()


def _draw(rng, cls=None, op=None, sub=None, container=None, tmode=None, nrep=None, allow_combo=True):
    cls = cls or str(rng.choice(CLASSES, p=_W))
    grp = group_of(cls)
    rot = cls in ROTATORS
    if op is None:
        ok = [o for o in OPS if applicable(cls, o)]
        if allow_combo and rng.random() < 0.45:
            m = int(rng.integers(2, min(4, len(ok)) + 1))
            parts = sorted(str(x) for x in rng.choice(ok, size=m, replace=False))
            if "split_ds" in parts and "split_list" in parts:
                parts.remove("split_ds" if rng.random() < 0.5 else "split_list")
            op = "combo" if len(parts) > 1 else parts[0]
        else:
            parts = [str(rng.choice(ok))]
            op = parts[0]
    else:
        parts = [op]
    splitting = any(x.startswith("split") for x in parts)
    if container is None:
        container = "da" if splitting else str(rng.choice(["da", "ds", "list"], p=[0.5, 0.25, 0.25]))
    if splitting:
        container = "da"
    if "itemperm" in parts:
        if "split_ds" in parts:
            parts.remove("itemperm")
            op = "combo" if len(parts) > 1 else parts[0]
        elif not splitting:
            container = "list"
    c = dict(cls=cls, op=op, parts=parts, container=container)
    if "naming" in parts:
        c["naming"] = sub or str(rng.choice(NAMING_KINDS))
    else:
        c["naming"] = None
    # "aligned": all pieces / fields keep one common arrangement of the sample dimension(s);
    # "mixed": every Dataset variable / list item / field is transposed on its own
    c["tmode"] = (tmode or str(rng.choice(["aligned", "mixed"], p=[0.7, 0.3]))) if "transpose" in parts else None
    # ---- shapes --------------------------------------------------------------
    if grp == "cross":
        shapes = [_shape(rng, True), _shape(rng, True)]
        if rot:
            shapes = [[2, int(rng.integers(2, 4)), 0], [2, 2, int(rng.integers(0, 3))]]
        # the whitened cross-covariance must not be degenerate: fewer features than sample degrees of freedom
        # (an analytic signal of n real samples only spans ~n/2 complex dimensions)
        lo = sum(_p(s) for s in shapes) * (2 if cls.startswith("Hilbert") else 1) + 8
        n = int(rng.integers(lo, max(lo + 6, 41)))
    elif grp == "multi":
        nviews = int(rng.integers(2, 4))
        shapes = [[2, int(rng.integers(2, 4)), 0] for _ in range(nviews)]
        n = int(rng.integers(sum(_p(s) for s in shapes) + 12, 48))
    elif grp == "boot":
        shapes = [[2, int(rng.integers(2, 4)), 0]]
        n = int(rng.integers(14, 30))
    elif grp == "ar_small":
        shapes = [_shape(rng, True)]
        n = int(rng.integers(24, 48))
    elif grp == "eeof":
        shapes = [_shape(rng, rng.random() < 0.5)]
        n = int(rng.integers(16, 36))
    else:
        shapes = [_shape(rng, rot)]
        n = int(rng.integers(12, 32))
    c["shapes"] = shapes
    c["n"] = n
    # a second sample dimension only where neither the method nor the resampling depends on the sample order
    c["nrep"] = 0
    two = rng.random() < 0.25
    if cls not in SAMPLEPERM_EXEMPT and (two if nrep is None else nrep):
        c["nrep"] = 2
        c["n"] = int(np.ceil(n / 2))
    c["cplx"] = bool(cls in zoo.COMPLEX_INPUT_OK and rng.random() < 0.7)
    c["standardize"] = bool(grp in ("eof", "cross", "eeof", "ar_small", "boot") and rng.random() < 0.3)
    c["coslat"] = bool(rng.random() < 0.3)
    c["spec"] = str(rng.choice(["linear", "geometric"])) if grp in ("eof", "boot") else "linear"
    pmin = min(_p(s) for s in shapes)
    c["K"] = int(rng.integers(1, min(3, pmin - 1) + 1))
    cfg = {}
    k = zoo.kind(cls)
    if k in ("cross", "cross_rot"):
        base = cls if k == "cross" else str(rng.choice(zoo.CROSS_ROT[cls]))
        cfg["base"] = base
        if base.endswith("CPCCA"):
            cfg["alpha"] = [float(rng.choice([0.0, 0.3, 0.5, 1.0])), float(rng.choice([0.0, 0.5, 0.8, 1.0]))]
        cfg["use_pca"] = bool(rng.random() < 0.7)
    if k in ("single_rot", "cross_rot"):
        cfg["power"] = int(rng.choice([1, 1, 2]))
    if cls == "ExtendedEOF":
        cfg["tau"] = int(rng.integers(1, 3))
        cfg["embedding"] = int(rng.integers(2, 4))
        cfg["n_pca"] = bool(rng.random() < 0.4)
    if cls in ("HilbertEOF", "HilbertEOFRotator") or cls.startswith("Hilbert"):
        cfg["padding"] = str(rng.choice(["exp", "none"]))
    if cls == "EOFBootstrapper":
        cfg["n_boot"] = 3
        cfg["bseed"] = int(rng.integers(0, 1000))
    c["cfg"] = cfg
    c["dseed"] = int(rng.integers(0, 2**31 - 1))
    c["pseed"] = int(rng.integers(0, 2**31 - 1))
    return c


# classes that get every naming kind already in the quick tier (probes showed hard-coded names in three of them)
FULL_NAMING = ("EOF", "ExtendedEOF", "OPA", "EOFBootstrapper", "CPCCA")


def cases(tier, seed):
    out = []
    i = 0
    thorough = True  # the structured corpus is the same in both tiers (a case costs ~0.5 s CPU)
    C3 = ("da", "ds", "list")
    # structured corpus (seed independent): every class x applicable transformation x container variants
    for ci, cls in enumerate(CLASSES):
        rot = cls in ROTATORS
        multi_field = group_of(cls) in ("cross", "multi")
        for op in OPS:
            if not applicable(cls, op):
                continue
            variants = []  # (sub, container, tmode, nrep)
            if op == "naming":
                subs = NAMING_KINDS if (thorough or cls in FULL_NAMING) else ("sf", NAMING_KINDS[1 + ci % 7])
                for si, sub in enumerate(subs):
                    variants.append((sub, "da" if (rot and not thorough) else C3[(ci + si) % 3], None, None))
            elif op.startswith("split"):
                variants.append((None, "da", None, None))
            elif op == "transpose":
                if rot and not thorough:
                    variants += [(None, "da", "aligned", None)]
                else:
                    variants += [(None, "da", "aligned", None), (None, "ds", "mixed", None), (None, "list", "aligned", None), (None, "list", "mixed", None)]
                if multi_field and (thorough or not rot):
                    variants += [(None, "da", "mixed", True)]  # X and Y with the two sample dimensions in different order
            elif op == "itemperm":
                variants += [(None, "list", None, None), (None, "list", None, True)]
            elif op == "featperm":
                conts = (C3[1 + ci % 2],) if (rot and not thorough) else C3
                variants += [(None, c, None, None) for c in conts]
            else:  # sampleperm
                conts = (("da",) if rot else (C3[ci % 3],)) if not thorough else C3
                variants += [(None, c, None, None) for c in conts]
            for sub, cont, tm, nrep in variants:
                out.append(_draw(gen.rng_for(7001, i), cls, op, sub, cont, tm, nrep))
                i += 1
    nrand = 240 if tier == "quick" else 6000
    for j in range(nrand):
        out.append(_draw(gen.rng_for(seed, 7, j)))
    out += c07_bands.cases(tier, seed)
    return out


# ----------------------------------------------------------------------------
# data
# ----------------------------------------------------------------------------
TLAB = lambda n: np.arange(n) * 3 + 1  # noqa: E731


def make_fields(case):
    """Canonical DataArrays (time[, rep], v, lat[, lon]) for every field of the case."""
    import xarray as xr

    rng = gen.rng_for(case["dseed"], 77)
    grp = group_of(case["cls"])
    nt = case["n"]
    nrep = case["nrep"]
    n = nt * max(nrep, 1)
    fields = []
    for shape in case["shapes"]:
        nv, nlat, nlon = shape
        p = _p(shape)
        if grp in ("ar_small", "eeof"):
            q = min(p, 6)
            phis = np.sort(rng.uniform(0.3, 0.95, size=q))[::-1]
            M = gen.ar1(n, p, phis, rng) + 0.3 * rng.standard_normal((n, p))
        else:
            r = min(n - 1, p)
            if case["spec"] == "geometric":
                r = min(r, 9)
            s = gen.spectrum(case["spec"], r, rng)
            M, _, _ = gen.low_rank(n, p, s, rng, cplx=case["cplx"], perp_ones=True)
            M = M * np.sqrt(n)
            if case["spec"] == "geometric":
                noise = rng.standard_normal((n, p))
                if case["cplx"]:
                    noise = noise + 1j * rng.standard_normal((n, p))
                M = M + 1e-3 * noise
        off = rng.standard_normal(p)
        M = (M + off) * (0.5 + rng.random(p) if case["standardize"] else 1.0)
        sdims = ["time"] + (["rep"] if nrep else [])
        fdims = ["v", "lat"] + (["lon"] if nlon else [])
        sizes = [nt] + ([nrep] if nrep else []) + [nv, nlat] + ([nlon] if nlon else [])
        coords = {"time": TLAB(nt), "v": np.array([f"k{j}" for j in range(nv)]), "lat": np.linspace(-62.0, 71.0, nlat)}
        if nrep:
            coords["rep"] = np.arange(nrep) + 10
        if nlon:
            coords["lon"] = np.arange(nlon) * 15.0 + 2.5
        A = xr.DataArray(M.reshape(sizes), dims=sdims + fdims, coords=coords)
        fields.append(dict(da=A, sdims=sdims, fdims=fdims, nv=nv, nlat=nlat, nlon=nlon, nt=nt, nrep=nrep))
    return fields


# ----------------------------------------------------------------------------
# presentations
# ----------------------------------------------------------------------------
def _nonid_perm(rng, k):
    if k < 2:
        return list(range(k))
    while True:
        p = rng.permutation(k)
        if not np.array_equal(p, np.arange(k)):
            return [int(x) for x in p]


def _piece_dims(fld, g, squeeze):
    d = list(fld["sdims"])
    if not (len(g) == 1 and squeeze):
        d.append("v")
    d.append("lat")
    if fld["nlon"]:
        d.append("lon")
    return d


def base_presentation(fld, container):
    nv = fld["nv"]
    if container == "da":
        groups, squeeze = [list(range(nv))], False
    else:
        groups, squeeze = [[j] for j in range(nv)], True
    return dict(
        container=container,
        groups=groups,
        squeeze=squeeze,
        tperm=list(range(fld["nt"])),
        rperm=list(range(fld["nrep"])),
        latperm=list(range(fld["nlat"])),
        lonperm=list(range(fld["nlon"])),
        dimorders=[_piece_dims(fld, g, squeeze) for g in groups],
    )


def vary(pres, fld, parts, rng, shared):
    """Apply the transformations `parts` to a copy of the base presentation.  `shared` carries what
    must be common to all fields (the sample permutation)."""
    import copy

    q = copy.deepcopy(pres)
    changed = False
    if "split_ds" in parts or "split_list" in parts:
        nv = fld["nv"]
        if "split_ds" in parts:
            q["container"] = "ds"
            q["groups"] = [[j] for j in range(nv)]
            q["squeeze"] = True
        else:
            q["container"] = "list"
            if nv > 2 and rng.random() < 0.5:
                cut = int(rng.integers(1, nv))
                q["groups"] = [list(range(cut)), list(range(cut, nv))]
            else:
                q["groups"] = [[j] for j in range(nv)]
            q["squeeze"] = bool(rng.random() < 0.7)
        q["dimorders"] = [_piece_dims(fld, g, q["squeeze"]) for g in q["groups"]]
        changed = True
    if "featperm" in parts:
        did = False
        while not did:
            if rng.random() < 0.7 and fld["nlat"] > 1:
                q["latperm"] = _nonid_perm(rng, fld["nlat"])
                did = True
            if rng.random() < 0.6 and fld["nlon"] > 1:
                q["lonperm"] = _nonid_perm(rng, fld["nlon"])
                did = True
            if rng.random() < 0.6:
                if len(q["groups"]) > 1:
                    o = _nonid_perm(rng, len(q["groups"]))
                    q["groups"] = [q["groups"][j] for j in o]
                    q["dimorders"] = [q["dimorders"][j] for j in o]
                    did = True
                big = [gi for gi, g in enumerate(q["groups"]) if len(g) > 1]
                if big:
                    gi = big[int(rng.integers(0, len(big)))]
                    o = _nonid_perm(rng, len(q["groups"][gi]))
                    q["groups"][gi] = [q["groups"][gi][j] for j in o]
                    did = True
        changed = True
    if "transpose" in parts:
        sd = list(fld["sdims"])
        canon = [list(d) for d in q["dimorders"]]
        equal_ndim = len({len(d) for d in canon}) == 1
        for _ in range(50):
            for gi, d in enumerate(canon):
                if shared["tmode"] == "mixed":
                    if gi == 0 or rng.random() < 0.7:
                        q["dimorders"][gi] = [d[j] for j in _nonid_perm(rng, len(d))]
                else:
                    fd = [x for x in d if x not in sd]
                    so = [sd[j] for j in shared["sorder"]]
                    fo = [fd[int(j)] for j in rng.permutation(len(fd))]
                    where = shared["spos"] if (q["container"] != "list" or equal_ndim) else "front"
                    q["dimorders"][gi] = so + fo if where == "front" else (fo + so if where == "back" else fo[:1] + so + fo[1:])
            if any(a != b for a, b in zip(canon, q["dimorders"])):
                changed = True
                break
            shared["spos"] = "back"
    if "sampleperm" in parts:
        q["tperm"] = list(shared["tperm"])
        q["rperm"] = list(shared["rperm"])
        changed = True
    if "itemperm" in parts and q["container"] == "list" and len(q["groups"]) > 1:
        gi = int(rng.integers(0, len(q["groups"])))
        q["piece_tperm"] = {str(gi): _nonid_perm(rng, fld["nt"])}
        changed = True
    return q, changed


def present(fld, pres):
    import xarray as xr

    A = fld["da"]
    idx = {"time": pres["tperm"], "lat": pres["latperm"]}
    if fld["nrep"]:
        idx["rep"] = pres["rperm"]
    if fld["nlon"]:
        idx["lon"] = pres["lonperm"]
    A = A.isel(idx)
    pieces = []
    for g, order in zip(pres["groups"], pres["dimorders"]):
        P = A.isel(v=g)
        if len(g) == 1 and pres["squeeze"]:
            P = P.isel(v=0, drop=True)
        ptp = (pres.get("piece_tperm") or {}).get(str(len(pieces)))
        if ptp is not None:
            P = P.isel(time=ptp)  # this item alone stores its samples in another order (same labels)
        pieces.append(P.transpose(*order).copy())
    if pres["container"] == "da":
        return pieces[0]
    if pres["container"] == "ds":
        return xr.Dataset({f"var{g[0]}": P for g, P in zip(pres["groups"], pieces)})
    return pieces


class Structure(Exception):
    """A result does not have the dimensions / labels of the input it belongs to."""


def _want_labels(fld, dim, g=None):
    A = fld["da"]
    if dim == "v":
        return A.coords["v"].values[np.asarray(g)]
    return A.coords[dim].values


def read_features(obj, fld, pres, what):
    """Components-like result of one field -> ndarray (P, *extra, K) in canonical (v, lat, lon) label order."""
    import xarray as xr

    cont = pres["container"]
    if cont == "da":
        if not isinstance(obj, xr.DataArray):
            raise Structure(f"{what}: expected DataArray, got {type(obj).__name__}")
        outs = [obj]
    elif cont == "ds":
        if not isinstance(obj, xr.Dataset):
            raise Structure(f"{what}: expected Dataset, got {type(obj).__name__}")
        names = [f"var{g[0]}" for g in pres["groups"]]
        if set(obj.data_vars) != set(names):
            raise Structure(f"{what}: variables {sorted(obj.data_vars)} != {sorted(names)}")
        outs = [obj[nm] for nm in names]
    else:
        if not isinstance(obj, (list, tuple)) or len(obj) != len(pres["groups"]):
            raise Structure(f"{what}: expected list of {len(pres['groups'])}, got {type(obj).__name__}")
        outs = list(obj)
    fd = ["lat"] + (["lon"] if fld["nlon"] else [])
    parts = []
    extra_ref = None
    for g, P in zip(pres["groups"], outs):
        squeezed = len(g) == 1 and pres["squeeze"]
        need = set(fd) | (set() if squeezed else {"v"})
        if not need <= set(P.dims) or "mode" not in P.dims or set(P.dims) & set(fld["sdims"]):
            raise Structure(f"{what}: dims {P.dims}, expected feature dims {sorted(need)} + mode")
        if squeezed:
            P = P.drop_vars("v", errors="ignore").expand_dims(v=_want_labels(fld, "v", g))
        for d in ["v"] + fd:
            want = _want_labels(fld, d, g)
            have = P.coords[d].values
            if have.shape != want.shape or set(have.tolist()) != set(want.tolist()):
                raise Structure(f"{what}: labels of '{d}' are {have.tolist()}, expected {want.tolist()}")
        P = P.sel({d: _want_labels(fld, d, sorted(g)) for d in ["v"] + fd})
        extra = sorted(d for d in P.dims if d not in ["v", "mode"] + fd)
        if extra_ref is None:
            extra_ref = extra
        elif extra != extra_ref:
            raise Structure(f"{what}: pieces disagree on extra dims {extra} vs {extra_ref}")
        parts.append((min(g), P.transpose("v", *fd, *extra, "mode")))
    parts.sort(key=lambda t: t[0])
    vals = np.concatenate([np.asarray(P.values) for _, P in parts], axis=0)
    nfeat = int(np.prod(vals.shape[: 1 + len(fd)]))
    return vals.reshape((nfeat,) + vals.shape[1 + len(fd) :])


def read_samples(obj, fld, what):
    """Scores-like result -> ndarray (n, *extra, K) in canonical sample-label order."""
    import xarray as xr

    if not isinstance(obj, xr.DataArray):
        raise Structure(f"{what}: expected DataArray, got {type(obj).__name__}")
    sd = fld["sdims"]
    if not set(sd) <= set(obj.dims) or "mode" not in obj.dims or set(obj.dims) & {"v", "lat", "lon"}:
        raise Structure(f"{what}: dims {obj.dims}, expected {sd} + mode")
    for d in sd:
        want = fld["da"].coords[d].values
        have = obj.coords[d].values
        if have.shape != want.shape or set(have.tolist()) != set(want.tolist()):
            raise Structure(f"{what}: labels of '{d}' are {have.tolist()[:8]}.., expected {want.tolist()[:8]}..")
    P = obj.sel({d: fld["da"].coords[d].values for d in sd})
    extra = sorted(d for d in P.dims if d not in sd + ["mode"])
    P = P.transpose(*sd, *extra, "mode")
    vals = np.asarray(P.values)
    n = int(np.prod(vals.shape[: len(sd)]))
    return vals.reshape((n,) + vals.shape[len(sd) :])


# ----------------------------------------------------------------------------
# fitting
# ----------------------------------------------------------------------------
NAME_POOL = {
    "sf": [("s", "f")],
    "arb": [("n_obs", "gridpoint"), ("Sample", "Feature"), ("samples", "features"), ("t_stacked", "space"), ("sample_dim", "feature_dim")],
    "exotic": [("my sample", "my feature"), ("σ-sample", "räumlich"), ("sample.1", "feature:1"), ("S", "F ")],
    "swap": [("feature", "sample")],
    "s_only": [("s", "feature"), ("record", "feature")],
    "f_only": [("sample", "f"), ("sample", "cell")],
    # names of the positional dimensions the DimensionRenamer creates internally: accepted or refused, never wrong
    "dimn": [("dim0", "feature"), ("sample", "dim1"), ("dim1", "dim0"), ("dim7", "dim8")],
}


def pick_names(case, fields, rng):
    kind = case["naming"]
    if kind is None:
        return None
    if kind == "userdim":
        return ("time", "lat")
    pool = NAME_POOL[kind]
    return pool[int(rng.integers(0, len(pool)))]


def model_kwargs(case, names, Kfit):
    cls = case["cls"]
    cfg = case["cfg"]
    k = zoo.kind(cls)
    base = cfg.get("base", cls)
    if k == "single_rot":
        base = zoo.SINGLE_ROT[cls]
    if k == "boot":
        base = "EOF"
    over = {}
    bk = zoo.kind(base)
    if bk in ("single", "cross"):
        over.update(standardize=case["standardize"], use_coslat=case["coslat"])
    if base == "multi.CCA":
        over.update(use_coslat=case["coslat"])
    if bk == "cross":
        over.update(n_pca_modes="all", use_pca=cfg.get("use_pca", True))
        if "alpha" in cfg:
            over.update(alpha=list(cfg["alpha"]))
    if base.startswith("Hilbert"):
        over.update(padding=cfg.get("padding", "exp") if cfg.get("padding") != "none" else None, decay_factor=0.2)
    pmin = min(_p(s) for s in case["shapes"])
    n = case["n"] * max(case["nrep"], 1)
    if base == "ExtendedEOF":
        over.update(tau=cfg["tau"], embedding=cfg["embedding"])
        if cfg.get("n_pca"):
            over.update(n_pca_modes=max(Kfit, int(0.8 * min(n, pmin)) + 1))  # > 0.8*min(n,p) -> exact branch of the inner EOF(solver='auto')
    if base == "OPA":
        over.update(n_pca_modes=max(Kfit, min(pmin, 5)), tau_max=3)
    if base == "POP":
        over.update(n_pca_modes=max(Kfit, int(0.8 * min(n, pmin)) + 1))  # exact branch of PCA(solver='auto')
    kw = zoo.default_kwargs(base, n_modes=Kfit, **over)
    if names is not None:
        kw.update(sample_name=names[0], feature_name=names[1])
    return base, kw


def fit_model(case, data, dim, names, Kfit, Krot):
    """Returns (object answering components()/scores()/..., base model or None)."""
    cls = case["cls"]
    k = zoo.kind(cls)
    base, kw = model_kwargs(case, names, Kfit)
    with warnings.catch_warnings():
        warnings.simplefilter("ignore")
        if k in ("single", "cross", "multi"):
            return zoo.fit(cls, data, dim, kw)
        if k in ("single_rot", "cross_rot"):
            return zoo.fit(cls, data, dim, kw, rot_kw={"n_modes": Krot, "power": case["cfg"].get("power", 1)}, base_name=base)
        if k == "boot":
            import tqdm  # noqa: F401
            import xeofs.validation.bootstrapper as B

            m = zoo.fit("EOF", data, dim, kw)
            b = zoo.make("EOFBootstrapper", n_bootstraps=case["cfg"]["n_boot"], seed=case["cfg"]["bseed"])
            old = B.trange
            B.trange = range
            try:
                b.fit(m.model)
            finally:
                B.trange = old
            return zoo.Fitted("EOFBootstrapper", b, 1, base=m)
    raise KeyError(cls)


SPECTRA = {
    "eof": ("singular_values", "explained_variance", "explained_variance_ratio"),
    "SparsePCA": ("explained_variance", "explained_variance_ratio"),
    "POP": ("eigenvalues", "damping_times", "periods"),
    "OPA": ("decorrelation_time",),
    "cross": ("squared_covariance_fraction", "cross_correlation_coefficients", "fraction_variance_X_explained_by_X", "fraction_variance_Y_explained_by_Y"),
    "multi": ("explained_covariance", "explained_covariance_ratio", "explained_variance", "explained_variance_ratio"),
    "boot": ("explained_variance",),
}


def spectra_names(cls):
    if cls in SPECTRA:
        return SPECTRA[cls]
    g = group_of(cls)
    if g in ("cross", "multi", "boot"):
        return SPECTRA[g]
    return SPECTRA["eof"]


def _mode_first(da):
    import xarray as xr

    if isinstance(da, xr.DataArray):
        extra = sorted(d for d in da.dims if d != "mode")
        return np.asarray(da.transpose("mode", *extra).values)
    return np.asarray(da)


def read_all(case, fitted, fields, pres_list, data=None, want_transform=True):
    """Everything the fit returns, in canonical arrays.  Raises Structure."""
    cls = case["cls"]
    res = {"spectra": {}, "comps": [], "scores": [], "extra_feat": {}, "extra_samp": {}}
    m = fitted.model
    for nm in spectra_names(cls):
        r = getattr(m, nm)()
        if isinstance(r, (list, tuple)):
            for j, rr in enumerate(r):
                res["spectra"][f"{nm}[{j}]"] = _mode_first(rr)
        else:
            res["spectra"][nm] = _mode_first(r)
    if zoo.kind(cls) == "cross":  # guard only: the spectrum of the SVD that defines the modes
        res["guard"] = np.asarray(m.data["singular_values"].values, dtype=float)
    if cls == "POP":  # guard only: conditioning of the regression that defines the feedback matrix
        Z = np.asarray(m.data["input_data"].values)
        res["pop_condX"] = float(np.linalg.cond(Z[:-1])) if Z.ndim == 2 and Z.shape[0] > 2 else 1.0
    comps = fitted.components()
    scores = fitted.scores()
    if len(comps) != len(fields) or len(scores) != len(fields):
        raise Structure(f"components()/scores() returned {len(comps)}/{len(scores)} fields, expected {len(fields)}")
    for j, (fld, pres) in enumerate(zip(fields, pres_list)):
        res["comps"].append(read_features(comps[j], fld, pres, f"components[{j}]"))
        res["scores"].append(read_samples(scores[j], fld, f"scores[{j}]"))
    if cls == "OPA":
        res["extra_feat"]["filter_patterns"] = [read_features(m.filter_patterns(), fields[0], pres_list[0], "filter_patterns")]
    if cls == "multi.CCA":
        w = m.weights()
        res["extra_feat"]["weights"] = [read_features(w[j], fields[j], pres_list[j], f"weights[{j}]") for j in range(len(fields))]
    # projection of the training data (multi.CCA.transform is unusable on the pinned tree: C04)
    if want_transform and data is not None and cls in zoo.HAS_TRANSFORM and cls != "multi.CCA":
        with warnings.catch_warnings():
            warnings.simplefilter("ignore")
            t = fitted.transform(*data)
        res["extra_samp"]["transform"] = [read_samples(t[j], fields[j], f"transform[{j}]") for j in range(len(fields))]
    return res


# ----------------------------------------------------------------------------
# comparison
# ----------------------------------------------------------------------------
def _flat_modes(a):
    """(P, *extra, K) -> (P, E*K) so that every (extra, mode) pair is one column."""
    return a.reshape(a.shape[0], -1)


def pop_canonical_order(res):
    """Canonical order inside groups of POP modes with equal norm: positive imaginary eigenvalue first."""
    lam = np.asarray(res["spectra"]["eigenvalues"])
    nrm = np.sqrt(np.nanvar(res["scores"][0], axis=0))
    K = lam.size
    order = list(range(K))
    i = 0
    tie_groups = 0
    while i < K:
        j = i + 1
        while j < K and abs(nrm[j] - nrm[i]) <= 1e-7 * max(nrm[0], 1e-300):
            j += 1
        if j - i > 1:
            idx = order[i:j]
            idx.sort(key=lambda t: (-round(float(lam[t].imag), 9), -round(float(lam[t].real), 9)))
            order[i:j] = idx
            tie_groups += 1
            if j - i > 2:
                return None  # more than a conjugate pair share a norm: order not unique
        i = j
    o = np.asarray(order)
    out = {"spectra": {k: v[o] for k, v in res["spectra"].items()}, "comps": [c[..., o] for c in res["comps"]], "scores": [s[..., o] for s in res["scores"]], "extra_feat": {}, "extra_samp": {k: [x[..., o] for x in v] for k, v in res["extra_samp"].items()}, "pop_condX": res.get("pop_condX", 1.0)}
    return out


def uniqueness_guard(case, res, K, aligned):
    """Reason string when individual modes of the BASE fit are not unique enough to be compared, else None."""
    cls = case["cls"]
    sp = res["spectra"]
    if cls == "POP":
        lam = np.asarray(sp["eigenvalues"])
        d = np.abs(lam[:, None] - lam[None, :]) + np.eye(lam.size) * 1e9
        gap = d.min() / max(np.abs(lam).max(), 1e-300)
        if gap < GAP:
            return "POP eigenvalues closer than the resolvable gap"
        # eigenvectors of a non-normal matrix: error ~ eps * cond(eigenvector basis) * cond(regression) / gap.
        # Calibration (20 POP cases of the thorough tier): observed error/tol <= 0.05 * this estimate / 1e-9.
        P = res["comps"][0].reshape(res["comps"][0].shape[0], -1)
        kappa = float(np.linalg.cond(P / np.maximum(np.linalg.norm(P, axis=0), 1e-300)))
        est = kappa * res.get("pop_condX", 1.0) / gap * 1e-16
        if est > 1e-2 * TOL:
            return f"POP eigenvector problem too ill-conditioned for a 1e-9 comparison (estimated error {est:.1e})"
        return None
    key = {"eof": "singular_values", "cross": "squared_covariance_fraction", "multi": "explained_covariance", "boot": None}.get(group_of(cls), "singular_values")
    if cls == "SparsePCA":
        key = "explained_variance"
    if cls == "OPA":
        key = "decorrelation_time"
    if key is not None:
        s = np.asarray(sp[key], dtype=float)
        s = s.reshape(s.shape[0], -1)[:, 0]
        if key == "squared_covariance_fraction":
            s = np.sqrt(np.abs(s))
        if "guard" in res:
            key, s = "singular values of the (whitened) cross-covariance", res["guard"]
        if s.size > 1:
            gaps = np.abs(np.diff(s[: K + 1])) / max(np.abs(s).max(), 1e-300)
            if gaps.min() < GAP:
                return f"relative gap {gaps.min():.1e} in {key} below {GAP:.0e}"
    if not aligned:
        for c in res["comps"] + [x for v in res["extra_feat"].values() for x in v]:
            C = _flat_modes(np.real(c))
            mx, mn = C.max(axis=0), -C.min(axis=0)
            top = np.maximum(mx, mn)
            if np.any(np.abs(mx - mn) <= 1e-6 * top):
                return "sign convention tied (largest positive and negative loading equal)"
    return None


def _scale(b):
    b = np.asarray(b)
    a = np.abs(b[np.isfinite(b)])
    return float(a.max()) if a.size else 1.0


def phase_factors(base_c, var_c):
    """One unit-modulus factor per mode column with var*f ~ base, estimated from all fields' components."""
    z = np.zeros(base_c[0].shape[1:], dtype=complex)
    for b, v in zip(base_c, var_c):
        z = z + np.nansum(np.conj(v) * b, axis=0)
    a = np.abs(z)
    return np.where(a > 0, z / np.where(a > 0, a, 1), 1.0)


def compare(obs, case, rb, rv, K, aligned):
    """rb / rv: read_all() results of base and variant restricted to the first K modes."""
    cls = case["cls"]
    tags_of = lambda sym: {"symptom": sym}  # noqa: E731
    ok = True
    for nm, b in rb["spectra"].items():
        v = rv["spectra"].get(nm)
        if nm == "periods":
            with np.errstate(divide="ignore"):
                b, v = 1.0 / np.asarray(b), 1.0 / np.asarray(v)
        b, v = np.asarray(b)[:K], np.asarray(v)[:K]
        ok &= obs.close(f"spectrum:{nm}", v, b, TOL, scale=_scale(b), tags=tags_of("spectrum_differs"))
    bc = [c[..., :K] for c in rb["comps"]]
    vc = [c[..., :K] for c in rv["comps"]]
    bs = [s[..., :K] for s in rb["scores"]]
    vs = [s[..., :K] for s in rv["scores"]]
    bx = {k: [c[..., :K] for c in v] for k, v in rb["extra_feat"].items()}
    vx = {k: [c[..., :K] for c in v] for k, v in rv["extra_feat"].items()}
    # one "mode column" = one trailing index of the scores; extra component dims that the scores do not have
    # (ExtendedEOF's embedding) belong to the rows of a column
    col = bs[0].shape[1:]
    rows = lambda a: a.reshape((-1,) + col) if a.shape[a.ndim - len(col) :] == col else a  # noqa: E731
    bc, vc = [rows(c) for c in bc], [rows(c) for c in vc]
    bx = {k: [rows(c) for c in v] for k, v in bx.items()}
    vx = {k: [rows(c) for c in v] for k, v in vx.items()}
    bt = {k: [c[..., :K] for c in v] for k, v in rb["extra_samp"].items() if k in rv["extra_samp"]}
    vt = {k: [c[..., :K] for c in v] for k, v in rv["extra_samp"].items() if k in rb["extra_samp"]}
    if aligned:
        for j, (b, v) in enumerate(zip(bc, vc)):
            obs.close(f"amplitude:components[{j}]", np.abs(v), np.abs(b), TOL, scale=_scale(b), tags=tags_of("component_amplitude_differs"))
        for j, (b, v) in enumerate(zip(bs, vs)):
            obs.close(f"amplitude:scores[{j}]", np.abs(v), np.abs(b), TOL, scale=_scale(b), tags=tags_of("score_amplitude_differs"))
        f = phase_factors(bc, vc)
        obs.note("phases_deg", np.round(np.angle(f, deg=True), 3).ravel().tolist()[:8])
        vc = [v * f for v in vc]
        vs = [v * f for v in vs]
        vt = {k: [x * f for x in v] for k, v in vt.items()}
        obs.cell("aligned:phase")
    else:
        obs.cell("aligned:none")
    # --- real-valued: diagnose whole-mode sign flips before reporting raw differences --------
    flip = None
    if not aligned:
        B = np.concatenate([_flat_modes(b) for b in bc], axis=0)
        V = np.concatenate([_flat_modes(v) for v in vc], axis=0)
        sg = np.sign(np.nansum(B * V, axis=0))
        sg[sg == 0] = 1
        if np.any(sg < 0):
            scale = max(np.nanmax(np.abs(B)), 1e-300)
            if np.nanmax(np.abs(V * sg - B)) <= TOL * scale:
                flip = sg
    if flip is not None:
        nflip = int((flip < 0).sum())
        obs.check(
            "components_sign",
            False,
            f"{nflip} of {flip.size} modes come back with the opposite sign (everything else equal): the orientation of a mode depends on the layout",
            tags={"symptom": "mode_sign_flip"},
            signs=flip,
        )
        shp = bc[0].shape[1:]
        fl = flip.reshape(shp)
        vc = [v * fl for v in vc]
        vs = [v * fl for v in vs]
        vx = {k: [c * fl for c in v] for k, v in vx.items()}
        vt = {k: [c * fl for c in v] for k, v in vt.items()}
        ok = False
    for j, (b, v) in enumerate(zip(bc, vc)):
        ok &= obs.close(f"components[{j}]", v, b, TOL, scale=_scale(b), tags=tags_of("components_differ"))
    for j, (b, v) in enumerate(zip(bs, vs)):
        ok &= obs.close(f"scores[{j}]", v, b, TOL, scale=_scale(b), tags=tags_of("scores_differ"))
    for k in bx:
        for j, (b, v) in enumerate(zip(bx[k], vx[k])):
            ok &= obs.close(f"{k}[{j}]", v, b, TOL, scale=_scale(b), tags=tags_of(f"{k}_differ"))
    for k in bt:
        for j, (b, v) in enumerate(zip(bt[k], vt[k])):
            ok &= obs.close(f"{k}[{j}]", v, b, TOL, scale=_scale(b), tags=tags_of(f"{k}_differ"))
        obs.count("relation:transform")
    return ok


# ----------------------------------------------------------------------------
def run_case(case, obs):
    if case.get("kind") == "bands":
        return c07_bands.run(case, obs)
    cls = case["cls"]
    parts = list(case["parts"])
    obs.tag(cls=cls, op=case["op"], container=case["container"], names_default=case["naming"] is None)
    if case["naming"]:
        obs.tag(naming=case["naming"])
    if case["op"] == "combo":
        obs.tag(parts="+".join(parts))
    obs.cell(f"cls:{cls}", f"op:{case['op']}", f"container:{case['container']}", f"cplx:{case['cplx']}", f"sdims:{2 if case['nrep'] else 1}")
    for p in parts:
        obs.cell(f"cell:{cls}:{p}")
    if case["naming"]:
        obs.cell(f"naming:{case['naming']}")

    fields = make_fields(case)
    prng = gen.rng_for(case["pseed"], 5)
    base_pres = [base_presentation(f, case["container"]) for f in fields]
    shared = {
        "tperm": _nonid_perm(prng, fields[0]["nt"]),
        "rperm": [int(x) for x in prng.permutation(fields[0]["nrep"])],
        "tmode": case.get("tmode") or "aligned",
        "sorder": [int(x) for x in prng.permutation(len(fields[0]["sdims"]))],
        "spos": str(prng.choice(["front", "back", "mid"])),
    }
    var_pres, changed = [], False
    for f, bp in zip(fields, base_pres):
        q, ch = vary(bp, f, parts, prng, shared)
        var_pres.append(q)
        changed |= ch
    names = pick_names(case, fields, prng)
    if names is not None:
        changed = True
        obs.note("names", list(names))
        sig = inspect.signature(zoo.cls_of(model_kwargs(case, None, 2)[0]).__init__)
        if "sample_name" not in sig.parameters:
            obs.refuse("class has no sample_name/feature_name parameters")
    dim = tuple(fields[0]["sdims"]) if case["nrep"] else "time"

    grp = group_of(cls)
    K = case["K"]
    if grp == "boot":
        K = _p(case["shapes"][0])  # inner EOF(solver='auto') is exact only for n_modes > 0.8*rank
        Kfit = Krot = K
    elif cls == "POP":
        Kfit = Krot = K
    else:
        Kfit, Krot = K + 1, K
    if cls in ROTATORS:  # rotate Krot >= 2 modes of a base model fitted with one mode more (gap guard)
        Krot = max(K, 2)
        Kfit = Krot + 1
        K = Krot
    obs.note("K", K)
    obs.nontrivial = bool(changed)

    var_data = [present(f, p) for f, p in zip(fields, var_pres)]
    # facts about the re-laid-out input that delimit two mechanisms found by this check (see module docstring)
    per_field = []
    list_axes_differ = False
    for f, d in zip(fields, var_data):
        items = d if isinstance(d, list) else [d]
        axes = [tuple(list(x.sizes).index(s) for s in f["sdims"]) for x in items]
        list_axes_differ |= len(set(axes)) > 1
        per_field.append(tuple(np.argsort(axes[0]).tolist()))
    obs.tag(list_sample_axes_differ=bool(list_axes_differ), fields_sample_order_differ=bool(len(set(per_field)) > 1))
    obs.tag(
        item_sample_order_differs=bool(any(p_.get("piece_tperm") for p_ in var_pres)),
        two_sample_dims=bool(case["nrep"]),
    )
    if list_axes_differ:
        obs.cell("input:list_sample_axes_differ")
    if len(set(per_field)) > 1:
        obs.cell("input:fields_sample_order_differ")

    mon.reset()
    try:
        fb = fit_model(case, [present(f, p) for f, p in zip(fields, base_pres)], dim, None, Kfit, Krot)
        ev_b = mon.drain(obs, advisory=True)
        fv = fit_model(case, var_data, dim, names, Kfit, Krot)
    except ValueError as e:
        msg = str(e)
        if names is not None and "is already present in data" in msg:
            obs.cell("refused:name_in_data")
            obs.refuse("xeofs refuses a sample/feature name that equals a data dimension: " + msg[:120])
        if case["naming"] == "dimn" and (exception_site(e, REPO) or "").startswith("xeofs/preprocessing/stacker.py"):
            # a name of the internal positional dimensions collides inside the Stacker (xarray's own rename/stack
            # ValueError instead of xeofs's message): still a refusal, not a wrong answer
            obs.cell("refused:name_in_data")
            obs.refuse("name collides with an internal positional dimension: " + msg[:120])
        raise
    except RuntimeError as e:
        if "did not converge" in str(e):  # explicit refusal of the iterative rotation; no unique answer to compare
            obs.ambiguous("rotation did not converge (explicit RuntimeError of the code)")
        raise
    ev_v = mon.drain(obs, advisory=True)
    backends = sorted({e["backend"] for e in ev_b + ev_v if e.get("kind") == "backend"})
    obs.note("backends", backends)
    if any(b != "svd" for b in backends):
        obs.ambiguous(f"a non-exact SVD back-end ran ({backends}); the relation is asserted for exact solvers only")

    base_data = [present(f, p) for f, p in zip(fields, base_pres)]
    want_t = True
    try:
        try:
            rb = read_all(case, fb, fields, base_pres, base_data)
        except Structure:
            raise
        except Exception as e:  # transform() of the BASE layout fails: not a layout problem (C04/C05), compare the rest
            if cls not in zoo.HAS_TRANSFORM:
                raise
            obs.note("base_transform_failed", f"{type(e).__name__}: {e}"[:200])
            want_t = False
            rb = read_all(case, fb, fields, base_pres, base_data, want_transform=False)
    except Structure as e:
        obs.check("base_structure", False, str(e), tags={"symptom": "result_structure", "which": "base"})
        return
    try:
        rv = read_all(case, fv, fields, var_pres, var_data, want_transform=want_t)
    except Structure as e:
        obs.check("variant_structure", False, str(e), tags={"symptom": "result_structure", "which": "variant"})
        return
    obs.check("variant_structure", True)

    if cls == "POP":
        K = rb["comps"][0].shape[-1]
        rb2, rv2 = pop_canonical_order(rb), pop_canonical_order(rv)
        if rb2 is None or rv2 is None:
            obs.ambiguous("more than two POP modes share one norm: their order is not defined")
        rb, rv = rb2, rv2

    if cls in ROTATORS:  # the rotated subspace must be unique: gap after the last rotated mode of the base model
        bm = fb.base.model
        sb = np.asarray((bm.singular_values() if zoo.kind(cls) == "single_rot" else bm.data["singular_values"]).values, dtype=float)
        gaps = np.abs(np.diff(sb[: Krot + 1])) / max(sb.max(), 1e-300)
        if gaps.size and gaps.min() < GAP:
            obs.ambiguous(f"relative gap {gaps.min():.1e} in the spectrum of the rotated base model below {GAP:.0e}")

    aligned = bool(cls in COMPLEX_FAMILY and (any(np.iscomplexobj(c) for c in rb["comps"]) or any(np.iscomplexobj(c) for c in rv["comps"])))
    why = uniqueness_guard(case, rb, K, aligned)
    if why:
        obs.ambiguous(why)

    nk = rb["comps"][0].shape[-1]
    obs.check("n_modes_equal", all(c.shape == d.shape for c, d in zip(rb["comps"], rv["comps"])), f"component shapes {[c.shape for c in rb['comps']]} vs {[c.shape for c in rv['comps']]}", tags={"symptom": "shape_differs"})
    if any(c.shape != d.shape for c, d in zip(rb["comps"], rv["comps"])) or any(c.shape != d.shape for c, d in zip(rb["scores"], rv["scores"])):
        return
    K = min(K, nk)
    compare(obs, case, rb, rv, K, aligned)
    obs.count("relation:compared")

    # sample permutation: the scores come back in the order in which the samples were presented
    # (when one list item stores its samples in yet another order there is no single "presented order":
    # aligning the items may legitimately return the labels sorted)
    if "sampleperm" in parts and not case["nrep"] and not any(p_.get("piece_tperm") for p_ in var_pres):
        for j, sc in enumerate(fv.scores()):
            want = fields[j]["da"].coords["time"].values[np.asarray(var_pres[j]["tperm"])]
            obs.check(f"scores_order[{j}]", np.array_equal(np.asarray(sc.coords["time"].values), want), "scores are not in the order of the presented samples", tags={"symptom": "score_order"})


def evidence_extra(results, extras):
    """class x transformation matrix of case outcomes and the phases that had to be removed."""
    cells = {}
    phases = []
    for r in results:
        c = r["case"]
        for p in c.get("parts", [c.get("op")]):
            d = cells.setdefault(f"{c['cls']}:{p}", {})
            d[r["status"]] = d.get(r["status"], 0) + 1
        ph = (r.get("info") or {}).get("phases_deg")
        if ph:
            phases.extend(abs(float(x)) for x in ph)
    out = {"class_x_transformation": cells}
    if phases:
        out["removed_phase_deg"] = {"n": len(phases), "max_abs": max(phases), "share_above_1deg": sum(x > 1 for x in phases) / len(phases)}
    return out
