"""C02 helper: labelled-layout builder, label-id encoding, and the label-wise structure comparator.

No xeofs import here.  A *case* is a small dict of factor levels; `build(case)` turns it into the user-level
input (DataArray / Dataset / list), an independent reference description (`ref`) that knows, for every
variable of every list item, its dims, the python-valued labels along each dim and the cell values, and the
id-encoding tables used by the conservation monitor.
"""
import numpy as np

# ---------------------------------------------------------------------------------------------------------
# factors
# ---------------------------------------------------------------------------------------------------------
CONTAINERS = ("da", "ds_same", "ds_mixed", "list_da", "list_ds", "list_mixed")
KINDS = ("asc_int", "unsorted_int", "desc_float", "str", "datetime", "multiindex")
NUMERIC_KINDS = ("asc_int", "unsorted_int", "desc_float")
ORDERS = ("sf", "fs", "rev", "shuffle")
EXTRAS = ("none", "scalar", "1d", "2d")
NAMES = ("default", "other", "eq_sample", "eq_feature", "eq_crossed", "internal")
FLAGS = ("off", "center", "std", "coslat", "weights", "all")
NANS = ("none", "feature")
DTYPES = ("f8", "i8", "f4")
MIXES = ("subset", "disjoint", "overlap")
SDORDER = ("natural", "reversed")

SLOTS = ("s0", "s1", "s2", "f0", "f1", "f2")

FACTORS = {
    "container": CONTAINERS,
    "ns": (1, 2, 3),
    "nf": (1, 2, 3),
    "order": ORDERS,
    "k_s0": KINDS,
    "k_s1": KINDS,
    "k_s2": KINDS,
    "k_f0": KINDS,
    "k_f1": KINDS,
    "k_f2": KINDS,
    "extra": EXTRAS,
    "names": NAMES,
    "flags": FLAGS,
    "nan": NANS,
    "dtype": DTYPES,
    "mix": MIXES,
    "sdorder": SDORDER,
}
BASELINE = {
    "container": "da",
    "ns": 1,
    "nf": 1,
    "order": "sf",
    "k_s0": "asc_int",
    "k_s1": "asc_int",
    "k_s2": "asc_int",
    "k_f0": "asc_int",
    "k_f1": "asc_int",
    "k_f2": "asc_int",
    "extra": "none",
    "names": "default",
    "flags": "off",
    "nan": "none",
    "dtype": "f8",
    "mix": "subset",
    "sdorder": "natural",
}


def normalize(case):
    """Make a raw factor assignment self-consistent (documented repairs, applied identically everywhere):
    unused kind slots -> baseline; `mix` only for ds_mixed; non-f8 dtype only with flags off and no NaN;
    coslat needs a numeric 'lat' (feature slot f0) present in every variable, and plain dim names."""
    c = dict(case)
    for i in range(3):
        if i >= c["ns"]:
            c[f"k_s{i}"] = "asc_int"
        if i >= c["nf"]:
            c[f"k_f{i}"] = "asc_int"
    if c["container"] != "ds_mixed":
        c["mix"] = "subset"
    if c["ns"] == 1:
        c["sdorder"] = "natural"
    if c["flags"] != "off" or c["nan"] != "none":
        c["dtype"] = "f8"
    if c["flags"] in ("coslat", "all"):
        # every variable must carry the latitude dim (slot f0): not so for these mixed-dims shapes
        no_common_lat = c["container"] == "ds_mixed" and (c["nf"] == 1 or c["mix"] in ("disjoint", "overlap"))
        if no_common_lat or c["names"] in ("eq_feature", "eq_crossed", "internal"):
            c["flags"] = "weights" if c["flags"] == "all" else "off"
        elif c["k_f0"] not in NUMERIC_KINDS:
            c["k_f0"] = "desc_float"
    if not case.get("allow_invalid") and declared_invalid(c):
        c["names"] = "default"
    return c


# ---------------------------------------------------------------------------------------------------------
# labels
# ---------------------------------------------------------------------------------------------------------
def make_labels(kind, m, salt):
    """m python-valued labels of the given index kind (salt varies the values between dims / items)."""
    if kind == "asc_int":
        return [int(10 * (k + 1) + salt) for k in range(m)]
    if kind == "unsorted_int":
        base = [30, 10, 40, 20, 60, 50]
        return [int(v + salt) for v in base[:m]] if m > 2 else [int(30 + salt), int(10 + salt)][:m]
    if kind == "desc_float":
        return [float(62.5 - 17.25 * k - salt) for k in range(m)]
    if kind == "str":
        base = ["b", "a", "d", "c", "f", "e"]
        return [f"{v}{salt}" for v in base[:m]]
    if kind == "datetime":
        return [np.datetime64("2001-01-01", "ns") + np.timedelta64(int(31 * k + salt), "D") for k in range(m)]
    if kind == "multiindex":
        base = [("u", 2), ("u", 1), ("v", 2), ("v", 1), ("w", 2), ("w", 1)]
        return [(a + str(salt), int(b)) for a, b in base[:m]]
    raise ValueError(kind)


def key_of(v):
    """Hashable, value-based key of one label (1 == 1.0; datetimes by their ns count; MultiIndex labels as tuples)."""
    if isinstance(v, tuple):
        return tuple(key_of(x) for x in v)
    if isinstance(v, (np.datetime64,)):
        return ("dt", int(v.astype("datetime64[ns]").astype("int64")))
    if hasattr(v, "to_datetime64"):  # pandas Timestamp
        return ("dt", int(np.datetime64(v.to_datetime64(), "ns").astype("int64")))
    if isinstance(v, (str, np.str_)):
        return str(v)
    if isinstance(v, (bool, np.bool_)):
        return bool(v)
    if isinstance(v, (int, np.integer)):
        return float(v)
    if isinstance(v, (float, np.floating)):
        f = float(v)
        return f if f == f else "NaN"
    return repr(v)


def labels_of(obj, dim):
    """Value keys of the labels an xarray object carries along `dim` (positional range when it has no index)."""
    import pandas as pd

    if dim in obj.indexes:
        idx = obj.indexes[dim]
        if isinstance(idx, pd.MultiIndex):
            return [key_of(tuple(t)) for t in idx.tolist()], "multiindex"
        return [key_of(v) for v in idx.values.tolist()] if idx.dtype.kind not in "Mm" else [key_of(v) for v in idx.values], "index"
    if dim in obj.coords:
        return [key_of(v) for v in np.asarray(obj.coords[dim].values).tolist()], "coord_no_index"
    return [key_of(int(i)) for i in range(obj.sizes[dim])], "no_coord"


# ---------------------------------------------------------------------------------------------------------
# dim naming
# ---------------------------------------------------------------------------------------------------------
_PLAIN_S = ("time", "run", "member")
_PLAIN_F = (("lat", "lon", "lev"), ("x", "y", "z"), ("lat", "lon", "lev"))
_INTERNAL = {"s0": "dim3", "s1": "dim0", "s2": "dim5", "f0": "dim1", "f1": "dim4", "f2": "dim2"}


def dim_name(slot, item, names):
    i = int(slot[1])
    if names == "internal":
        return _INTERNAL[slot]
    if names == "eq_sample" and slot == "s0":
        return "sample"
    if names == "eq_feature" and slot == "f0":
        return "feature"
    if names == "eq_crossed":
        if slot == "s0":
            return "feature"
        if slot == "f0":
            return "sample"
    return _PLAIN_S[i] if slot[0] == "s" else _PLAIN_F[item % 3][i]


def model_names(names):
    if names == "other":
        return "obs_", "var_"
    return "sample", "feature"


# ---------------------------------------------------------------------------------------------------------
# structure of the container
# ---------------------------------------------------------------------------------------------------------
def _mixed_vars(nf, mix):
    """feature-slot sets of the variables of a Dataset whose variables have different dimension sets"""
    if nf == 1:
        return [("f0",), ()]
    if nf == 2:
        if mix == "subset":
            return [("f0", "f1"), ("f0",)]
        if mix == "disjoint":
            return [("f0",), ("f1",)]
        return [("f0", "f1"), ("f0",), ("f1",)]
    if mix == "subset":
        return [("f0", "f1", "f2"), ("f0", "f1"), ("f0",)]
    if mix == "disjoint":
        return [("f0", "f1"), ("f2",)]
    return [("f0", "f1"), ("f1", "f2")]


def plan(case):
    """list of items; item = (type, [feature-slot tuple per variable])"""
    nf = case["nf"]
    full = tuple(f"f{i}" for i in range(nf))
    # list items may have fewer feature dims than the first one (their own feature dims)
    less = full[: max(1, nf - 1)]
    c = case["container"]
    if c == "da":
        return [("DataArray", [full])]
    if c == "ds_same":
        return [("Dataset", [full, full])]
    if c == "ds_mixed":
        return [("Dataset", _mixed_vars(nf, case["mix"]))]
    if c == "list_da":
        return [("DataArray", [full]), ("DataArray", [less]), ("DataArray", [full])]
    if c == "list_ds":
        return [("Dataset", [full, full]), ("Dataset", [less, less])]
    if c == "list_mixed":
        return [("DataArray", [full]), ("Dataset", [less, less]), ("DataArray", [less])]
    raise ValueError(c)


def declared_invalid(case):
    """True when the naming is one that `Stacker._validate_dimension_names` itself declares unusable ("Please
    use another name"): sample_name names a user dim while there are several sample dims; feature_name names a
    user dim of a Dataset, or of a DataArray with several feature dims.  (The validation is unreachable
    behind the DimensionRenamer, so such inputs are not refused up front; the property permits refusing them.)"""
    names = case["names"]
    if names not in ("eq_sample", "eq_feature", "eq_crossed"):
        return False
    if names in ("eq_sample", "eq_crossed") and case["ns"] > 1:
        return True
    if names == "eq_sample":
        return False
    for typ, varslots in plan(case):
        nfi = len({s for v in varslots for s in v})
        has_dim_named_feature = True if names == "eq_crossed" else nfi >= 1
        if has_dim_named_feature and (typ == "Dataset" or nfi > 1):
            return True
    return False


def _sizes(case, rng):
    ns, nf = case["ns"], case["nf"]
    if ns == 1:
        s = [int(rng.integers(4, 7))]
    elif ns == 2:
        s = [int(rng.integers(2, 5)), int(rng.integers(2, 4))]
    else:
        s = [int(rng.integers(2, 4)), 2, int(rng.integers(2, 4))]
    return s


def _fsizes(n, rng):
    if n == 1:
        return [int(rng.integers(2, 5))]
    if n == 2:
        return [int(rng.integers(2, 5)), int(rng.integers(2, 4))]
    return [int(rng.integers(2, 4)), int(rng.integers(2, 4)), 2]


def _perm(order, dims_s, dims_f, rng):
    if order == "sf":
        return list(dims_s) + list(dims_f)
    if order == "fs":
        return list(dims_f) + list(dims_s)
    if order == "rev":
        return (list(dims_s) + list(dims_f))[::-1]
    d = list(dims_s) + list(dims_f)
    # interleave: a seeded shuffle that is not one of the three fixed orders when possible
    for _ in range(8):
        p = [d[i] for i in rng.permutation(len(d))]
        if p not in (list(dims_s) + list(dims_f), list(dims_f) + list(dims_s), (list(dims_s) + list(dims_f))[::-1]):
            return p
    return p


def build(case):
    import pandas as pd
    import xarray as xr

    rng = np.random.default_rng([int(case.get("dseed", 0)), 202])
    ns, nf = case["ns"], case["nf"]
    names = case["names"]
    flags = case["flags"]
    ids = flags == "off"
    coslat = flags in ("coslat", "all")
    use_w = flags in ("weights", "all")
    items = plan(case)

    # ---- sample dims (shared by all items) -----------------------------------------------------------
    ssz = _sizes(case, rng)
    sslots = [f"s{i}" for i in range(ns)]
    sdim = {s: dim_name(s, 0, names) for s in sslots}
    slabels = {s: make_labels(case[f"k_{s}"], ssz[i], salt=i) for i, s in enumerate(sslots)}
    NS = int(np.prod(ssz))
    sample_dims = tuple(sdim[s] for s in sslots)
    if case["sdorder"] == "reversed":
        sample_dims = sample_dims[::-1]

    def coord_for(dimname, slot, kind, labs):
        if kind == "multiindex":
            mi = pd.MultiIndex.from_tuples(labs, names=[f"{slot}_a", f"{slot}_b"])
            return xr.Coordinates.from_pandas_multiindex(mi, dimname)
        if kind == "datetime":
            return {dimname: np.array(labs, dtype="datetime64[ns]")}
        if kind == "str":
            return {dimname: np.array(labs, dtype=object).astype(str)}
        return {dimname: np.array(labs)}

    ref = []
    objs = []
    weights = []
    gf = 0  # running global feature id
    nan_done = case["nan"] == "none"
    for k, (typ, varslots) in enumerate(items):
        slots_used = sorted({s for v in varslots for s in v})
        nfi = len(slots_used)
        allf = [f"f{i}" for i in range(max([int(s[1]) for s in slots_used] + [-1]) + 1)]
        fsz_list = _fsizes(max(len(allf), 1), rng)
        fsz = {s: fsz_list[i] for i, s in enumerate(allf)}
        fdim = {s: dim_name(s, k, names) for s in allf}
        if coslat and "f0" in fdim:
            fdim["f0"] = "lat"  # names is default / other / eq_sample here (normalize)
        flabels = {s: make_labels(case[f"k_{s}"], fsz[s], salt=3 + k * 3 + int(s[1])) for s in allf}
        coords = {}
        for s in sslots:
            coords.update(coord_for(sdim[s], s, case[f"k_{s}"], slabels[s]))
        for s in slots_used:
            coords.update(coord_for(fdim[s], s, case[f"k_{s}"], flabels[s]))
        vars_ref = []
        arrays = {}
        wvars = {}
        for vi, vslots in enumerate(varslots):
            # array dim order
            vdims_s = [sdim[s] for s in sslots]
            vdims_f = [fdim[s] for s in vslots]
            prng = np.random.default_rng([int(case.get("dseed", 0)), 7, k, vi])
            order = _perm(case["order"], vdims_s, vdims_f, prng)
            slot_of = {sdim[s]: s for s in sslots}
            slot_of.update({fdim[s]: s for s in vslots})
            shape = tuple((ssz[int(slot_of[d][1])] if slot_of[d][0] == "s" else fsz[slot_of[d]]) for d in order)
            pvar = int(np.prod([fsz[s] for s in vslots])) if vslots else 1
            # ids in canonical order (samples s0..; features in vslots order)
            sid = np.arange(NS).reshape(ssz)
            fid = (gf + np.arange(pvar)).reshape([fsz[s] for s in vslots] or [1])
            if not vslots:
                fid = fid.reshape(())
            can = fid.reshape((1,) * ns + fid.shape) * NS + sid.reshape(tuple(ssz) + (1,) * fid.ndim)
            can = can.astype(float)
            if not ids:
                can = rng.standard_normal(can.shape) * (1.0 + 0.5 * rng.random(fid.shape)) + 3.0 * rng.standard_normal(fid.shape)
            if not nan_done and vslots and (k == len(items) - 1) and vi == 0:
                # one fully missing feature (all samples) in the first variable of the last item
                sel = (slice(None),) * ns + tuple(int(fsz[s] - 1) for s in vslots)
                can[sel] = np.nan
                nan_done = True
            can_dims = [sdim[s] for s in sslots] + vdims_f
            vals = np.transpose(can, [can_dims.index(d) for d in order])
            assert vals.shape == shape
            name = f"v{k}{chr(97 + vi)}"
            labs = {d: (slabels[slot_of[d]] if slot_of[d][0] == "s" else flabels[slot_of[d]]) for d in order}
            vars_ref.append(
                dict(
                    name=name,
                    dims=tuple(order),
                    sdims=tuple(vdims_s),
                    fdims=tuple(vdims_f),
                    labels=labs,
                    values=vals,
                    gf0=gf,
                    p=pvar,
                    fshape=tuple(fsz[s] for s in vslots),
                )
            )
            gf += pvar
            data = vals
            if case["dtype"] == "i8":
                data = vals.astype("int64")
            elif case["dtype"] == "f4":
                data = vals.astype("float32")
            arrays[name] = (tuple(order), data.copy())
            if use_w:
                wd = [fdim[s] for s in vslots][::-1]
                wv = rng.uniform(0.5, 2.0, size=[fsz[s] for s in vslots][::-1])
                wvars[name] = (tuple(wd), wv)
        if typ == "DataArray":
            name = vars_ref[0]["name"]
            d, v = arrays[name]
            obj = xr.DataArray(v, dims=d, coords=coords, name=name)
        else:
            obj = xr.Dataset({n: (d, v) for n, (d, v) in arrays.items()}, coords=coords)
        # ---- extra non-index coordinates ------------------------------------------------------------
        ex = case["extra"]
        s0d = sdim["s0"]
        f0d = fdim[slots_used[0]] if slots_used else None
        if ex == "scalar":
            obj = obj.assign_coords(height=2.0, label="abc")
        elif ex == "1d":
            obj = obj.assign_coords(aux_s=(s0d, np.arange(ssz[0])[::-1] * 1.5))
            if f0d is not None:
                obj = obj.assign_coords(aux_f=(f0d, np.array([f"n{i}" for i in range(fsz[slots_used[0]])])))
        elif ex == "2d":
            # 2-D coordinates over two feature dims (curvilinear grid) and over two sample dims (init x lead);
            # where the layout has neither, fall back to the 1-D coordinates
            done = False
            if len(slots_used) >= 2:
                a, b2 = fdim[slots_used[0]], fdim[slots_used[1]]
                obj = obj.assign_coords(aux_ff=((b2, a), rng.random((fsz[slots_used[1]], fsz[slots_used[0]]))))
                done = True
            if ns >= 2:
                obj = obj.assign_coords(aux_ss=((sdim["s1"], s0d), rng.random((ssz[1], ssz[0]))))
                done = True
            if not done:
                obj = obj.assign_coords(aux_s=(s0d, np.arange(ssz[0])[::-1] * 1.5))
                if f0d is not None:
                    obj = obj.assign_coords(aux_f=(f0d, np.array([f"n{i}" for i in range(fsz[slots_used[0]])])))
        # list items after the first may store the (shared) labels of a single sample dimension in another
        # order: the same data by label -- the items have to be aligned on their labels, not glued by position
        if k >= 1 and ns == 1 and case[f"k_{sslots[0]}"] != "multiindex" and int(case.get("dseed", 0)) % 3 == 0:
            obj = obj.isel({sdim["s0"]: slice(None, None, -1)})
            case["_item_order_differs"] = True
        objs.append(obj)
        if use_w:
            wc = {}
            for s in slots_used:
                wc.update(coord_for(fdim[s], s, case[f"k_{s}"], flabels[s]))
            if typ == "DataArray":
                wd, wv = wvars[vars_ref[0]["name"]]
                weights.append(xr.DataArray(wv, dims=wd, coords=wc))
            else:
                weights.append(xr.Dataset({n: (d, v) for n, (d, v) in wvars.items()}, coords=wc))
        ref.append(dict(type=typ, vars=vars_ref))

    is_list = case["container"].startswith("list")
    X = objs if is_list else objs[0]
    W = None
    if use_w:
        W = weights if is_list else weights[0]
    sname, fname = model_names(names)
    return dict(
        X=X,
        W=W,
        ref=ref,
        is_list=is_list,
        sample_dims=sample_dims,
        sample_dim_set=tuple(sdim[s] for s in sslots),
        slabels={sdim[s]: slabels[s] for s in sslots},
        NS=NS,
        P=gf,
        ids=ids,
        sample_name=sname,
        feature_name=fname,
        kw=dict(with_center=flags in ("center", "all"), with_std=flags in ("std", "all"), with_coslat=coslat),
    )


# ---------------------------------------------------------------------------------------------------------
# comparator
# ---------------------------------------------------------------------------------------------------------
def expected_ids(b):
    """multiset (sorted array) of the ids of all non-missing input cells, and the sets of valid sample / feature ids"""
    vals = []
    for it in b["ref"]:
        for v in it["vars"]:
            a = v["values"].ravel()
            vals.append(a[~np.isnan(a)])
    allv = np.sort(np.concatenate(vals)) if vals else np.zeros(0)
    return allv


def positions(ref_labels, out_keys):
    """for every reference label its position among the output labels (None when any is missing)"""
    lut = {}
    for i, k in enumerate(out_keys):
        lut.setdefault(k, i)
    pos = []
    for lab in ref_labels:
        j = lut.get(key_of(lab))
        if j is None:
            return None
        pos.append(j)
    return pos
