"""C20 -- bootstrap members are sign-aligned, reproducible EOF analyses of resamples.

Monitor M-RES: the name ``EOF`` in ``xeofs.validation.bootstrapper`` is replaced
(in setup(), from the harness) by a recording subclass.  ``EOFBootstrapper`` itself
was bound to the original class at definition time, so only the inner
``EOF(...)`` construction inside ``EOFBootstrapper.fit`` is intercepted.  Every
inner ``fit`` records the matrix it was handed (one event per member).  From that
matrix the harness recovers the index multiset of the resample (rows are distinct
random vectors), and an independent numpy oracle (preprocessing from the raw user
arrays, LAPACK eigvalsh of the explicitly formed covariance of the *reference*
rows) decides every public result of the bootstrapper read back BY LABEL through
the model's own structure.  Relations between executions: same seed -> same
resamples/members; other seed -> other resamples.
"""
import contextlib
import io
import math
import traceback
import warnings

import numpy as np

from .. import gen, mon, oracle
from ..boot import REPO
from ..obs import Ambiguous, Refused, exception_site

LEVEL = "exploration"
RULE = (
    "structured corpus (container kind x name variant x n_bootstraps in {1,2,5,50} x centring, all flag pairs) + seeded "
    "random draws over container kind {DataArray 1/2/3 feature dims, Dataset, list, 2 sample dims, all-NaN feature, all-NaN sample, "
    "big (range finder not capturing)}, label kinds, n=4..40, p=1..30, n_modes=1..min(n,p), all preprocessing flags, weights, "
    "data scale 1e-3..1e3, n_bootstraps 1..50, seeds {0,1,2**32-1,2**63+5,random}, sample_name/feature_name variants; "
    "non-trivial = at least one member resample was decided against the oracle and (n_modes >= 2 or p >= 2); "
    "distinct = distinct canonical case record"
)
ASSUMPTIONS = [
    "numpy.linalg.eigvalsh (LAPACK syevd) on the explicitly formed covariance of the reference rows and the harness's own preprocessing are the trusted reference",
    "the model handed to the bootstrapper is fitted with solver='full'; its preprocessed matrix is cross-checked against the harness reference through the Gram matrix (mismatch -> case is skipped_ambiguous, that is C01/C08's subject)",
    "rows of the preprocessed data are pairwise distinct (continuous random data), so a resample identifies its index multiset",
    "seeds are non-negative integers (numpy's SeedSequence refuses negative ones); n_modes is an integer",
    "Dataset variables share one dimension set (differing sets are a C02 finding); no isolated NaNs",
    "members are compared two-sidedly (1e-9) when the inner back-end was exact or the range finder's sketch (k+10) captures the whole range; otherwise only one-sided/structural assertions",
    "centre=False models: the member may be centred by the resample mean (what the inner default EOF does) or not centred (the model's own setting); either reading is accepted if it is consistent over expvar/scores; orientation is accepted if the Pearson OR the uncentred correlation with the model's scores is >= 0 (the two coincide for centred models)",
]

KINDS = ("da1", "da2", "da3", "ds", "list", "sd2", "nanfeat", "nansample", "big")
NAMEV = ("default", "sname", "fname", "both", "userdefault")
LABELK = ("int", "unsorted", "desc", "str")
BS = (1, 2, 3, 5, 8, 13, 20, 50)
SEEDS = (0, 1, 42, 2**32 - 1, 2**63 + 5)
TOL = 1e-9
# center=False models: EOFBootstrapper orients members by mean(x*y)/(std x std y), which is the uncentred moment, not the
# Pearson correlation (the two agree whenever the model's scores have zero mean, i.e. for centred models).  By default the
# check accepts either reading for such models and only COUNTS negative Pearson correlations (advisory, evidence file);
# set to True to turn them into violations (tags: model_center=False, symptom=member_mode_anticorrelated_pearson_uncentred_model).
STRICT_PEARSON_FOR_UNCENTRED_MODELS = False

# ----------------------------------------------------------------------------- M-RES
_EVENTS = []
_STATE = {"installed": False}


def setup(tier):
    mon.install_decomposer()
    if _STATE["installed"] or not mon.ACTIVE:
        return
    import xeofs.validation.bootstrapper as B

    Base = B.EOF

    class RecordingEOF(Base):  # only the *inner* construction in EOFBootstrapper.fit resolves this global
        def fit(self, X, dim, weights=None):
            try:
                _EVENTS.append(
                    {
                        "what": "handed",
                        "dims": tuple(X.dims),
                        "dim_arg": dim,
                        "values": np.array(np.asarray(X.values), copy=True),
                        "params": dict(self.get_params()),
                    }
                )
            except Exception as e:  # the monitor must never break the observed call
                _EVENTS.append({"what": "monitor_error", "err": repr(e)})
            return super().fit(X, dim, weights)

        def _fit_algorithm(self, X):
            try:
                v = np.asarray(X.values)
                _EVENTS.append({"what": "decomposed", "colmean": float(np.max(np.abs(v.mean(axis=0)))) if v.size else 0.0, "amax": float(np.max(np.abs(v))) if v.size else 0.0})
            except Exception as e:
                _EVENTS.append({"what": "monitor_error", "err": repr(e)})
            return super()._fit_algorithm(X)

    RecordingEOF.__name__ = "EOF"
    RecordingEOF.__qualname__ = "EOF"
    B.EOF = RecordingEOF
    _STATE["installed"] = True
    _STATE["boot_cls_untouched"] = Base in B.EOFBootstrapper.__mro__ and RecordingEOF not in B.EOFBootstrapper.__mro__


def required(tier):
    return {
        "mon": ["res:inner_fit", "post:Decomposer.fit", "backend:svd", "backend:randomized_svd"],
        "cover": [f"kind:{k}" for k in KINDS]
        + [f"names:{v}" for v in NAMEV]
        + ["B:1", "B:50", "center:False", "center:True", "standardize:True", "coslat:True", "weights:True", "repro:True", "tol:two_sided", "tol:one_sided_only", "with_replacement_decided", "all_samples_drawn_decided", "members_distinct_decided"],
    }


# ----------------------------------------------------------------------------- cases
def _draw(rng, kind=None, names=None, B=None, center=None, flags=None, repro=None):
    kind = kind or str(rng.choice(KINDS, p=[0.2, 0.18, 0.08, 0.12, 0.12, 0.1, 0.07, 0.07, 0.06]))
    names = names or str(rng.choice(NAMEV, p=[0.7, 0.08, 0.08, 0.06, 0.08]))
    if B is None:
        B = int(rng.choice(BS, p=[0.1, 0.16, 0.2, 0.2, 0.14, 0.1, 0.07, 0.03])) if rng.random() < 0.88 else int(rng.integers(1, 51))
    c = dict(kind=kind, names=names, B=int(B))
    n = int(rng.integers(4, 41)) if rng.random() < 0.8 else int(rng.integers(4, 9))
    if kind == "da1":
        fs = [[int(rng.integers(1, 15))]]
    elif kind in ("da2", "nanfeat"):
        fs = [[int(rng.integers(1, 5)), int(rng.integers(1, 6))]]
        if kind == "nanfeat" and fs[0][0] * fs[0][1] < 3:
            fs = [[2, 3]]
    elif kind == "da3":
        fs = [[int(rng.integers(1, 4)), int(rng.integers(1, 4)), int(rng.integers(1, 4))]]
    elif kind == "ds":
        a, b = int(rng.integers(1, 4)), int(rng.integers(1, 5))
        fs = [[a, b], [a, b]]
    elif kind == "list":
        fs = [[int(rng.integers(1, 4)), int(rng.integers(1, 4))], [int(rng.integers(1, 7))]]
    elif kind == "sd2":
        n1, n2 = int(rng.integers(2, 7)), int(rng.integers(2, 6))
        n = n1 * n2
        c["sshape"] = [n1, n2]
        fs = [[int(rng.integers(1, 11))]]
    elif kind == "nansample":
        n = max(n, 6)
        fs = [[int(rng.integers(1, 11))]]
    elif kind == "big":
        n = int(rng.integers(40, 61))
        fs = [[int(rng.integers(22, 31))]]
    else:
        raise ValueError(kind)
    c["n"] = n
    c["fshapes"] = fs
    if flags is None:
        flags = dict(
            standardize=bool(rng.random() < 0.3),
            coslat=bool(rng.random() < 0.3),
            weights=bool(rng.random() < 0.3),
        )
    c["center"] = bool(rng.random() < 0.75) if center is None else bool(center)
    c.update(flags)
    c["kfrac"] = float(rng.random())
    if kind == "big":
        c["kfrac"] = float(rng.random() * 0.2)  # k + 10 < min(n, p): the range finder does not capture the range
    c["bseed"] = int(rng.choice(SEEDS)) if rng.random() < 0.5 else int(rng.integers(0, 2**31 - 1))
    c["repro"] = bool(rng.random() < 0.4 and B <= 13) if repro is None else bool(repro)  # B > 13: cost (the relation is about seeds, not B)
    c["slabel"] = str(rng.choice(LABELK))
    c["flabel"] = str(rng.choice(LABELK))
    c["scale_exp"] = int(rng.integers(-3, 4))
    c["dseed"] = int(rng.integers(0, 2**31 - 1))
    return c


def cases(tier, seed):
    out = []
    i = 0
    # structured corpus (seed independent)
    for kind in KINDS:
        for names in NAMEV:
            for B in (2, 5):
                rng = gen.rng_for(2020, i)
                out.append(_draw(rng, kind=kind, names=names, B=B, repro=(B == 2)))
                i += 1
    for kind in ("da1", "da2", "ds", "list", "sd2"):
        for B in (1, 50):
            for center in (True, False):
                rng = gen.rng_for(2020, i)
                out.append(_draw(rng, kind=kind, names="default", B=B, center=center, repro=(B == 1)))
                i += 1
    for st in (False, True):
        for cl in (False, True):
            for w in (False, True):
                for center in (True, False):
                    rng = gen.rng_for(2020, i)
                    kind = ("da2", "list", "ds", "da3")[i % 4]
                    out.append(_draw(rng, kind=kind, names="default", B=3, center=center, flags=dict(standardize=st, coslat=cl, weights=w), repro=True))
                    i += 1
    nrand = 200 if tier == "quick" else 9000
    for j in range(nrand):
        out.append(_draw(gen.rng_for(seed, 20, j)))
    return out


# ----------------------------------------------------------------------------- workload
def _labels(kind, m, rng, prefix="k"):
    if kind == "int":
        return np.arange(m) * 10 + 5
    if kind == "unsorted":
        return rng.permutation(np.arange(m) * 3 + 1)
    if kind == "desc":
        return np.linspace(50.0, -30.0, m) if m > 1 else np.array([50.0])
    if kind == "str":
        return np.array([f"{prefix}{j:02d}" for j in rng.permutation(m)])
    raise ValueError(kind)


def build(case):
    """Raw user-level input (container as the case says), label bookkeeping, reference matrix ingredients."""
    import xarray as xr

    rng = gen.rng_for(case["dseed"], 20)
    kind = case["kind"]
    n = case["n"]
    fs = [tuple(f) for f in case["fshapes"]]
    ps = [int(np.prod(f)) for f in fs]
    p = int(sum(ps))
    scale = 10.0 ** case["scale_exp"]
    M = gen.random_field(n, p, rng, scale=scale, offset=True)
    userdef = case["names"] == "userdefault"
    coslat = case["coslat"]

    # sample dims
    if kind == "sd2":
        sdims = ("time", "run")
        sshape = tuple(case["sshape"])
    else:
        sdims = ("sample",) if userdef else ("time",)
        sshape = (n,)
    scoords = {}
    for d, m in zip(sdims, sshape):
        scoords[d] = _labels(case["slabel"] if d == sdims[0] else "int", m, rng, prefix="s")

    # feature dims per field
    def fdims_for(i, f):
        if kind == "list" and i == 1:
            return ("lat",) if coslat else ("x",)
        if len(f) == 1:
            if coslat:
                return ("lat",)
            return ("feature",) if userdef else ("x",)
        if len(f) == 2:
            return ("lat", "lon")
        return ("lev", "lat", "lon")

    fields = []
    col = 0
    shared = {}  # Dataset variables share their coordinates
    for i, f in enumerate(fs):
        fd = fdims_for(i, f)
        coords = {}
        for d, m in zip(fd, f):
            key = (d, m)
            if kind == "ds" and key in shared:
                coords[d] = shared[key]
                continue
            if d == "lat":
                lat = np.linspace(-70.0, 80.0, m) if m > 1 else np.array([35.0])
                if case["flabel"] in ("desc", "unsorted"):
                    lat = lat[::-1].copy()
                coords[d] = lat
            else:
                coords[d] = _labels(case["flabel"] if d in ("lon", "x", "feature") else "int", m, rng, prefix="f")
            shared[key] = coords[d]
        fields.append(dict(name=f"v{i}", fdims=fd, fshape=f, coords=coords, cols=(col, col + ps[i])))
        col += ps[i]

    # missing rows / columns
    keep_rows = np.ones(n, bool)
    keep_cols = np.ones(p, bool)
    Mraw = M.copy()
    if kind == "nanfeat":
        nbad = 1 if p < 6 else int(rng.integers(1, 3))
        bad = rng.choice(p, size=nbad, replace=False)
        keep_cols[bad] = False
        Mraw[:, bad] = np.nan
    if kind == "nansample":
        nbad = int(rng.integers(1, 3))
        bad = rng.choice(n, size=nbad, replace=False)
        keep_rows[bad] = False
        Mraw[bad, :] = np.nan

    # per-column weights
    w_cos = None
    if coslat:
        w_cos = np.ones(p)
        for fl in fields:
            lat = fl["coords"]["lat"]
            wl = oracle.coslat_weights(lat)
            ax = fl["fdims"].index("lat")
            shp = [1] * len(fl["fshape"])
            shp[ax] = len(lat)
            w_cos[fl["cols"][0] : fl["cols"][1]] = np.broadcast_to(wl.reshape(shp), fl["fshape"]).ravel()
    w_user = rng.uniform(0.2, 3.0, size=p) if case["weights"] else None

    def da_for(fl, values, with_samples=True):
        c0, c1 = fl["cols"]
        if with_samples:
            arr = values[:, c0:c1].reshape(sshape + fl["fshape"])
            dims = sdims + fl["fdims"]
            coords = dict(scoords)
        else:
            arr = values[c0:c1].reshape(fl["fshape"])
            dims = fl["fdims"]
            coords = {}
        coords.update(fl["coords"])
        return xr.DataArray(arr, dims=dims, coords=coords, name=fl["name"])

    das = [da_for(fl, Mraw) for fl in fields]
    wts = [da_for(fl, w_user, with_samples=False) for fl in fields] if w_user is not None else None
    if kind == "ds":
        X = xr.Dataset({fl["name"]: d for fl, d in zip(fields, das)})
        W = xr.Dataset({fl["name"]: d for fl, d in zip(fields, wts)}) if wts else None
        container = "Dataset"
    elif kind == "list":
        X = das
        W = wts
        container = "list"
    else:
        X = das[0]
        W = wts[0] if wts else None
        container = "DataArray"
    dim = sdims if len(sdims) > 1 else sdims[0]
    return dict(
        X=X, W=W, dim=dim, container=container, fields=fields, sdims=sdims, sshape=sshape, scoords=scoords,
        M=M, keep_rows=keep_rows, keep_cols=keep_cols, w_cos=w_cos, w_user=w_user, p=p, n=n,
    )


def reference_matrix(case, b):
    """Preprocessed samples from the raw arrays only (rows/cols that are entirely missing deleted)."""
    kr, kc = b["keep_rows"], b["keep_cols"]
    M = b["M"][kr][:, kc]
    wc = b["w_cos"][kc] if b["w_cos"] is not None else None
    wu = b["w_user"][kc] if b["w_user"] is not None else None
    return oracle.preprocess(M, case["center"], case["standardize"], wc, wu)


# ----------------------------------------------------------------------------- read back by label
def _parts(obj, b):
    """Per-field DataArrays of a components-like result in the model's container kind, or None."""
    import xarray as xr

    fields = b["fields"]
    cont = b["container"]
    if cont == "DataArray":
        return [obj] if isinstance(obj, xr.DataArray) else None
    if cont == "Dataset":
        names = [fl["name"] for fl in fields]
        if not isinstance(obj, xr.Dataset) or set(obj.data_vars) != set(names):
            return None
        return [obj[nm] for nm in names]
    if isinstance(obj, (list, tuple)) and len(obj) == len(fields) and all(isinstance(c, xr.DataArray) for c in obj):
        return list(obj)
    return None


def _components_cube(obs, comps, model_comps, b, B, k, tags):
    """(p, B, k) array of member components read by label from the model's own container structure.

    Reference structure = the user's container kind / variables / feature dims + 'mode' + 'n'.  Where the
    MODEL's own components() already deviates from the user's structure (xarray's to_unstacked_dataset
    squeezes size-1 dimensions of Dataset-fitted models: C02's subject) the model's own result is the
    reference, as the statement says ("the model's own structure"); the member dimension 'n' is always
    required.  Size-1 dimensions that are missing are restored to keep the numerical oracle going.
    Returns None when the structure is too broken to read."""
    fields = b["fields"]
    cont = b["container"]
    tags = dict(tags, container_type=cont, n_bootstraps_is_1=bool(B == 1))
    parts = _parts(comps, b)
    obs.check(
        "components_container",
        parts is not None,
        f"model structure is {cont} ({[fl['name'] for fl in fields]}), components() returned {type(comps).__name__}",
        tags=dict(tags, symptom="components_structure"),
    )
    if parts is None:
        return None
    mparts = _parts(model_comps, b) if model_comps is not None else None
    blocks = []
    for j, (fl, part) in enumerate(zip(fields, parts)):
        user = set(fl["fdims"]) | {"mode"}
        ref = set(mparts[j].dims) if mparts is not None else user
        if ref != user:
            obs.cell("model_components_deviate_from_user_dims")
            obs.note("model_components_dims", [list(ref), sorted(user)])
        want = ref | {"n"}
        have = set(part.dims)
        okd = have == want
        sym = "member_dim_missing" if (want - have) == {"n"} and not (have - want) else "components_structure"
        obs.check("components_dims", okd, f"dims {part.dims}, expected {sorted(want)}", tags=dict(tags, symptom=sym))
        # restore squeezed size-1 dimensions so that the numbers can still be decided
        sizes = dict(zip(fl["fdims"], fl["fshape"]), n=B, mode=k)
        for d in (set(fl["fdims"]) | {"n", "mode"}) - have:
            if sizes[d] != 1:
                return None
            part = part.expand_dims(d)
            if d in fl["coords"]:
                part = part.assign_coords({d: fl["coords"][d]})
        if set(part.dims) != set(fl["fdims"]) | {"n", "mode"}:
            return None
        okl = part.sizes["n"] == B and part.sizes["mode"] == k
        for d in fl["fdims"]:
            lab = list(part.coords[d].values) if d in part.coords else None
            okl = okl and lab is not None and len(lab) == len(fl["coords"][d]) and set(map(_lab, lab)) == set(map(_lab, fl["coords"][d]))
        obs.check("components_labels", okl, f"sizes {dict(part.sizes)} / labels differ from the model's structure (n={B}, mode={k})", tags=dict(tags, symptom="components_structure"))
        if not okl:
            return None
        a = part.sel({d: fl["coords"][d] for d in fl["fdims"]}).transpose(*fl["fdims"], "n", "mode")
        blocks.append(np.asarray(a.values).reshape(-1, B, k))
    return np.concatenate(blocks, axis=0)


class _Mute:
    """Stand-in for Obs while a structure that was already decided is only *read* again (re-run)."""

    def check(self, name, ok, *a, **k):
        return bool(ok)

    def cell(self, *a):
        pass

    def note(self, *a):
        pass


def _lab(v):
    if isinstance(v, (str, np.str_)):
        return str(v)
    try:
        return float(v)
    except Exception:
        return repr(v)


def _scores_cube(obs, sc, b, B, k, tags):
    """(n, B, k) by label."""
    import xarray as xr

    if not obs.check("scores_container", isinstance(sc, xr.DataArray), f"scores() returned {type(sc).__name__}", tags=dict(tags, symptom="scores_structure")):
        return None
    want = set(b["sdims"]) | {"n", "mode"}
    if not obs.check("scores_dims", set(sc.dims) == want, f"dims {sc.dims}, expected {sorted(want)}", tags=dict(tags, symptom="scores_structure")):
        return None
    okl = sc.sizes["n"] == B and sc.sizes["mode"] == k
    for d in b["sdims"]:
        have = list(sc.coords[d].values) if d in sc.coords else None
        okl = okl and have is not None and len(have) == len(b["scoords"][d]) and set(map(_lab, have)) == set(map(_lab, b["scoords"][d]))
    if not obs.check("scores_labels", okl, f"sizes {dict(sc.sizes)} / labels differ from the model's structure (n={B}, mode={k})", tags=dict(tags, symptom="scores_structure")):
        return None
    a = sc.sel({d: b["scoords"][d] for d in b["sdims"]}).transpose(*b["sdims"], "n", "mode")
    return np.asarray(a.values).reshape(-1, B, k)


def _guard(obs, op, fn, tags):
    """Run one call of the code under test; an exception raised with a frame in the repository is the
    violation 'valid call did not return' (tagged by operation), anything else is a harness error."""
    try:
        return True, fn()
    except (Refused, Ambiguous):
        raise
    except Exception as e:  # noqa: BLE001
        if type(e).__name__ == "_CaseTimeout":
            raise
        site = exception_site(e, REPO)
        if site is None:
            raise
        obs.n_checks += 1
        obs.fail(
            "unexpected_exception",
            f"{op}: {type(e).__name__}: {e}",
            tags=dict(tags, op=op, symptom="exception", exc=type(e).__name__, site=site),
            traceback=traceback.format_exc()[-1500:],
        )
        return False, None


def _match_rows(R, A):
    """Index of the row of A equal to each row of R (exact; nearest within 1e-12 relative as fall-back); -1 if none."""
    lut = {}
    dup = False
    for j in range(A.shape[0]):
        key = A[j].tobytes()
        if key in lut:
            dup = True
        lut[key] = j
    idx = np.full(R.shape[0], -1, int)
    scale = max(float(np.max(np.abs(A))) if A.size else 0.0, np.finfo(float).tiny)
    for i in range(R.shape[0]):
        j = lut.get(np.ascontiguousarray(R[i]).tobytes(), -1)
        if j < 0 and A.shape[1] == R.shape[1]:
            d = np.max(np.abs(A - R[i]), axis=1)
            jj = int(np.argmin(d))
            if d[jj] <= 1e-12 * scale:
                j = jj
        idx[i] = j
    return idx, dup


def _run_boot(obs, xe, model, B, seed, tags, op, reuse=None):
    """One bootstrapper execution under M-RES.  Returns (bootstrapper | None, handed events, decomposed events, backend events)."""
    del _EVENTS[:]
    mon.reset()
    bs = reuse if reuse is not None else xe.validation.EOFBootstrapper(n_bootstraps=B, seed=seed)
    # tqdm's progress bar goes to stderr; the runner reads the workers' stderr pipes one after the other, so a
    # chatty worker would block on a full pipe -> the bar is swallowed here (harness side, nothing patched in xeofs)
    with warnings.catch_warnings(), contextlib.redirect_stderr(io.StringIO()):
        warnings.simplefilter("ignore")
        ok, _ = _guard(obs, op, lambda: bs.fit(model), tags)
    ev = list(_EVENTS)
    del _EVENTS[:]
    back = [e for e in mon.drain(obs) if e.get("kind") == "backend" and e.get("where") == "Decomposer"]
    handed = [e for e in ev if e["what"] == "handed"]
    dec = [e for e in ev if e["what"] == "decomposed"]
    errs = [e for e in ev if e["what"] == "monitor_error"]
    if errs:
        obs.note("monitor_errors", [e["err"] for e in errs][:3])
        obs.count("monitor_error:M-RES", len(errs))
    obs.count("res:inner_fit", len(handed))
    return (bs if ok else None), handed, dec, back


def _indices(obs, handed, A, sname, tags, label=""):
    """Index arrays (in rows of A) of every recorded resample, or None if some row is foreign."""
    out = []
    for i, e in enumerate(handed):
        R = e["values"]
        dims = e["dims"]
        if R.ndim != 2:
            obs.check("resample_is_2d" + label, False, f"inner fit received an array with dims {dims}", tags=dict(tags, symptom="resample_shape"))
            return None
        if sname in dims and dims.index(sname) == 1:
            R = R.T
        okshape = R.shape == A.shape
        obs.check(
            "resample_row_count" + label,
            okshape,
            f"member {i + 1}: inner fit received a {R.shape} matrix, the model's preprocessed data is {A.shape}",
            tags=dict(tags, symptom="resample_shape"),
        )
        if not okshape:
            return None
        idx, dup = _match_rows(R, A)
        if dup:
            obs.ambiguous("preprocessed data has duplicate rows; index multiset not identifiable")
        okrows = bool((idx >= 0).all())
        obs.check(
            "resample_rows_are_data_rows" + label,
            okrows,
            f"member {i + 1}: {int((idx < 0).sum())} row(s) of the resample are not rows of the model's preprocessed data",
            tags=dict(tags, symptom="resample_foreign_rows"),
        )
        if not okrows:
            return None
        out.append(idx)
    return out


def _log10_prob_no_repeat(n, B):
    """log10 of P(no member has a repeated index) for B resamples of n out of n with replacement."""
    return B * (math.lgamma(n + 1) - n * math.log(n)) / math.log(10)


# ----------------------------------------------------------------------------- the check
def run_case(case, obs):
    import xeofs as xe

    kind, names, B = case["kind"], case["names"], case["B"]
    sname = "s" if names in ("sname", "both") else "sample"
    fname = "f" if names in ("fname", "both") else "feature"
    # base tags name the mechanism-relevant configuration only (container / centring are added where they matter)
    obs.tag(cls="EOFBootstrapper", sample_name_default=bool(sname == "sample"), feature_name_default=bool(fname == "feature"))
    obs.cell(f"kind:{kind}", f"names:{names}", f"B:{B}", f"slabel:{case['slabel']}", f"flabel:{case['flabel']}", f"repro:{case['repro']}")
    for f in ("center", "standardize", "coslat", "weights"):
        obs.cell(f"{f}:{case[f]}")
    if not _STATE["installed"]:
        raise RuntimeError("M-RES is not installed (XEOFS_VERIF unset?)")
    obs.check("monitor_leaves_bootstrapper_class_alone", _STATE.get("boot_cls_untouched", False), "EOFBootstrapper's own base class was replaced by the recorder")

    b = build(case)
    Mref = reference_matrix(case, b)
    n, p = Mref.shape
    kmax = min(n, p)
    k = int(np.clip(1 + int(case["kfrac"] * kmax), 1, kmax))
    obs.note("shape", [n, p, k, B])

    # ---- the model (the given of the property; real, unpatched class) -------------------
    model = xe.single.EOF(
        n_modes=k,
        center=case["center"],
        standardize=case["standardize"],
        use_coslat=case["coslat"],
        sample_name=sname,
        feature_name=fname,
        solver="full",
    )
    with warnings.catch_warnings():
        warnings.simplefilter("ignore")
        model.fit(b["X"], dim=b["dim"], weights=b["W"])
        Smodel_da = model.scores()
        try:
            model_comps = model.components()  # the model's own structure (reference for the members' structure)
        except Exception:  # noqa: BLE001 -- not C20's subject
            model_comps = None
    A_da = model.data["input_data"]
    A = np.asarray(A_da.transpose(sname, fname).values)
    G = Mref @ Mref.T
    if A.shape != Mref.shape or not np.allclose(A @ A.T, G, rtol=0, atol=1e-9 * max(np.abs(G).max(), np.finfo(float).tiny)):
        obs.note("model_input_shape", list(A.shape))
        obs.ambiguous("the model's preprocessed matrix differs from the harness reference (subject of C01/C08, not of C20)")
    Smodel = np.asarray(Smodel_da.sel({d: b["scoords"][d] for d in b["sdims"]}).transpose(*b["sdims"], "mode").values).reshape(-1, k)[b["keep_rows"]]
    ev_model = oracle.cov_eigs(Mref - Mref.mean(axis=0) if case["center"] else Mref)
    scale_var = max(float((np.abs(Mref - Mref.mean(axis=0)) ** 2).sum() / (n - 1)), float((Mref**2).sum() / (n - 1)) * 1e-6, np.finfo(float).tiny)
    scale_sc = math.sqrt(scale_var * (n - 1))

    # ---- bootstrapper under M-RES -------------------------------------------------------
    bs, handed, dec, back = _run_boot(obs, xe, model, B, case["bseed"], {}, "fit")
    if bs is None:
        obs.nontrivial = True
        obs.note("fit_failed", True)
        return
    obs.check("one_inner_fit_per_member", len(handed) == B, f"{len(handed)} inner EOF fits recorded for n_bootstraps={B}", tags={"symptom": "member_count"})
    if len(handed) != B:
        return
    idxs = _indices(obs, handed, A, sname, {})
    if idxs is None:
        return
    recentred = [bool(d["colmean"] <= 1e-10 * max(d["amax"], 1e-300)) for d in dec]
    obs.note("inner_fit_recentres", sorted(set(recentred)))
    backends = [e["backend"] for e in back]
    obs.note("inner_backends", sorted(set(backends)))
    for be in set(backends):
        obs.cell("inner_backend:" + be)

    # with replacement: visible as repeated indices
    has_repeat = any(len(np.unique(ix)) < n for ix in idxs)
    lp = _log10_prob_no_repeat(n, B)
    if lp < -12:
        obs.cell("with_replacement_decided")
        obs.check(
            "resampling_with_replacement",
            has_repeat,
            f"none of {B} resamples of {n} rows repeats a row (probability 1e{lp:.0f} under sampling with replacement)",
            tags={"symptom": "no_repeats"},
        )
    obs.note("distinct_rows_per_member", [int(len(np.unique(ix))) for ix in idxs[:8]])
    # a resample draws from ALL of the model's samples: over B*n uniform draws a fixed sample is never drawn
    # with probability (1-1/n)^(nB); decided only where the union bound is below 1e-12
    lp_miss = math.log10(n) + n * B * math.log10(1.0 - 1.0 / n)
    if lp_miss < -12:
        obs.cell("all_samples_drawn_decided")
        drawn = np.unique(np.concatenate(idxs))
        obs.check(
            "every_sample_is_drawn_by_some_member",
            drawn.size == n,
            f"{n - drawn.size} of {n} samples are never drawn in {B} resamples (probability 1e{lp_miss:.0f} under uniform resampling)",
            tags={"symptom": "samples_never_drawn"},
        )
    # members are separate draws: two members coincide (as ordered index arrays) with probability n^-n
    if B >= 2 and (2 * math.log10(B) - n * math.log10(n)) < -12:
        obs.cell("members_distinct_decided")
        nd = len({ix.tobytes() for ix in idxs})
        obs.check(
            "members_are_separate_resamples",
            nd == B,
            f"only {nd} distinct resamples among {B} members",
            tags={"symptom": "members_share_resample"},
        )

    # ---- public results, by label ---------------------------------------------------------
    res = {}
    for op, fn in (
        ("explained_variance", lambda: bs.explained_variance()),
        ("total_variance", lambda: bs.data["total_variance"]),
        ("components", lambda: bs.components()),
        ("scores", lambda: bs.scores()),
    ):
        with warnings.catch_warnings():
            warnings.simplefilter("ignore")
            ok, r = _guard(obs, op, fn, {})
        res[op] = r if ok else None
    obs.nontrivial = bool(k >= 2 or p >= 2)

    EV = TV = V = S = None
    if res["explained_variance"] is not None:
        e = res["explained_variance"]
        if obs.check("expvar_dims", set(e.dims) == {"n", "mode"} and e.sizes.get("n") == B and e.sizes.get("mode") == k, f"dims {dict(e.sizes)}, expected n={B}, mode={k}", tags={"symptom": "expvar_structure"}):
            EV = np.asarray(e.transpose("n", "mode").values, dtype=float)
    if res["total_variance"] is not None:
        t = res["total_variance"]
        if obs.check("total_variance_dims", tuple(t.dims) == ("n",) and t.sizes.get("n") == B, f"dims {dict(t.sizes)}, expected n={B}", tags={"symptom": "total_variance_structure"}):
            TV = np.asarray(t.values, dtype=float)
    if res["components"] is not None:
        Vfull = _components_cube(obs, res["components"], model_comps, b, B, k, {"op": "components"})
        if Vfull is not None:
            kc = b["keep_cols"]
            obs.check("components_nan_only_at_missing_features", np.isnan(Vfull[~kc]).all() and np.isfinite(Vfull[kc]).all(), "NaN pattern of the member components differs from the all-missing features", tags={"symptom": "components_nan_pattern"})
            V = Vfull[kc]
    if res["scores"] is not None:
        Sfull = _scores_cube(obs, res["scores"], b, B, k, {"op": "scores"})
        if Sfull is not None:
            kr = b["keep_rows"]
            obs.check("scores_nan_only_at_missing_samples", np.isnan(Sfull[~kr]).all() and np.isfinite(Sfull[kr]).all(), "NaN pattern of the member scores differs from the all-missing samples", tags={"symptom": "scores_nan_pattern"})
            S = Sfull[kr]
    if EV is not None:
        obs.check("expvar_finite", np.isfinite(EV).all(), "non-finite member explained variance", tags={"symptom": "nonfinite"})
    if TV is not None:
        obs.check("total_variance_finite", np.isfinite(TV).all(), "non-finite member total variance", tags={"symptom": "nonfinite"})

    # ---- per-member oracle -----------------------------------------------------------------
    readings = ["centred"] if case["center"] else ["centred", "uncentred"]
    reading = "centred"
    if EV is not None and len(readings) > 1 and np.isfinite(EV).all():
        R0 = Mref[idxs[0]]
        eC = np.abs(EV[0] - oracle.cov_eigs(R0 - R0.mean(axis=0))[:k]).max()
        eU = np.abs(EV[0] - oracle.cov_eigs(R0)[:k]).max()
        reading = "centred" if eC <= eU else "uncentred"
    obs.note("member_centring", reading)
    obs.cell("member_centring:" + reading)
    n_neg_pearson_uncentred = 0
    n_modes_oriented = 0
    two_sided_all = True
    member_info = []  # (lam, captured) for the reproducibility comparison
    Imat = np.eye(k)
    for i in range(B):
        R = Mref[idxs[i]]
        mr = R.mean(axis=0) if reading == "centred" else np.zeros(p)
        Rc = R - mr
        lam = oracle.cov_eigs(Rc)
        lam_k = np.concatenate([lam, np.zeros(max(0, k - lam.size))])[:k]
        trace = float((np.abs(R - R.mean(axis=0)) ** 2).sum() / (n - 1))  # xeofs reports var(ddof=1).sum() for every model
        C = Rc.T @ Rc / (n - 1)
        be = backends[i] if i < len(backends) else None
        captured = be == "svd" or (be == "randomized_svd" and k + 10 >= min(n, p))
        two_sided = bool(captured)
        two_sided_all = two_sided_all and two_sided
        member_info.append((lam_k, two_sided))
        mt = {"inner_backend": str(be), "member_centring": reading}
        if EV is not None and np.isfinite(EV[i]).all():
            e = EV[i]
            obs.le("expvar_nonneg", -e, np.zeros(k), slack=1e-12 * scale_var, tags=dict(mt, symptom="expvar_negative"))
            obs.le("expvar_descending", e[1:], e[:-1], slack=1e-9 * scale_var, tags=dict(mt, symptom="expvar_unsorted"))
            # interlacing: no approximation may exceed the true leading eigenvalues
            obs.le("expvar_le_resample_eigs", e, lam_k * (1 + 1e-8) + 1e-10 * scale_var, tags=dict(mt, symptom="expvar_above_resample_eigs"))
            if two_sided:
                obs.close("expvar_vs_resample_eigs", e, lam_k, TOL, scale=scale_var, tags=dict(mt, symptom="expvar_ne_resample_eigs"))
            if TV is not None and np.isfinite(TV[i]) and reading == "centred":
                obs.le("expvar_le_total_variance", [e.max(), e.sum()], [TV[i], TV[i]], slack=1e-9 * scale_var, tags=dict(mt, symptom="expvar_above_total"))
        if TV is not None and np.isfinite(TV[i]):
            obs.close("total_variance_vs_trace", TV[i], trace, TOL, scale=scale_var, tags=dict(mt, symptom="total_variance_ne_trace"))
        Vi = V[:, i, :] if V is not None and np.isfinite(V[:, i, :]).all() else None
        if Vi is not None:
            obs.close("components_orthonormal", Vi.T @ Vi, Imat, 1e-8, scale=1.0, tags=dict(mt, symptom="components_not_orthonormal"))
            if two_sided and EV is not None and np.isfinite(EV[i]).all():
                resid = C @ Vi - Vi * EV[i]
                obs.close("eigen_residual", resid, np.zeros_like(resid), 10 * TOL, scale=scale_var, tags=dict(mt, symptom="components_not_eigenvectors_of_resample"))
        Si = S[:, i, :] if S is not None and np.isfinite(S[:, i, :]).all() else None
        if Si is not None and Vi is not None:
            obs.close("scores_are_projection_of_original_samples", Si, (Mref - mr) @ Vi, TOL, scale=scale_sc, tags=dict(mt, symptom="scores_ne_projection_of_original"))
        if Si is not None:
            for m in range(k):
                if ev_model[m] <= 1e-10 * max(ev_model[0], np.finfo(float).tiny):
                    continue  # the model's own mode is numerical noise: no orientation reference
                x = Si[:, m]
                y = Smodel[:, m]
                xc, yc = x - x.mean(), y - y.mean()
                dx, dy = math.sqrt(float(xc @ xc)), math.sqrt(float(yc @ yc))
                if dx <= 1e-12 * scale_sc or dy <= 1e-12 * scale_sc:
                    continue
                r = float(xc @ yc) / (dx * dy)
                ru = float(x @ y) / max(math.sqrt(float(x @ x) * float(y @ y)), np.finfo(float).tiny)
                if case["center"]:
                    if abs(r) < 1e-6:
                        continue
                    n_modes_oriented += 1
                    obs.check(
                        "member_mode_correlates_nonnegatively",
                        r >= -1e-9,
                        f"member {i + 1} mode {m + 1}: Pearson correlation of member and model scores is {r:.3e}",
                        tags=dict(mt, symptom="member_mode_anticorrelated"),
                    )
                else:
                    if abs(r) < 1e-6 or abs(ru) < 1e-6:
                        continue
                    n_modes_oriented += 1
                    if r < -1e-9:
                        n_neg_pearson_uncentred += 1
                        if STRICT_PEARSON_FOR_UNCENTRED_MODELS:
                            obs.check(
                                "member_mode_pearson_nonnegative_uncentred_model",
                                False,
                                f"member {i + 1} mode {m + 1}: Pearson correlation {r:.3e} < 0 (uncentred correlation {ru:.3e}); model fitted with center=False",
                                tags=dict(mt, model_center=False, symptom="member_mode_anticorrelated_pearson_uncentred_model"),
                            )
                    obs.check(
                        "member_mode_correlates_nonnegatively",
                        r >= -1e-9 or ru >= -1e-9,
                        f"member {i + 1} mode {m + 1}: Pearson {r:.3e} and uncentred correlation {ru:.3e} with the model's scores are both negative",
                        tags=dict(mt, symptom="member_mode_anticorrelated"),
                    )
    obs.cell("tol:two_sided" if two_sided_all else "tol:one_sided_only")
    obs.note("modes_oriented", n_modes_oriented)
    if n_neg_pearson_uncentred:
        obs.note("advisory_negative_pearson_uncentred_model", n_neg_pearson_uncentred)
        obs.count("advisory:negative_pearson_center_false", n_neg_pearson_uncentred)

    # ---- reproducibility (relation between executions) ---------------------------------------
    if not case["repro"]:
        return
    rt = {"relation": "same_seed"}
    # (history) the FIRST bootstrapper object fitted once more: its seed is unchanged, so it must draw the very
    # same resamples again (a generator created once and consumed across fits would not)
    if bs is not None:
        bsr, handed_r, _, _ = _run_boot(obs, xe, model, B, case["bseed"], {}, "fit", reuse=bs)
        if bsr is not None and len(handed_r) == B:
            idx_r = _indices(obs, handed_r, A, sname, dict(rt, history="refit_same_object"), label="_refit")
            if idx_r is not None:
                same_r = all(np.array_equal(np.sort(a), np.sort(c)) for a, c in zip(idxs, idx_r))
                obs.check(
                    "same_object_refit_same_resamples",
                    same_r,
                    f"seed {case['bseed']}: a second fit() of the same bootstrapper object drew other resamples",
                    tags=dict(rt, history="refit_same_object", symptom="resamples_differ"),
                )
    bs2, handed2, _, back2 = _run_boot(obs, xe, model, B, case["bseed"], {}, "fit")
    if bs2 is not None and obs.check("one_inner_fit_per_member_rerun", len(handed2) == B, f"{len(handed2)} inner fits on the re-run", tags=dict(rt, symptom="member_count")):
        idx2 = _indices(obs, handed2, A, sname, rt, label="_rerun")
        if idx2 is not None:
            same = all(np.array_equal(np.sort(a), np.sort(c)) for a, c in zip(idxs, idx2))
            obs.check("same_seed_same_resamples", same, f"seed {case['bseed']}: the index multisets of the two executions differ", tags=dict(rt, symptom="resamples_differ"))
            if same:
                # only the operations that answered on the first execution are repeated (an exception there is
                # already recorded once, by mechanism)
                with warnings.catch_warnings():
                    warnings.simplefilter("ignore")
                    ok1, e2 = _guard(obs, "explained_variance", lambda: bs2.explained_variance(), {}) if EV is not None else (False, None)
                    ok2, c2 = _guard(obs, "components", lambda: bs2.components(), {}) if V is not None else (False, None)
                    ok3, s2 = _guard(obs, "scores", lambda: bs2.scores(), {}) if S is not None else (False, None)
                back2b = [e["backend"] for e in back2]
                cap2 = [(be == "svd" or (be == "randomized_svd" and k + 10 >= min(n, p))) for be in back2b]
                if ok1 and EV is not None and e2 is not None and set(e2.dims) == {"n", "mode"}:
                    E2 = np.asarray(e2.transpose("n", "mode").values, dtype=float)
                    sel = [i for i in range(B) if member_info[i][1] and (i < len(cap2) and cap2[i])]
                    if sel and E2.shape == EV.shape:
                        obs.close("same_seed_same_expvar", E2[sel], EV[sel], 1e-6, scale=scale_var, tags=dict(rt, symptom="members_differ"))
                V2 = _components_cube(_Mute(), c2, model_comps, b, B, k, {}) if ok2 and c2 is not None and V is not None else None
                S2 = _scores_cube(_Mute(), s2, b, B, k, {}) if ok3 and s2 is not None and S is not None else None
                for i in range(B):
                    lam_k, ts = member_info[i]
                    if not (ts and i < len(cap2) and cap2[i]):
                        continue
                    # modes whose eigenvalue is simple and non-null are unique up to the (deterministic) orientation
                    Ri = Mref[idxs[i]]
                    lam_ext = np.concatenate([[np.inf], oracle.cov_eigs(Ri - Ri.mean(axis=0) if reading == "centred" else Ri), [0.0]])
                    good = [
                        m
                        for m in range(k)  # k <= min(n, p) == number of eigenvalues, so m + 2 is always a valid index
                        if lam_ext[m + 1] > 1e-6 * scale_var
                        and (lam_ext[m] - lam_ext[m + 1]) > 1e-3 * scale_var
                        and (lam_ext[m + 1] - lam_ext[m + 2]) > 1e-3 * scale_var
                    ]
                    if not good:
                        continue
                    if V2 is not None:
                        kc = b["keep_cols"]
                        obs.close("same_seed_same_components", V2[kc][:, i, good], V[:, i, good], 1e-6, scale=1.0, tags=dict(rt, symptom="members_differ"))
                    if S2 is not None:
                        kr = b["keep_rows"]
                        obs.close("same_seed_same_scores", S2[kr][:, i, good], S[:, i, good], 1e-6, scale=scale_sc, tags=dict(rt, symptom="members_differ"))
    # another seed -> other resamples
    Bc = min(B, 3)
    other = case["bseed"] + (1 if case["dseed"] % 2 else 2**32)  # also seeds that coincide modulo 2**32 are different seeds
    lp_same = -n * Bc * math.log10(n)
    if lp_same < -12:
        rt = {"relation": "other_seed"}
        bs3, handed3, _, _ = _run_boot(obs, xe, model, Bc, other, {}, "fit")
        if bs3 is not None and len(handed3) == Bc:
            idx3 = _indices(obs, handed3, A, sname, rt, label="_other_seed")
            if idx3 is not None:
                differ = any(not np.array_equal(a, c) for a, c in zip(idxs[:Bc], idx3))
                obs.check("other_seed_other_resamples", differ, f"seeds {case['bseed']} and {other} produced identical resamples (probability 1e{lp_same:.0f})", tags=dict(rt, symptom="resamples_identical"))


def evidence_extra(results, extras):
    members = 0
    oriented = 0
    neg = 0
    centring = {}
    for r in results:
        info = r.get("info") or {}
        sh = info.get("shape")
        if sh and r["status"] in ("held", "violated") and not info.get("fit_failed"):
            members += sh[3]
        oriented += info.get("modes_oriented", 0) or 0
        neg += info.get("advisory_negative_pearson_uncentred_model", 0) or 0
        c = info.get("member_centring")
        if c:
            centring[c] = centring.get(c, 0) + 1
    return {
        "members_decided": members,
        "member_modes_orientation_decided": oriented,
        "advisory_negative_pearson_in_center_false_models": neg,
        "member_centring_observed": centring,
    }
