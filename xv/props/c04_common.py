"""Shared machinery of C04 / C05: class x configuration grid, labelled workload builder,
label-based read-back of score-like results and the row matcher/comparator.

Nothing in here computes an expected value with xeofs: the oracle of both properties is a
*relation between executions* of the real code (transform vs. scores, transform of a
concatenation vs. transforms of the parts); this module only builds inputs from plain
numpy matrices, remembers which label every row got, and reads results back BY LABEL.
"""
import itertools
import warnings

import numpy as np

from .. import gen, zoo
from ..boot import REPO
from ..obs import exception_site

TOL = 1e-8  # DESIGN C04: 1e-8 * max|scores| under solver="full"
TOL_NONEXACT = 1e-6  # non-exact solver, only generated where the sketch captures the whole range
ALPHAS = ((1.0, 1.0), (0.5, 0.5), (0.0, 0.0), (0.3, 0.8), (0.0, 1.0), (1.0, 0.4))
FIXED_ALPHA = {"MCA": (1.0, 1.0), "CCA": (0.0, 0.0), "RDA": (0.0, 1.0)}
CONTAINERS = ("da1", "da2", "ds", "dsmix", "list")
LAYOUTS = ("1d:int", "1d:unsorted", "1d:str", "1d:datetime", "2d", "mi")
STACKED = ("2d", "mi")  # layouts whose sample axis is a (converted) MultiIndex inside xeofs
CROSS_ROTATORS = ("CPCCARotator", "MCARotator", "ComplexCPCCARotator", "ComplexMCARotator")


# --------------------------------------------------------------------------------------
# class x configuration grid
# --------------------------------------------------------------------------------------
def configs():
    out = []

    def add(cls, base=None, alpha=None, use_pca=None, power=None):
        parts = [cls]
        if base:
            parts.append(f"base={base}")
        if alpha is not None and (base or cls).endswith("CPCCA"):
            parts.append("alpha=%g,%g" % tuple(alpha))
        if use_pca is not None:
            parts.append(f"pca={int(use_pca)}")
        if power:
            parts.append(f"power={power}")
        out.append(
            dict(
                cls=cls,
                base=base,
                alpha=[float(a) for a in alpha] if alpha is not None else None,
                use_pca=use_pca,
                power=power,
                cell="|".join(parts),
            )
        )

    for c in ("EOF", "ComplexEOF", "SparsePCA"):
        add(c)
    for pca in (True, False):
        add("POP", use_pca=pca)
    for r in ("EOFRotator", "ComplexEOFRotator"):
        for pw in (1, 2, 3):
            add(r, base=zoo.SINGLE_ROT[r], power=pw)
    for pre in ("", "Complex"):
        for pca in (True, False):
            for a in ALPHAS:
                add(pre + "CPCCA", alpha=a, use_pca=pca)
            for b in ("MCA", "CCA", "RDA"):
                add(pre + b, alpha=FIXED_ALPHA[b], use_pca=pca)
    for pre in ("", "Complex"):
        for pca in (True, False):
            for pw in (1, 2, 3):
                for a in ALPHAS:
                    add(pre + "CPCCARotator", base=pre + "CPCCA", alpha=a, use_pca=pca, power=pw)
                for b in ("CCA", "RDA", "MCA"):
                    add(pre + "CPCCARotator", base=pre + b, alpha=FIXED_ALPHA[b], use_pca=pca, power=pw)
                add(pre + "MCARotator", base=pre + "MCA", alpha=FIXED_ALPHA["MCA"], use_pca=pca, power=pw)
    for pca in (False, True):
        add("multi.CCA", use_pca=pca)
    return out


CONFIGS = configs()
CLASSES = sorted({c["cls"] for c in CONFIGS})
assert set(CLASSES) == set(zoo.HAS_TRANSFORM), sorted(set(CLASSES) ^ set(zoo.HAS_TRANSFORM))


def n_fields(cfg, rng=None):
    k = zoo.kind(cfg["cls"])
    if k in ("single", "single_rot"):
        return 1
    if k == "multi":
        return 2 if rng is None else int(rng.integers(2, 4))
    return 2


# --------------------------------------------------------------------------------------
# case drawing (numpy only, JSON-able)
# --------------------------------------------------------------------------------------
def _field_spec(kind, wide, rng):
    if wide:
        q = int(rng.integers(12, 19)) if kind == "da1" else int(rng.integers(5, 9)) if kind == "ds" else int(rng.integers(4, 7))
        q1, q2 = int(rng.integers(3, 5)), int(rng.integers(3, 5))
    else:
        q = int(rng.integers(4, 9)) if kind == "da1" else int(rng.integers(2, 5)) if kind == "ds" else int(rng.integers(2, 4))
        q1, q2 = [(2, 2), (2, 3), (3, 2), (3, 3), (2, 4)][int(rng.integers(0, 5))]
    p = {"da1": q, "da2": q1 * q2, "ds": 2 * q, "dsmix": q + q1 * q2, "list": q + q1 * q2}[kind]
    # `tr`: feature dims first.  Not for lists: xeofs cannot even *fit* a list whose elements carry the sample
    # dimension at different axis positions (DimensionRenamer numbers dims by position) -- C02/C07's subject.
    tr = bool(rng.random() < 0.2) and kind != "list"
    return dict(kind=kind, q=q, q1=q1, q2=q2, p=p, nf_nan=0, tr=tr, coslat=False)


def draw_case(cfg, rng, container=None, layout=None, nan=None, cplx=None, wide=None, solver="full"):
    """One workload record for configuration `cfg`; every structural decision that xeofs' own
    argument limits depend on (valid sample / feature counts) is fixed here, values come from `dseed`."""
    cls, base = cfg["cls"], cfg["base"]
    name = base or cls
    kind = zoo.kind(cls)
    alpha = cfg["alpha"]
    use_pca = cfg["use_pca"]
    is_cross = kind in ("cross", "cross_rot")
    needs_cov_inverse = (
        (is_cross and min(alpha) < 1.0 and not use_pca)
        or (name == "POP" and not use_pca)
        or kind == "multi"
    )
    if wide is None:
        wide = bool(rng.random() < 0.25)
    if needs_cov_inverse:
        wide = False  # whitening / feedback matrix / GEVP need an invertible covariance: more samples than features
    nf = n_fields(cfg, rng)
    fields = []
    for i in range(nf):
        kd = container[i % len(container)] if container else str(rng.choice(CONTAINERS))
        fields.append(_field_spec(kd, wide, rng))
    nan = nan if nan is not None else str(rng.choice(["none", "s", "f", "sf"], p=[0.4, 0.2, 0.2, 0.2]))
    for f in fields:
        if "f" in nan:
            f["nf_nan"] = 1 if f["p"] <= 5 else int(rng.integers(1, 3))
        if f["kind"] == "da2" and rng.random() < 0.4:
            f["coslat"] = True
    ns_nan = int(rng.integers(1, 3)) if "s" in nan else 0
    layout = layout or str(rng.choice(LAYOUTS))
    pv = [f["p"] - f["nf_nan"] for f in fields]
    if wide:
        n_valid = int(rng.integers(6, 10))
    else:
        n_valid = max(pv) + 4 + int(rng.integers(0, 12))
    n = n_valid + ns_nan
    sizes = [n]
    if layout == "2d":
        n1 = int(rng.integers(2, 5))
        n2 = -(-n // n1)
        sizes = [n1, n2]
        n = n1 * n2
        n_valid = n - ns_nan
    if cplx is None:
        cplx = bool(cls in zoo.COMPLEX_INPUT_OK and rng.random() < 0.8)
    cplx = bool(cplx and cls in zoo.COMPLEX_INPUT_OK)
    # dimension reaching the decomposition, per field
    n_pca = None
    dim_eff = list(pv)
    if is_cross and use_pca:
        n_pca = []
        for p_ in pv:
            hi = min(p_, n_valid - 2)
            if (not wide) and rng.random() < 0.5:
                n_pca.append("all")  # == min(n_valid, p_) == p_ here (tall)
            else:
                n_pca.append(int(rng.integers(min(3, hi), hi + 1)))
        dim_eff = [p_ if q == "all" else q for p_, q in zip(pv, n_pca)]
    if name == "POP":
        if use_pca:
            hi = min(pv[0], n_valid - 3, 5)
            n_pca = [int(rng.integers(2, hi + 1))]
        dim_eff = [n_pca[0] if use_pca else pv[0]]
    kmax = min(min(dim_eff), n_valid - 1)
    n_modes = int(min(kmax, rng.integers(2, 4)))
    if rng.random() < 0.15:
        n_modes = int(min(kmax, 4))
    rot_modes = None
    if kind in ("single_rot", "cross_rot"):
        rot_modes = n_modes if rng.random() < 0.7 else max(2, n_modes - 1)
    if solver != "full":
        # a non-exact solver is only generated where (a) the input is real and (b) the range finder's
        # sketch (n_modes + 10 columns) spans the whole row space, so U*s == X*V up to round-off
        if cplx or (kind in ("single", "single_rot") and n_modes + 10 < min(n_valid, pv[0])):
            solver = "full"
    return dict(
        cell=cfg["cell"],
        cls=cls,
        base=base,
        alpha=alpha,
        use_pca=use_pca,
        power=cfg["power"],
        n_modes=n_modes,
        rot_modes=rot_modes,
        n_pca=n_pca,
        fields=fields,
        layout=layout,
        sizes=sizes,
        nan=nan,
        ns_nan=ns_nan,
        cplx=cplx,
        wide=bool(wide),
        standardize=bool(rng.random() < 0.3),
        solver=solver,
        dseed=int(rng.integers(0, 2**31 - 1)),
    )


# --------------------------------------------------------------------------------------
# labels
# --------------------------------------------------------------------------------------
def canon(v):
    """Hashable, type-normalised label (1 == 1.0; numpy / pandas time stamps -> integer ns)."""
    import pandas as pd

    if isinstance(v, tuple):
        return tuple(canon(x) for x in v)
    if isinstance(v, pd.Timestamp):
        return ("dt", int(v.value))
    if isinstance(v, np.datetime64):
        return ("dt", int(v.astype("datetime64[ns]").astype("int64")))
    if isinstance(v, np.generic):
        return v.item()
    return v


def label(kind, i):
    """The label universe of one index kind: id -> coordinate label (injective)."""
    i = int(i)
    if kind in ("int", "unsorted"):
        return 3 + 2 * i
    if kind == "str":
        return f"s{i:04d}"
    if kind == "datetime":
        return np.datetime64("2001-01-01", "ns") + np.timedelta64(i, "D")
    if kind == "float":
        return 0.5 * i - 2.0
    if kind == "mi":
        return (f"g{i // 4:03d}", i % 4 + 10 * (i // 100))
    raise ValueError(kind)


def make_layout(layout, ids):
    """ids: list (one entry per sample dim) of integer id lists.  Returns the sample side of a data set."""
    import pandas as pd

    if layout.startswith("1d"):
        kind = layout.split(":")[1]
        labs = [label(kind, i) for i in ids[0]]
        vals = np.array(labs) if kind != "datetime" else np.array(labs, dtype="datetime64[ns]")
        return dict(layout=layout, sdims=("time",), sizes=(len(labs),), coords={"time": vals}, keys=[(canon(v),) for v in labs], mi=False)
    if layout == "mi":
        labs = [label("mi", i) for i in ids[0]]
        mi = pd.MultiIndex.from_tuples(labs, names=("lev_a", "lev_b"))
        return dict(layout=layout, sdims=("time",), sizes=(len(labs),), coords={"time": mi}, keys=[(canon(v),) for v in labs], mi=True)
    if layout == "2d":
        l1 = [label("int", i) for i in ids[0]]
        l2 = [label("float", i) for i in ids[1]]
        keys = [(canon(a), canon(b)) for a in l1 for b in l2]
        return dict(layout=layout, sdims=("t1", "t2"), sizes=(len(l1), len(l2)), coords={"t1": np.array(l1), "t2": np.array(l2)}, keys=keys, mi=False)
    raise ValueError(layout)


def train_ids(case, rng):
    if case["layout"] == "2d":
        return [list(range(case["sizes"][0])), list(range(case["sizes"][1]))]
    n = case["sizes"][0]
    ids = list(range(n))
    if case["layout"] == "1d:unsorted":
        ids = [int(i) for i in rng.permutation(n)]
    return [ids]


def sub_layout(lay, idx):
    """Layout of obj.isel({dim: idx_d}) -- idx: list of position lists, one per sample dim."""
    import pandas as pd

    out = dict(lay)
    coords = {}
    for d, ix in zip(lay["sdims"], idx):
        c = lay["coords"][d]
        coords[d] = c[list(ix)] if isinstance(c, pd.MultiIndex) else np.asarray(c)[list(ix)]
    out["coords"] = coords
    out["sizes"] = tuple(len(ix) for ix in idx)
    out["keys"] = [lay["keys"][r] for r in rows_of(lay, idx)]
    return out


def rows_of(lay, idx):
    """Row numbers (C order over the sample dims) selected by per-dim position lists."""
    if len(lay["sdims"]) == 1:
        return [int(i) for i in idx[0]]
    n2 = lay["sizes"][1]
    return [int(i) * n2 + int(j) for i in idx[0] for j in idx[1]]


# --------------------------------------------------------------------------------------
# data
# --------------------------------------------------------------------------------------
def _fcoord(dim, k):
    if dim == "lat":
        return np.linspace(-60.0, 70.0, k)
    if dim == "lon":
        return np.arange(k) * 15.0
    return np.arange(k) * 10 + 5


def _da(M, lay, fshape, fdims, tr):
    import pandas as pd
    import xarray as xr

    sd, ss = tuple(lay["sdims"]), tuple(lay["sizes"])
    arr = np.asarray(M).reshape(ss + tuple(fshape))
    coords = {d: _fcoord(d, k) for d, k in zip(fdims, fshape)}
    A = xr.DataArray(arr, dims=sd + tuple(fdims), coords=coords)
    for d in sd:
        c = lay["coords"][d]
        if isinstance(c, pd.MultiIndex):
            A = A.assign_coords(xr.Coordinates.from_pandas_multiindex(c, d))
        else:
            A = A.assign_coords({d: c})
    if tr:
        A = A.transpose(*fdims, *sd)
    return A


def make_field(M, lay, spec):
    """n x p matrix (rows = samples in C order of the layout, NaN already inserted) -> user-level container."""
    import xarray as xr

    kd, q, q1, q2, tr = spec["kind"], spec["q"], spec["q1"], spec["q2"], spec["tr"]
    if kd == "da1":
        return _da(M, lay, (q,), ("x",), tr)
    if kd == "da2":
        return _da(M, lay, (q1, q2), ("lat", "lon"), tr)
    if kd == "ds":
        return xr.Dataset({"u": _da(M[:, :q], lay, (q,), ("x",), tr), "v": _da(M[:, q:], lay, (q,), ("x",), False)})
    if kd == "dsmix":
        return xr.Dataset({"u": _da(M[:, :q], lay, (q,), ("x",), tr), "v": _da(M[:, q:], lay, (q1, q2), ("y", "z"), False)})
    if kd == "list":
        return [_da(M[:, :q], lay, (q,), ("x",), tr), _da(M[:, q:], lay, (q1, q2), ("lat", "lon"), False)]
    raise ValueError(kd)


def isel_field(obj, sel):
    if isinstance(obj, list):
        return [o.isel(sel) for o in obj]
    return obj.isel(sel)


def nan_feature_cols(case):
    """Columns that are missing throughout -- a property of the *feature layout*, hence shared by the
    training data and every new data set of the case."""
    out = []
    for i, f in enumerate(case["fields"]):
        if f.get("nan_cols") is not None:
            out.append(sorted(int(c) for c in f["nan_cols"]))  # explicit (dedicated cases)
            continue
        rng = gen.rng_for(case["dseed"], 31, i)
        out.append(sorted(int(c) for c in rng.choice(f["p"], size=f["nf_nan"], replace=False)) if f["nf_nan"] else [])
    return out


def empty_element(case):
    """True when the missing features wipe out a whole element of a container (one DataArray of a list, one variable
    of a Dataset): a legitimate 'fully missing features' input with its own code path in the Sanitizer/Concatenator."""
    for f, cols in zip(case["fields"], nan_feature_cols(case)):
        if f["kind"] in ("ds", "dsmix", "list") and cols:
            q, cs = f["q"], set(cols)
            if all(c in cs for c in range(q)) or all(c in cs for c in range(q, f["p"])):
                return True
    return False


def unit_scale(case):
    """physical units of the data: every sixth case is of tiny (1e-10) and every sixth of huge (1e8) magnitude"""
    r = int(case.get("dseed", 0)) % 6
    return 1e-10 if r == 3 else (1e8 if r == 4 else 1.0)


def raw_matrices(case, n, rng, nan_rows=()):
    """One n x p matrix per field: common low-rank signal (so the fields co-vary) + full-rank noise + offset."""
    cplx = case["cplx"]
    r = 3
    T = rng.standard_normal((n, r))
    if cplx:
        T = T + 1j * rng.standard_normal((n, r))
    # slowly varying part so that POP's lag-1 regression has something to find
    T = T + 0.7 * np.vstack([np.zeros((1, r)), T[:-1]])
    Ms = []
    cols = nan_feature_cols(case)
    for f, cc in zip(case["fields"], cols):
        p = f["p"]
        A = rng.standard_normal((r, p))
        if cplx:
            A = A + 1j * rng.standard_normal((r, p))
        M = T @ A * 0.8 + gen.random_field(n, p, rng, cplx=cplx, scale=1.0, offset=True)
        M = np.array(M) * unit_scale(case)
        if len(cc):
            M[:, cc] = np.nan
        if len(nan_rows):
            M[list(nan_rows), :] = np.nan
        Ms.append(M)
    return Ms


def build_training(case):
    rng = gen.rng_for(case["dseed"], 7)
    lay = make_layout(case["layout"], train_ids(case, rng))
    n = int(np.prod(lay["sizes"]))
    nan_rows = sorted(int(i) for i in rng.choice(n, size=case["ns_nan"], replace=False)) if case["ns_nan"] else []
    Ms = raw_matrices(case, n, rng, nan_rows)
    valid = np.ones(n, dtype=bool)
    valid[nan_rows] = False
    fields = [make_field(M, lay, f) for M, f in zip(Ms, case["fields"])]
    dim = lay["sdims"][0] if len(lay["sdims"]) == 1 else tuple(lay["sdims"])
    return dict(lay=lay, fields=fields, Ms=Ms, valid=valid, dim=dim, n=n)


def model_kwargs(case):
    cls, base = case["cls"], case["base"]
    name = base or cls
    k = zoo.kind(name)
    kw = zoo.default_kwargs(name, n_modes=case["n_modes"])
    fs = case["fields"]
    if k == "single":
        kw.update(solver=case["solver"], standardize=case["standardize"], use_coslat=fs[0]["coslat"], random_state=0)
        if name == "POP":
            kw.update(use_pca=case["use_pca"])
            if case["use_pca"]:
                kw.update(n_pca_modes=case["n_pca"][0])
            else:
                kw.pop("n_pca_modes", None)
    elif k == "cross":
        kw.update(
            solver=case["solver"],
            standardize=case["standardize"],
            use_coslat=[fs[0]["coslat"], fs[1]["coslat"]],
            use_pca=case["use_pca"],
            random_state=0,
        )
        if case["use_pca"]:
            kw.update(n_pca_modes=list(case["n_pca"]))
        if name.endswith("CPCCA"):
            kw.update(alpha=list(case["alpha"]))
        else:
            kw.pop("alpha", None)
    elif k == "multi":
        kw = dict(n_modes=case["n_modes"], pca=case["use_pca"])
    rot_kw = None
    if zoo.kind(cls) in ("single_rot", "cross_rot"):
        # every fourth rotator is left un-computed (compute=False on in-memory data: fixed iteration count,
        # modes NOT yet re-sorted by variance) -- transform must then follow the same, unsorted, order as scores()
        rot_kw = dict(n_modes=case["rot_modes"], power=case["power"], compute=rot_compute(case))
    return kw, rot_kw


def rot_compute(case):
    return bool(case["dseed"] % 4 != 0)


def fit_model(case, tr, obs):
    """Fit the configured model.  Any exception of a fit on these valid inputs propagates (-> violation by the
    runner) except the rotation's documented give-up after max_iter iterations: the iterative Varimax/Promax
    not converging is a refusal to produce a model, and C04/C05 only speak about fitted models."""
    kw, rot_kw = model_kwargs(case)
    with warnings.catch_warnings():
        warnings.simplefilter("ignore")
        try:
            return zoo.fit(case["cls"], tr["fields"], tr["dim"], kw, rot_kw=rot_kw, base_name=case["base"])
        except RuntimeError as e:
            if "did not converge" in str(e) and exception_site(e, REPO) is not None:
                obs.count("refused_rotation_not_converged")
                obs.refuse(f"fit refused: {e}")
            raise


def field_tags(case, i):
    """Facts that delimit a mechanism acting on field i of a cross-set model."""
    t = {}
    if case["alpha"] is not None and i < 2:
        t["alpha_field_lt1"] = bool(case["alpha"][i] < 1.0)
    return t


def _attach(obs, n0, ctx):
    for v in obs.violations[n0:]:
        v["detail"]["ctx"] = repr(ctx)[:300]


# --------------------------------------------------------------------------------------
# calling the code under test
# --------------------------------------------------------------------------------------
def guarded(obs, op, fn, tags=None, ctx=None):
    """Run one call the property says must succeed.  An exception raised from inside xeofs is recorded as a
    violation (same tags the runner would attach, plus `op`) and None is returned so the remaining relations of
    the case are still evaluated; anything else is a harness bug and propagates."""
    try:
        with warnings.catch_warnings():
            warnings.simplefilter("ignore")
            return fn()
    except Exception as e:  # noqa: BLE001
        site = exception_site(e, REPO)
        if site is None:
            raise
        obs.n_checks += 1
        t = {"symptom": "exception", "exc": type(e).__name__, "site": site}
        t.update(tags or {})
        obs.fail("unexpected_exception", f"{op}: {type(e).__name__}: {e}", tags=t, ctx=repr(dict(ctx or {}, call=op))[:300])
        obs.count("exceptions_from_xeofs")
        return None


# --------------------------------------------------------------------------------------
# reading results back by label
# --------------------------------------------------------------------------------------
class Unreadable(Exception):
    pass


def dim_labels(R, d):
    idx = R.indexes.get(d)
    if idx is None:
        return [("pos", i) for i in range(R.sizes[d])]
    return [canon(v) for v in idx.tolist()]


def read_scores(R, sdims):
    """score-like DataArray -> (keys, values[n_rows, n_modes], mode labels); rows in C order over `sdims`."""
    import xarray as xr

    if not isinstance(R, xr.DataArray):
        raise Unreadable(f"result is a {type(R).__name__}, not a DataArray")
    if set(R.dims) != set(sdims) | {"mode"}:
        raise Unreadable(f"dims {tuple(R.dims)} are not the sample dims {tuple(sdims)} + 'mode'")
    arr = np.asarray(R.transpose(*sdims, "mode").values)
    labs = [dim_labels(R, d) for d in sdims]
    keys = [tuple(c) for c in itertools.product(*labs)]
    modes = [canon(v) for v in R.coords["mode"].values.tolist()] if "mode" in R.coords else list(range(R.sizes["mode"]))
    return keys, arr.reshape(len(keys), -1), modes


def match_rows(got_keys, got_vals, want_keys, want_valid):
    """Pair result rows with wanted rows by label.  A label occurring several times is paired by order of
    occurrence; the result may either keep or omit the entirely-missing occurrences.
    Returns (pairs [(got_row, want_row)], missing valid want rows, unexpected got rows)."""
    gpos, wpos = {}, {}
    for i, k in enumerate(got_keys):
        gpos.setdefault(k, []).append(i)
    for i, k in enumerate(want_keys):
        wpos.setdefault(k, []).append(i)
    pairs, missing, extra = [], [], []
    for k, wrows in wpos.items():
        grows = gpos.get(k, [])
        vrows = [r for r in wrows if want_valid[r]]
        if len(grows) == len(wrows):
            pairs += list(zip(grows, wrows))
        elif len(grows) == len(vrows):
            pairs += list(zip(grows, vrows))
        else:
            # a filled-in grid cell (several sample dims) that is all-NaN stands for "omitted"
            live = [g for g in grows if not np.isnan(got_vals[g]).all()]
            if len(live) == len(vrows):
                pairs += list(zip(live, vrows))
            elif len(grows) < len(vrows):
                pairs += list(zip(grows, vrows[: len(grows)]))
                missing += vrows[len(grows) :]
            else:
                pairs += list(zip(grows[: len(wrows)], wrows))
                extra += grows[len(wrows) :]
    for k, grows in gpos.items():
        if k not in wpos:
            # labels created by unstacking a sample grid hold no information when they are all-NaN
            extra += [g for g in grows if not np.isnan(got_vals[g]).all()] if len(k) > 1 else grows
    return sorted(pairs, key=lambda t: t[1]), sorted(missing), sorted(extra)


def lay_on_rows(obs, name, R, sdims, keys, valid, tags, ctx=None):
    """Read a score-like result of the *model* (scores()) and lay it out on the given sample rows."""
    n0 = len(obs.violations)
    try:
        return _lay_on_rows(obs, name, R, sdims, keys, valid, tags)
    finally:
        _attach(obs, n0, ctx)


def _lay_on_rows(obs, name, R, sdims, keys, valid, tags):
    try:
        rk, rv, rm = read_scores(R, sdims)
    except Unreadable as e:
        obs.check("scores_dims", False, str(e), tags=dict(tags, symptom="dims"))
        return None, None
    pairs, missing, extra = match_rows(rk, rv, keys, valid)
    obs.check(
        "scores_labels",
        not missing and not extra,
        f"scores() is not labelled by the training samples: {len(missing)} missing, {len(extra)} unexpected",
        tags=dict(tags, symptom="scores_labels"),
    )
    out = np.full((len(keys), rv.shape[1]), np.nan, dtype=np.result_type(rv.dtype, float))
    for g, w in pairs:
        out[w] = rv[g]
    return out, rm


def classify_mismatch(G, W):
    """How do two score matrices (rows x modes) differ?  Used as a *tag*, never as a verdict."""
    try:
        ok = ~(np.isnan(G).any(axis=1) | np.isnan(W).any(axis=1))
        G, W = G[ok], W[ok]
        if G.size == 0 or G.shape != W.shape:
            return "values"
        k = W.shape[1]
        scale = max(float(np.abs(W).max()), 1e-300)

        def close(A, B):
            return float(np.abs(A - B).max()) <= 1e-6 * scale

        den = (np.abs(W) ** 2).sum(axis=0)
        c = (W.conj() * G).sum(axis=0) / np.where(den > 0, den, 1.0)
        if close(W * c, G):
            if np.allclose(np.abs(c), 1.0, atol=1e-6):
                return "mode_sign" if np.allclose(c.imag, 0, atol=1e-6) else "mode_phase"
            return "mode_scale"
        if k <= 5:
            for perm in itertools.permutations(range(k)):
                if perm == tuple(range(k)):
                    continue
                Gp = G[:, list(perm)]
                if close(Gp, W):
                    return "mode_order"
                c = (W.conj() * Gp).sum(axis=0) / np.where(den > 0, den, 1.0)
                if close(W * c, Gp):
                    return "mode_order_and_scale"
        return "values"
    except Exception:  # noqa: BLE001
        return "values"


def compare(obs, name, got, sdims, want_keys, want_vals, want_valid, want_modes, tol, tags, sym_values, sym_labels, ctx=None, vtags=None, classify=False):
    """All assertions about ONE score-like result `got` against wanted rows given by label.
    `tags` go on every violation, `vtags` additionally on value mismatches (facts that only delimit numerical
    mechanisms).  Structural checks share their names across relations (the relation is in `ctx`), value checks are
    named `<name>:values` so that the worst err/tol is reported per relation.
    Returns (ok_labels, got values laid out on the wanted rows (NaN where absent)) or (False, None)."""
    n0 = len(obs.violations)
    try:
        return _compare(obs, name, got, sdims, want_keys, want_vals, want_valid, want_modes, tol, tags, sym_values, sym_labels, vtags or {}, classify)
    finally:
        _attach(obs, n0, ctx)


def _compare(obs, name, got, sdims, want_keys, want_vals, want_valid, want_modes, tol, tags, sym_values, sym_labels, vtags, classify):
    tags = dict(tags)
    try:
        gk, gv, gm = read_scores(got, sdims)
    except Unreadable as e:
        obs.check("dims", False, str(e), tags=dict(tags, symptom="dims"))
        return False, None
    obs.check("dims", True)
    k = want_vals.shape[1] if want_vals is not None else len(want_modes)
    if not obs.check(
        "modes",
        gm == list(want_modes) and gv.shape[1] == k,
        f"mode labels {gm} vs {list(want_modes)}",
        tags=dict(tags, symptom="mode_labels"),
    ):
        return False, None
    pairs, missing, extra = match_rows(gk, gv, want_keys, want_valid)
    ok_labels = obs.check(
        "labels",
        not missing and not extra,
        f"{len(missing)} non-missing sample(s) absent from the result (first: {[want_keys[i] for i in missing[:3]]}); "
        f"{len(extra)} result label(s) that are not labels of the transformed data (first: {[gk[i] for i in extra[:3]]}); "
        f"result has {len(gk)} rows for {len(want_keys)} samples ({int(np.sum(want_valid))} non-missing)",
        tags=dict(tags, symptom=sym_labels),
    )
    if gk and want_keys and len(gk[0]) > 1 and len(want_keys[0]) == len(gk[0]):
        # several sample dims / levels: unstacking may fill a grid with all-NaN cells, but along every single
        # dimension the result may only carry labels that occur in the transformed data
        foreign = {}
        for j in range(len(gk[0])):
            f_ = sorted({kk[j] for kk in gk} - {kk[j] for kk in want_keys}, key=str)
            if f_:
                foreign[j] = f_[:4]
        ok_labels = obs.check(
            "labels_per_dim",
            not foreign,
            f"result carries labels along sample dim(s) {sorted(foreign)} that the transformed data does not have: {foreign}",
            tags=dict(tags, symptom=sym_labels, per_dim=True),
        ) and ok_labels
    on_want = np.full((len(want_keys), k), np.nan, dtype=np.result_type(gv.dtype, float if want_vals is None else want_vals.dtype, float))
    for g, w in pairs:
        on_want[w] = gv[g]
    vrows = [w for _, w in pairs if want_valid[w]]
    irows = [w for _, w in pairs if not want_valid[w]]
    if vrows and want_vals is None:
        # no reference values: only "no NaN where the data has values"
        bad = np.isnan(on_want[vrows]).any(axis=1)
        obs.check(
            "finite",
            not bad.any(),
            f"{int(bad.sum())} of {len(vrows)} non-missing samples came back NaN (first: {[want_keys[vrows[i]] for i in np.flatnonzero(bad)[:3]]})",
            tags=dict(tags, symptom="nan_where_data"),
        )
        obs.count("finite_checks")
    elif vrows:
        G, W = on_want[vrows], want_vals[vrows]
        scale = float(np.nanmax(np.abs(W))) if np.isfinite(W).any() else 1.0
        n_before = len(obs.violations)
        t = dict(tags, symptom=sym_values, **vtags)
        if (np.isnan(G) & ~np.isnan(W)).any():
            t = dict(tags, symptom="nan_where_data")
        ok = obs.close(name + ":values", G, W, tol, scale=scale, tags=t)
        obs.count("value_comparisons")
        if classify and not ok and len(obs.violations) > n_before and t["symptom"] == sym_values:
            obs.violations[-1]["tags"]["mismatch"] = classify_mismatch(G, W) if len(vrows) >= 3 else "values"
    if irows:
        obs.check(
            "missing_samples_nan",
            bool(np.isnan(on_want[irows]).all()),
            "an entirely missing sample came back with numbers",
            tags=dict(tags, symptom="value_at_missing_sample"),
        )
    return ok_labels, on_want
