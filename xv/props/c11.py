"""C11 -- rotation re-expresses the retained subspace without changing what it represents.

Runtime monitoring of the real rotators on generated workloads:

* relation between two executions: ``rotator.inverse_transform(rotator.scores())`` against the
  base model's reconstruction from the same k *unrotated* modes (taken *before* the rotator
  touches the base model), for every power;
* M-ROT: post-condition hooks (icontract ``ensure`` with recording condition functions) on the inner
  rotation functions ``_varimax`` / ``_promax`` and a capture wrapper on ``promax`` in the two
  consumer modules.  They hand the loadings that went in, the rotated loadings and the rotation
  matrix of *every* rotation a case triggers to the oracle, which asserts
  ``R^H R = I`` (Varimax), ``Xrot = X R`` and -- against the public results -- ordering, the
  explained variance of each rotated mode, the sign convention and that the sign was applied;
* independent numpy oracle for the Kaiser-normalised Varimax criterion, orthonormality of the
  normalised scores, conservation of the variance sum (power 1 only) and the spanned subspace.
"""
import warnings

import numpy as np

from .. import gen, mon, xu, zoo

LEVEL = "exploration"
RULE = (
    "structured corpus (rotator class x base class x power 1..4 x spectrum well-separated/nearly-equal x "
    "use_pca x alpha, plus a small-data-scale slice) + seeded random draws over n, p, rank, K (base modes), "
    "k in 2..K (rotated modes), power 1..4, rtol, compute, alpha, PCA truncation, noise, scale; a case is "
    "non-trivial when the captured rotation matrix differs from the identity by > 1e-6 (the rotation mixes "
    "modes); distinct = distinct canonical case record"
)
ASSUMPTIONS = [
    "numpy linear algebra and the harness's own Varimax-criterion / matching code are the trusted reference",
    "the base model's reconstruction from its first k modes (C03's business) is taken as the reference of relation (i)",
    "all k modes handed to the rotator have non-zero singular values (K <= rank by construction); rotating null modes is not in the quantifier",
    "the sign convention is asserted for real loadings only (sign of the largest-magnitude entry, ties within 1e-9 skipped); "
    "for complex loadings only 'sign in {+1,-1} and applied to components and scores alike' is asserted",
    "variance-sum conservation, unitarity of R, orthonormal scores and the Varimax criterion are asserted for power 1 only (Promax is oblique)",
    "RuntimeError('Rotation process did not converge') is a permitted refusal of the iterative algorithm",
    "feature dimensions are one-dimensional so that the rows of the captured loadings are the feature labels in order",
]

TOL = 1e-9
SINGLE_PAIRS = (
    ("EOF", "EOFRotator", False),
    ("ComplexEOF", "ComplexEOFRotator", False),
    ("ComplexEOF", "ComplexEOFRotator", True),
    ("HilbertEOF", "HilbertEOFRotator", False),
)
CROSS_PAIRS = tuple(
    (pre + b, pre + r, pre == "Complex")
    for pre in ("", "Complex", "Hilbert")
    for b, r in (("CPCCA", "CPCCARotator"), ("MCA", "CPCCARotator"), ("CCA", "CPCCARotator"), ("RDA", "CPCCARotator"), ("MCA", "MCARotator"))
)
ROTATORS = sorted({p[1] for p in SINGLE_PAIRS} | {p[1] for p in CROSS_PAIRS})
BASES = sorted({p[0] for p in SINGLE_PAIRS} | {p[0] for p in CROSS_PAIRS})
SPECS = ("separated", "near_equal", "linear", "flat")
ALPHAS = (0.0, 0.25, 0.5, 1.0, [0.3, 0.8], [1.0, 0.0])

# --------------------------------------------------------------------------- M-ROT
CAP = []  # captures of the current case: dicts with fn=_varimax|_promax|promax
_installed = []


def _np(a):
    return np.array(a) if isinstance(a, np.ndarray) else None


def setup(tier):
    if _installed or not mon.ACTIVE:
        return
    import icontract
    import xeofs.cross.cpcca_rotator as CR
    import xeofs.linalg._numpy as NPK
    import xeofs.linalg._numpy._rotation as ROT
    import xeofs.linalg.rotation as LR
    import xeofs.single.eof_rotator as ER

    def varimax_post(X, result):
        try:
            Xr, R = result
            if isinstance(X, np.ndarray) and isinstance(Xr, np.ndarray):
                mon._count("post:_varimax")
                CAP.append(dict(fn="_varimax", X=np.array(X), Xrot=np.array(Xr), R=np.array(R)))
            else:
                mon._count("_varimax:lazy")
        except Exception as e:  # a monitor never breaks the observed call
            mon._count("monitor_error:_varimax")
            mon.event("monitor_error", where="_varimax", err=repr(e))
        return True

    def promax_post(X, power, result):
        try:
            Xr, R, phi = result
            if isinstance(X, np.ndarray) and isinstance(Xr, np.ndarray):
                mon._count("post:_promax")
                CAP.append(dict(fn="_promax", X=np.array(X), Xrot=np.array(Xr), R=np.array(R), phi=np.array(phi), power=power))
            else:
                mon._count("_promax:lazy")
        except Exception as e:
            mon._count("monitor_error:_promax")
            mon.event("monitor_error", where="_promax", err=repr(e))
        return True

    # _promax looks _varimax up in its module globals -> patching the module attribute reaches it
    ROT._varimax = icontract.ensure(varimax_post, error=mon.PostBroken)(ROT._varimax)
    wrapped_promax = icontract.ensure(promax_post, error=mon.PostBroken)(ROT._promax)
    ROT._promax = wrapped_promax
    NPK._promax = wrapped_promax
    LR._promax = wrapped_promax  # consumer bound it with `from ._numpy._rotation import _promax`

    orig = LR.promax

    def promax(loadings, feature_dim, **kwargs):
        out = orig(loadings, feature_dim, **kwargs)
        try:
            mon._count("capture:promax")
            rot, R, phi = out
            CAP.append(
                dict(
                    fn="promax",
                    feature_dim=feature_dim,
                    kwargs={k: v for k, v in kwargs.items()},
                    R=np.asarray(R.transpose("mode_m", "mode_n").values) if isinstance(R.data, np.ndarray) else None,
                    Xrot=np.asarray(rot.transpose(feature_dim, "mode").values) if isinstance(rot.data, np.ndarray) else None,
                )
            )
        except Exception as e:
            mon._count("monitor_error:promax")
            mon.event("monitor_error", where="promax", err=repr(e))
        return out

    LR.promax = promax
    ER.promax = promax  # consumers bound it with `from ..linalg.rotation import promax`
    CR.promax = promax
    _installed.append(True)


def required(tier):
    return {
        "mon": ["post:_varimax", "post:_promax", "capture:promax"],
        "cover": [f"rot:{r}" for r in ROTATORS]
        + [f"base:{b}" for b in BASES]
        + [f"power:{p}" for p in (1, 2, 3, 4)]
        + ["gap:near", "gap:wide", "use_pca:True", "use_pca:False", "alpha_lt1:True", "alpha_lt1:False", "cplx_input:True", "compute:False"]
        + ["single:gap:near", "single:gap:wide", "cross:gap:near", "cross:gap:wide"],
        "max_refused_share": 0.1,
    }


# --------------------------------------------------------------------------- cases
def _alpha_lt1(base, alpha):
    b = base.replace("Complex", "").replace("Hilbert", "")
    if b == "MCA":
        return False
    if b in ("CCA", "RDA"):
        return True
    a = np.atleast_1d(np.asarray(alpha, dtype=float))
    return bool(np.any(a < 1.0))


def _draw(rng, fam=None, pair=None, power=None, spec=None, use_pca=None, alpha=None, scale_exp=None, compute=None, cplx=None):
    if fam is None:
        fam = "single" if rng.random() < 0.4 else "cross"
    if pair is None:
        pairs = SINGLE_PAIRS if fam == "single" else CROSS_PAIRS
        pair = pairs[int(rng.integers(0, len(pairs)))]
    base, rot, cx = pair
    if cplx is None:
        cplx = bool(cx and (rng.random() < 0.8))
    if power is None:
        power = int(rng.choice([1, 2, 3, 4], p=[0.4, 0.3, 0.15, 0.15]))
    if spec is None:
        spec = str(rng.choice(SPECS, p=[0.35, 0.35, 0.2, 0.1]))
    if compute is None:
        compute = bool(rng.random() >= 0.1)
    c = dict(
        fam=fam,
        base=base,
        rot=rot,
        cplx=bool(cplx),
        power=int(power),
        spec=spec,
        rtol=float(rng.choice([1e-8, 1e-6, 1e-10], p=[0.7, 0.15, 0.15])),
        compute=bool(compute),
        scale_exp=int(rng.integers(-2, 5) if fam == "single" else rng.integers(-1, 4)) if scale_exp is None else int(scale_exp),
        dseed=int(rng.integers(0, 2**31 - 1)),
    )
    hil = base.startswith("Hilbert")
    if fam == "single":
        n = int(rng.integers(10 if hil else 8, 41))
        p = int(rng.integers(3, 17))
        kmax = min(6, n - 2, p)
        K = int(rng.integers(2, kmax + 1))
        r = int(rng.integers(K, min(n - 2, p) + 1))
        c.update(n=n, p=p, K=K, r=r, standardize=bool(rng.random() < 0.15))
    else:
        p = int(rng.integers(3, 13))
        q = int(rng.integers(3, 11))
        n = int(rng.integers(12, 41))
        if use_pca is None:
            use_pca = bool(rng.random() < 0.5)
        if alpha is None:
            alpha = ALPHAS[int(rng.integers(0, len(ALPHAS)))] if rng.random() < 0.7 else round(float(rng.uniform(0, 1)), 3)
        lt1 = _alpha_lt1(base, alpha)
        if not use_pca and lt1:
            n = max(n, p + q + 6)  # whitening without PCA needs well-conditioned covariances
        wide = bool(use_pca and rng.random() < 0.2)
        if wide:
            p = int(rng.integers(n, n + 8))  # wide field, only sensible behind a truncating PCA
        kmax = min(5, p, q, n - 4)
        K = int(rng.integers(2, kmax + 1))
        r = int(rng.integers(K, min(p, q, n - 4) + 1))
        n_pca = "all"
        if use_pca:
            u = rng.random()
            # keep the retained PCs well inside the data's numerical rank: "all" keeps min(n, p) modes and the
            # trailing PCs of a field with p close to n have (almost) no variance, which whitening would blow up
            cap = max(K, (n - 4) // 2)
            if wide or u < 0.45 or max(p, q) > cap:
                n_pca = [int(rng.integers(K, min(p, cap) + 1)), int(rng.integers(K, min(q, cap) + 1))]
            elif u < 0.55:
                n_pca = 0.99  # variance threshold (run with pca_init_rank_reduction=1)
        c.update(n=n, p=p, q=q, K=K, r=r, use_pca=bool(use_pca), alpha=alpha, n_pca=n_pca, noise=round(float(rng.uniform(0.05, 0.4)), 3))
    c["k"] = int(c["K"] if rng.random() < 0.35 else rng.integers(2, c["K"] + 1))
    return c


def cases(tier, seed):
    out = []
    i = 0

    def nxt():
        nonlocal i
        i += 1
        return gen.rng_for(1011, i)

    # single-set rotators: every class x power x separated / nearly equal
    for pair in SINGLE_PAIRS:
        for power in (1, 2, 3, 4):
            for spec in ("separated", "near_equal"):
                out.append(_draw(nxt(), "single", pair, power, spec, compute=True))
    # cross-set rotators: every (base, rotator) x power 1,2 x PCA on/off x separated / nearly equal
    j = 0
    for pair in CROSS_PAIRS:
        for power in (1, 2):
            for use_pca in (True, False):
                for spec in ("separated", "near_equal"):
                    alpha = ALPHAS[j % len(ALPHAS)]
                    j += 1
                    out.append(_draw(nxt(), "cross", pair, power, spec, use_pca=use_pca, alpha=alpha, compute=True))
        for power in (3, 4):
            out.append(_draw(nxt(), "cross", pair, power, SPECS[j % 2], use_pca=bool(j % 2), alpha=ALPHAS[j % len(ALPHAS)], compute=True))
            j += 1
    # lazy construction (compute=False, then .compute())
    for pair in (SINGLE_PAIRS[0], SINGLE_PAIRS[2], CROSS_PAIRS[0], CROSS_PAIRS[4], CROSS_PAIRS[7]):
        for power in (1, 2):
            out.append(_draw(nxt(), pair=pair, fam="single" if pair in SINGLE_PAIRS else "cross", power=power, compute=False))
    # data of small physical magnitude
    for pair, fam in ((SINGLE_PAIRS[0], "single"), (SINGLE_PAIRS[2], "single"), (CROSS_PAIRS[1], "cross"), (CROSS_PAIRS[4], "cross")):
        for se, power in ((-8, 1), (-12, 2)):
            out.append(_draw(nxt(), fam, pair, power, "separated", use_pca=False, scale_exp=se, compute=True))
    nrand = 110 if tier == "quick" else 6000
    for j in range(nrand):
        out.append(_draw(gen.rng_for(seed, 11, j)))
    return out


# --------------------------------------------------------------------------- data
def _spectrum(spec, r, rng):
    if spec == "separated":
        q = rng.uniform(0.55, 0.8)
        return q ** np.arange(r)
    if spec == "near_equal":
        d = 10.0 ** (-rng.uniform(2.0, 5.0))
        return 1.0 - d * np.arange(r)
    if spec == "linear":
        return np.linspace(1.0, 0.3, r) if r > 1 else np.ones(1)
    return np.ones(r)  # flat: exactly equal variances


def _mixed(case):
    return bool(case["fam"] == "single" and not case.get("standardize") and case["dseed"] % 5 == 2)


def _center(case):
    return bool(not (case["fam"] == "single" and case["dseed"] % 4 == 1))


def build(case):
    rng = gen.rng_for(case["dseed"], 11)
    n, p, r, cplx = case["n"], case["p"], case["r"], case["cplx"]
    scale = 10.0 ** case["scale_exp"]
    s = _spectrum(case["spec"], r, rng)
    if case["fam"] == "single":
        M, _, _ = gen.low_rank(n, p, s * np.sqrt(n), rng, cplx=cplx, perp_ones=True)
        off = rng.standard_normal(p) + (1j * rng.standard_normal(p) if cplx else 0)
        colscale = np.ones(p)
        if _mixed(case):
            # variables of very different magnitude analysed together (pressure in Pa next to humidity in kg/kg)
            colscale[p // 2 :] = 1e-9
        X = xu.make_da((M + off) * scale * colscale, (p,), ("x",), sample_dim="time")
        return [X]
    q = case["q"]
    U = gen.orthonormal(n, r, rng, cplx, perp_ones=True)
    Vx = gen.orthonormal(p, r, rng, cplx)
    Vy = gen.orthonormal(q, r, rng, cplx)
    a = np.sqrt(s * n)
    Nx = rng.standard_normal((n, p)) + (1j * rng.standard_normal((n, p)) if cplx else 0)
    Ny = rng.standard_normal((n, q)) + (1j * rng.standard_normal((n, q)) if cplx else 0)
    Mx = (U * a) @ Vx.conj().T + case["noise"] * Nx + rng.standard_normal(p)
    My = (U * a) @ Vy.conj().T + case["noise"] * Ny + rng.standard_normal(q)
    X = xu.make_da(Mx * scale, (p,), ("x",), sample_dim="time")
    Y = xu.make_da(My * scale, (q,), ("y",), sample_dim="time")
    return [X, Y]


# --------------------------------------------------------------------------- oracle helpers
def kaiser_varimax(L):
    """Varimax criterion of the row-normalised (Kaiser) loadings: sum_j var_i(|b_ij|^2), b = L / row norm."""
    L = np.asarray(L)
    h = np.sqrt((np.abs(L) ** 2).sum(axis=1))
    B = np.zeros(L.shape, dtype=float)
    ok = h > 0
    B[ok] = (np.abs(L[ok]) / h[ok, None]) ** 2
    return float(np.sum((B**2).mean(axis=0) - B.mean(axis=0) ** 2))


def varimax_stationarity(L):
    """Relative asymmetry of B^H (B o (|B|^2 - mean|B|^2)) for the Kaiser-normalised loadings B: zero at a
    stationary point of the Varimax criterion.  Advisory only (convergence is declared on the criterion's increments)."""
    L = np.asarray(L)
    h = np.sqrt((np.abs(L) ** 2).sum(axis=1))
    ok = h > 0
    B = L[ok] / h[ok, None]
    B2 = np.abs(B) ** 2
    T = B.conj().T @ (B * (B2 - B2.mean(axis=0)))
    return float(np.linalg.norm(T - T.conj().T) / max(np.linalg.norm(T), np.finfo(float).tiny))


def raw_varimax(L):
    L = np.asarray(L)
    B = np.abs(L) ** 2
    B = B / max(float(B.sum()), np.finfo(float).tiny)
    return float(np.sum((B**2).mean(axis=0) - B.mean(axis=0) ** 2))


def match_columns(C, L):
    """Columns of the public matrix C against the captured columns L: C[:, j] = g_j * c_j * L[:, perm[j]] with c_j > 0.
    Returns perm, g (normalised inner product, should be +-1), best |cos|, second-best |cos|."""
    k = C.shape[1]
    nc = np.linalg.norm(C, axis=0)
    nl = np.linalg.norm(L, axis=0)
    with np.errstate(all="ignore"):
        G = (L.conj().T @ C) / np.outer(nl, nc)
    A = np.abs(G)
    A = np.where(np.isfinite(A), A, -1.0)
    perm = A.argmax(axis=0)
    j = np.arange(k)
    best = A[perm, j]
    A2 = A.copy()
    A2[perm, j] = -1.0
    second = A2.max(axis=0) if k > 1 else np.zeros(k)
    return perm, G[perm, j], best, second


def sin_largest_angle(A, B):
    """sin of the largest principal angle between span(A) and span(B), from the residual (accurate near 0)."""
    Qa, _ = np.linalg.qr(A)
    Qb, _ = np.linalg.qr(B)
    return float(np.linalg.norm(Qb - Qa @ (Qa.conj().T @ Qb), 2))


def ref_sign(L, rtie=1e-9):
    """Sign of the largest-magnitude entry per column of a real matrix; 0 where max and |min| tie."""
    mx = L.max(axis=0)
    mn = L.min(axis=0)
    s = np.where(np.abs(mx) >= np.abs(mn), 1.0, -1.0)
    tie = np.abs(np.abs(mx) - np.abs(mn)) <= rtie * np.maximum(np.abs(mx), np.abs(mn))
    return np.where(tie, 0.0, s)


def _descending(obs, name, v, tags):
    v = np.asarray(v, dtype=float)
    obs.check(name + "_finite", np.isfinite(v).all(), f"non-finite {v}", tags=dict(tags, symptom="nonfinite"))
    if v.size > 1:
        obs.le(name, v[1:], v[:-1], slack=TOL * max(abs(v).max(), np.finfo(float).tiny), tags=dict(tags, symptom="not_descending"), msg=f"not in descending order: {v.tolist()}")


# --------------------------------------------------------------------------- the case
def run_case(case, obs):
    try:
        _run_case(case, obs)
    finally:
        if case["scale_exp"] <= -6:
            # head-room statistics of the small-magnitude slice (a known-defect region) are kept apart
            obs.worst = {"smallscale/" + k: v for k, v in obs.worst.items()}


def _run_case(case, obs):
    fam, base_name, rot_name = case["fam"], case["base"], case["rot"]
    power, k, K = case["power"], case["k"], case["K"]
    kind = "hilbert" if base_name.startswith("Hilbert") else ("complex" if base_name.startswith("Complex") else "real")
    small = bool(case["scale_exp"] <= -6)
    obs.tag(cls=rot_name, base=base_name, fam=fam, kind=kind, power_gt1=bool(power > 1), compute=case["compute"], scale_small=small, scale_exp=case["scale_exp"])
    obs.cell(f"rot:{rot_name}", f"base:{base_name}", f"power:{power}", f"spec:{case['spec']}", f"kind:{kind}", f"compute:{case['compute']}", f"cplx_input:{case['cplx']}")
    if small:
        obs.cell("scale_small")
    data = build(case)
    del CAP[:]
    mon.reset()

    # ---- base model -----------------------------------------------------------------
    if fam == "single":
        kw = zoo.default_kwargs(base_name, n_modes=K, standardize=case["standardize"], center=_center(case))
        obs.cell(f"center:{_center(case)}", f"mixed_magnitudes:{_mixed(case)}")
        obs.tag(center=_center(case), mixed_magnitudes=_mixed(case))
    else:
        lt1 = _alpha_lt1(base_name, case["alpha"])
        obs.tag(use_pca=case["use_pca"], alpha_lt1=lt1)
        obs.cell(f"use_pca:{case['use_pca']}", f"alpha_lt1:{lt1}", f"n_pca:{case['n_pca'] if isinstance(case['n_pca'], (str, float)) else 'int'}")
        kw = zoo.default_kwargs(base_name, n_modes=K, use_pca=case["use_pca"], n_pca_modes=case["n_pca"])
        if base_name.endswith("CPCCA"):
            kw["alpha"] = case["alpha"]
        if isinstance(case["n_pca"], float):
            kw["pca_init_rank_reduction"] = 1.0
    with warnings.catch_warnings():
        warnings.simplefilter("ignore")
        base = zoo.make(base_name, **kw)
        if fam == "single":
            base.fit(data[0], dim="time")
        else:
            try:
                base.fit(data[0], data[1], dim="time")
            except ValueError as e:
                if isinstance(case["n_pca"], float) and "less than or equal to the rank" in str(e):
                    obs.refuse("variance-threshold PCA kept fewer modes than the base model's n_modes")
                raise
        n_before = len(CAP)
        B = _read(base, fam, data, None)
        Kact = B["S"][0].shape[1]
        if Kact < 2:
            obs.refuse(f"base model returned {Kact} mode(s); nothing to rotate")
        k = min(k, Kact)
        obs.note("k", k)
        obs.note("K", Kact)
        # reference of relation (i): reconstruction from the first k UNROTATED modes, taken before rotating
        sel = dict(mode=slice(1, k))
        if fam == "single":
            ref = [base.inverse_transform(base.scores().sel(**sel))]
        else:
            s1, s2 = base.scores()
            ref = list(base.inverse_transform(X=s1.sel(**sel), Y=s2.sel(**sel)))
        ref = _data_mats(ref, data)
        if fam == "single":
            ev_in = np.asarray(base.explained_variance().values, dtype=float)[:k]
            meas_in = ev_in
        else:
            meas_in = np.asarray(base.data["singular_values"].values, dtype=float)[:k]
        gap = float(np.min(-np.diff(meas_in)) / max(meas_in[0], np.finfo(float).tiny)) if k > 1 else 1.0
        obs.note("rel_gap_in", gap)
        g = "near" if gap < 1e-2 else "wide"
        obs.cell(f"gap:{g}", f"{fam}:gap:{g}")
        obs.check("no_rotation_in_base_fit", len(CAP) == n_before == 0, "base fit triggered a rotation")

        # ---- rotate -------------------------------------------------------------------
        rot = zoo.make(rot_name, n_modes=k, power=power, rtol=case["rtol"], compute=case["compute"])
        if case["dseed"] % 3 == 0:
            # hostile history: the rotator object has been used before (fitted on another model of the same kind);
            # everything asserted below must hold for the RE-fitted rotator as well
            try:
                prev = zoo.make(base_name, **kw)
                pert = [d + 0.35 * d.isel(time=slice(None, None, -1)).values for d in data]
                if fam == "single":
                    prev.fit(pert[0], dim="time")
                else:
                    prev.fit(pert[0], pert[1], dim="time")
                rot.fit(prev)
                if not case["compute"]:
                    rot.compute()
                obs.cell("rotator_reused")
            except (RuntimeError, ValueError):
                rot = zoo.make(rot_name, n_modes=k, power=power, rtol=case["rtol"], compute=case["compute"])
            del CAP[:]
            mon.reset()
        try:
            rot.fit(base)
        except RuntimeError as e:
            if "did not converge" in str(e):
                mon.drain(obs)
                obs.refuse("Varimax iteration did not converge within max_iter")
            raise
        if not case["compute"]:
            rot.compute()
        R_ = _read(rot, fam, data, k)
        if fam == "single":
            rec = [rot.inverse_transform(rot.scores())]
            rec_n = [rot.inverse_transform(rot.scores(normalized=True), normalized=True)]
        else:
            r1, r2 = rot.scores()
            rec = list(rot.inverse_transform(X=r1, Y=r2))
            rec_n = None
        rec = _data_mats(rec, data)
    mon.drain(obs)

    # ---- (i) the reconstruction is unchanged ----------------------------------------------
    for f, (a, b) in enumerate(zip(rec, ref)):
        obs.close(f"recon_equals_unrotated_f{f}", a, b, TOL, tags=dict(op="inverse_transform", symptom="reconstruction_differs", field=f"f{f}"))
        # per feature, in units of that feature: an error confined to variables of small magnitude is invisible in
        # a norm relative to the global maximum
        cs = np.abs(b).max(axis=0)
        okc = cs > 0
        if okc.any():
            obs.close(f"recon_equals_unrotated_per_feature_f{f}", a[:, okc] / cs[okc], b[:, okc] / cs[okc], 1e-7, scale=1.0, tags=dict(op="inverse_transform", symptom="reconstruction_differs", field=f"f{f}", per_feature=True))
    if rec_n is not None:
        rec_n = _data_mats(rec_n, data)
        obs.close("recon_from_normalized_scores", rec_n[0], ref[0], TOL, tags=dict(op="inverse_transform_normalized", symptom="reconstruction_differs"))

    # ---- (ii) descending order -----------------------------------------------------------
    tg = dict(op="explained_variance" if fam == "single" else "squared_covariance")
    if fam == "single":
        ev = np.asarray(rot.explained_variance().values, dtype=float)
        sv = np.asarray(rot.singular_values().values, dtype=float)
        obs.check("n_modes_returned", ev.size == k and R_["S"][0].shape[1] == k and R_["C"][0].shape[1] == k, f"asked {k}, got {ev.size}")
        _descending(obs, "expvar_descending", ev, tg)
        _descending(obs, "singular_values_descending", sv, dict(op="singular_values"))
        measure = ev
    else:
        sc = np.asarray(rot.data["squared_covariance"].values, dtype=float)
        obs.check("n_modes_returned", sc.size == k and R_["S"][0].shape[1] == k and R_["C"][0].shape[1] == k, f"asked {k}, got {sc.size}")
        _descending(obs, "sqcov_descending", sc, tg)
        if rot_name.endswith("MCARotator"):
            with warnings.catch_warnings():
                warnings.simplefilter("ignore")
                cf = np.asarray(rot.covariance_fraction_CD95().values, dtype=float)
            _descending(obs, "covfrac_descending", cf, dict(op="covariance_fraction_CD95"))
        measure = sc

    # ---- M-ROT captures -----------------------------------------------------------------
    vm = [c for c in CAP if c["fn"] == "_varimax"]
    pm = [c for c in CAP if c["fn"] == "_promax"]
    xm = [c for c in CAP if c["fn"] == "promax"]
    if not mon.ACTIVE:
        return
    obs.check("one_rotation_per_fit", len(vm) == 1 and len(pm) == 1 and len(xm) == 1, f"captured {len(vm)}/{len(pm)}/{len(xm)} rotation calls")
    if not (vm and pm and xm):
        return
    I = np.eye(k)
    for c in vm:  # universally valid for every Varimax call
        obs.close("mrot_varimax_R_unitary", c["R"].conj().T @ c["R"], np.eye(c["R"].shape[0]), TOL, scale=1.0, tags=dict(op="_varimax", symptom="R_not_unitary"))
        obs.close("mrot_varimax_Xrot_eq_XR", c["Xrot"], c["X"] @ c["R"], TOL, scale=np.abs(c["X"]).max(), tags=dict(op="_varimax", symptom="rotated_loadings_ne_XR"))
    P = pm[-1]
    L, Lrot, Rm = P["X"], P["Xrot"], P["R"]
    obs.check("rotated_k_modes", L.shape[1] == k and Lrot.shape == L.shape, f"rotated {L.shape} -> {Lrot.shape}, k={k}")
    obs.check("power_passed", int(P["power"]) == power, f"power {P['power']} reached _promax, asked {power}")
    obs.close("mrot_promax_Xrot_eq_XR", Lrot, L @ Rm, TOL, scale=np.abs(L).max(), tags=dict(op="_promax", symptom="rotated_loadings_ne_XR"))
    cplx_load = bool(np.iscomplexobj(L) and np.abs(np.imag(L)).max() > 0)
    obs.cell(f"loadings_complex:{cplx_load}")
    obs.nontrivial = bool(np.abs(Rm - I).max() > 1e-6)
    Rstored = np.asarray(rot.data["rotation_matrix"].transpose("mode_m", "mode_n").values)
    obs.close("stored_R_equals_captured", Rstored, Rm, TOL, scale=1.0, tags=dict(op="rotation_matrix", symptom="stored_R_differs"))
    dev = float(np.abs(Rm.conj().T @ Rm - I).max())
    obs.note("RhR_minus_I", dev)

    # ---- (iv) power 1: unitary rotation -------------------------------------------------
    if power == 1:
        obs.close("R_unitary", Rm.conj().T @ Rm, I, TOL, scale=1.0, tags=dict(op="rotation_matrix", symptom="R_not_unitary"))
        obs.close("stored_R_unitary", Rstored.conj().T @ Rstored, I, TOL, scale=1.0, tags=dict(op="rotation_matrix", symptom="R_not_unitary"))
    if fam == "single":
        Sn = xu.sample_matrix(rot.scores(normalized=True), ["time"], _coords(data[0]))
        Gs = Sn.conj().T @ Sn
        obs.close("scores_normalized_unit_norm", np.real(np.diag(Gs)), np.ones(k), TOL, scale=1.0, tags=dict(op="scores_normalized", symptom="scores_not_unit_norm"))
        if power == 1:
            obs.close("scores_orthonormal", Gs, I, TOL, scale=1.0, tags=dict(op="scores_normalized", symptom="scores_not_orthonormal"))
        else:
            obs.note("scores_gram_offdiag", float(np.abs(Gs - np.diag(np.diag(Gs))).max()))

    # ---- public components against the captured rotated loadings ----------------------------
    Cx = R_["C"][0]
    px = Cx.shape[0]
    if Lrot.shape[0] != sum(c.shape[0] for c in R_["C"]):
        obs.check("loading_rows", False, f"captured loadings have {Lrot.shape[0]} rows, public components {[c.shape[0] for c in R_['C']]}")
        return
    perm, gx, best, second = match_columns(Cx, Lrot[:px])
    is_perm = len(set(perm.tolist())) == k
    tgc = dict(op="components", symptom="components_ne_rotated_loadings")
    if np.any(second >= 1 - 1e-7):
        # two captured loading columns are parallel to working precision (an oblique rotation of loadings that are
        # dominated by one direction, e.g. the mean of an uncentred field): the assignment of public components to
        # captured columns is not unique, nothing below can be decided
        obs.count("match_ambiguous")
        obs.note("match_ambiguous", second.tolist())
        return
    obs.check("components_match_rotated_loadings", is_perm and bool(np.all(best >= 1 - 1e-9)), f"perm {perm.tolist()} |cos| {best.tolist()}", tags=tgc)
    if not (is_perm and np.all(best >= 1 - 1e-9)):
        return
    obs.count("matched")
    obs.note("perm", perm.tolist())
    gs = [gx]
    if fam == "cross":
        Cy = R_["C"][1]
        Ly = Lrot[px:][:, perm]
        with np.errstate(all="ignore"):
            gy = np.einsum("ij,ij->j", Ly.conj(), Cy) / (np.linalg.norm(Ly, axis=0) * np.linalg.norm(Cy, axis=0))
        obs.close("components2_match_same_order", np.abs(gy), np.ones(k), TOL, scale=1.0, tags=dict(tgc, field="f1"))
        gs.append(gy)
    # energies of the rotated loadings in the order the public modes are returned
    if fam == "single":
        e = (np.abs(Lrot) ** 2).sum(axis=0)
        obs.close("expvar_matches_rotated_loadings", measure, e[perm], TOL, tags=dict(tg, symptom="expvar_ne_loading_energy"))
        obs.check("order_is_sorted_energy", np.array_equal(perm, perm[np.argsort(-e[perm], kind="stable")]), f"energies {e[perm].tolist()}", tags=dict(tg, symptom="not_descending"))
    elif not _alpha_lt1(base_name, case["alpha"]):
        e = ((np.abs(Lrot[:px]) ** 2).sum(axis=0) * (np.abs(Lrot[px:]) ** 2).sum(axis=0))
        obs.close("sqcov_matches_rotated_loadings", measure, e[perm], TOL, tags=dict(tg, symptom="sqcov_ne_loading_norms"))

    # ---- (iii) sign convention -----------------------------------------------------------
    sgn = np.asarray(rot.data["modes_sign"].values)
    tgs = dict(op="modes_sign")
    obs.check("modes_sign_is_pm1", sgn.shape == (k,) and not np.iscomplexobj(sgn) and bool(np.all(np.abs(sgn) == 1)), f"modes_sign {sgn}", tags=dict(tgs, symptom="sign_not_pm1"))
    for f, gcol in enumerate(gs):
        # the public component is (positive number) x modes_sign x rotated loading: the sign was applied
        obs.close(f"sign_applied_f{f}", gcol, sgn.astype(float), 1e-7, scale=1.0, tags=dict(tgs, symptom="sign_not_applied", field=f"f{f}"))
    if not cplx_load:
        want = ref_sign(np.real(Lrot))[perm]
        dec = want != 0
        obs.count("sign_ties_skipped", int((~dec).sum()))
        obs.count("sign_decided", int(dec.sum()))
        obs.check(
            "modes_sign_convention",
            bool(np.all(sgn[dec] == want[dec])),
            f"stored modes_sign {sgn.tolist()} but the largest-magnitude entries of the rotated loadings have signs {want.tolist()} (order {perm.tolist()})",
            tags=dict(tgs, symptom="sign_convention"),
        )
        if fam == "single" and np.all(dec):
            Cr = np.real(Cx)
            obs.check("largest_loading_positive", bool(np.all(np.abs(Cr.max(axis=0)) >= np.abs(Cr.min(axis=0)))), "largest-magnitude entry of a returned component is negative", tags=dict(op="components", symptom="sign_convention"))

    # ---- subspace ---------------------------------------------------------------------
    for f in range(len(R_["C"])):
        Cb = B["C"][f][:, :k]
        if Cb.shape[0] >= k:
            sn = sin_largest_angle(R_["C"][f], Cb)
            obs.close(f"subspace_preserved_f{f}", sn, 0.0, 1e-7, scale=1.0, tags=dict(op="components", symptom="subspace_changed", field=f"f{f}"))

    # ---- (v) variance sum, (vi) Varimax criterion: power 1 only -----------------------------
    if fam == "single":
        ratio = float(measure.sum() / ev_in.sum())
        obs.note("expvar_sum_ratio", ratio)
        if power == 1:
            obs.close("expvar_sum_conserved", measure.sum(), ev_in.sum(), TOL, tags=dict(op="explained_variance", symptom="variance_sum_changed"))
            obs.close("loading_energy_conserved", (np.abs(Lrot) ** 2).sum(), (np.abs(L) ** 2).sum(), TOL, tags=dict(op="_promax", symptom="variance_sum_changed"))
    if power == 1:
        obs.note("stationarity", varimax_stationarity(Lrot))
    if power == 1 and not cplx_load:
        v0, v1 = kaiser_varimax(np.real(L)), kaiser_varimax(np.real(Lrot))
        obs.note("kaiser_gain", v1 - v0)
        obs.note("raw_gain_rel", raw_varimax(Lrot) - raw_varimax(L))
        obs.check("varimax_criterion_not_lower", v1 >= v0 - 1e-9, f"Kaiser-normalised Varimax criterion fell from {v0!r} to {v1!r}", tags=dict(op="_varimax", symptom="criterion_decreased"))
        if fam == "single" and kind == "real":
            # the same from public results only: loadings = components x sqrt(explained variance)
            Lb = np.real(B["C"][0][:, :k]) * np.sqrt(ev_in)
            Lr = np.real(Cx) * np.sqrt(measure)
            w0, w1 = kaiser_varimax(Lb), kaiser_varimax(Lr)
            obs.check("public_varimax_criterion_not_lower", w1 >= w0 - 1e-9, f"criterion of the public loadings fell from {w0!r} to {w1!r}", tags=dict(op="components", symptom="criterion_decreased"))


# --------------------------------------------------------------------------- reading results by label
def _coords(da):
    return {d: da.coords[d].values for d in da.dims}


def _read(model, fam, data, k):
    """Public components (p, k) and scores (n, k) per field, read back by label."""
    if fam == "single":
        comps, scores = [model.components()], [model.scores()]
    else:
        comps, scores = list(model.components()), list(model.scores())
    C, S = [], []
    for X, c, s in zip(data, comps, scores):
        co = _coords(X)
        fd = [d for d in X.dims if d != "time"]
        C.append(xu.feature_matrix(c, fd, co))
        S.append(xu.sample_matrix(s, ["time"], co))
    return dict(C=C, S=S)


def _data_mats(recs, data):
    out = []
    for X, r in zip(data, recs):
        fd = [d for d in X.dims if d != "time"]
        out.append(xu.data_matrix(r, ["time"], fd, _coords(X)))
    return out


# --------------------------------------------------------------------------- evidence
def evidence_extra(results, extras):
    ratios = [abs(r["info"]["expvar_sum_ratio"] - 1) for r in results if r["case"]["power"] > 1 and "expvar_sum_ratio" in r.get("info", {})]
    devs = [r["info"]["RhR_minus_I"] for r in results if r["case"]["power"] > 1 and "RhR_minus_I" in r.get("info", {})]
    raw = [r["info"]["raw_gain_rel"] for r in results if "raw_gain_rel" in r.get("info", {})]
    kg = [r["info"]["kaiser_gain"] for r in results if "kaiser_gain" in r.get("info", {})]
    st = [r["info"]["stationarity"] for r in results if "stationarity" in r.get("info", {}) and r["case"]["compute"]]
    gaps = [r["info"]["rel_gap_in"] for r in results if "rel_gap_in" in r.get("info", {})]
    return {
        "promax_max_rel_change_of_variance_sum": max(ratios) if ratios else None,
        "promax_RhR_minus_I_range": [min(devs), max(devs)] if devs else None,
        "raw_varimax_criterion_decreased_in": int(sum(1 for x in raw if x < -1e-12)),
        "kaiser_criterion_min_gain": min(kg) if kg else None,
        "smallest_relative_gap_of_input_modes": min(gaps) if gaps else None,
        "varimax_stationarity_residual_max_advisory": max(st) if st else None,
        "refused": int(sum(1 for r in results if r["status"] == "refused")),
    }
