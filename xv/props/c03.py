"""C03 -- full-mode inverse_transform restores the fitted data; score round trip; `normalized` switches.

Runtime monitor made of three oracles that observe real xeofs executions:

(1) RECON   -- oracle = the user's own input.  With no truncation requested
    (n_modes = min(n_samples, n_valid_features); cross-set: n_pca_modes="all" or
    use_pca=False) `model.inverse_transform(model.scores())` must equal the raw
    input at every valid label, in physical units, and be NaN at the labels that
    were NaN (fully missing features).  Cross-set: asserted for each field whose
    valid feature count does not exceed n_modes (n > p).  Hilbert models: real part.
(2) ROUNDTRIP -- relation between two executions: for random score arrays `s`
    (arbitrary new sample labels, modes 1..k, k <= n_modes)
    `transform(inverse_transform(s))` returns s on modes 1..k and 0 on the other
    modes (implied by the identity for zero-padded s and linearity of inverse_transform).
    Classes: EOF, ComplexEOF, EOFRotator, ComplexEOFRotator, the real and complex
    CPCCA/MCA/CCA/RDA (X and Y arrays, jointly or one field at a time) and the
    cross-set rotators on alpha=1 bases (on the fit's own sample labels only).
(3) NORMALIZED -- relations between executions that differ in the `normalized`
    switch only: they differ exactly by the per-mode norms (single-set: public
    singular_values(); cross-set: L2 norm of the un-normalised scores).

Everything is read back BY LABEL, per block (DataArray / Dataset variable / list
element); the tolerance is 1e-9 * max|X| * amplification, where the amplification
(1/weights, std, cond(C)^((1-alpha)/2)) is computed by the harness's own numpy
preprocessing of the raw input (never by xeofs).
"""
import warnings

import numpy as np

from .. import gen, oracle, xu, zoo
from ..boot import REPO
from ..obs import exception_site

LEVEL = "exploration"
RULE = (
    "structured corpus (class x container kind x full/truncated, class x alpha x use_pca for the cross-set family) "
    "+ seeded random draws over n, p, #sample dims, container kind, NaN features, scale 1e-8..1e8, "
    "center/standardize/coslat/weights (per field), alpha in {0,.25,.5,1,U[0,1]} per field, use_pca, PCA truncation, "
    "n_modes, rotation power; a case is non-trivial when at least two modes are kept and at least one flag, "
    "a multi-block container, NaN features, whitening or PCA is active; distinct = distinct canonical case record"
)
ASSUMPTIONS = [
    "the user's raw input is the oracle of the reconstruction; numpy preprocessing of the raw input only supplies error amplification factors",
    "cross-set cases have n_samples >= max(p_x, p_y) + 3 and cond(C) of each whitened field is bounded (else skipped as ambiguous)",
    "random score arrays are drawn at the magnitude of the fitted scores (so adding the mean back does not swamp them)",
    "per-mode relations of the normalized switches are asserted on modes whose singular value exceeds 1e-8 of the first",
    "latitudes stay within +-80 degrees and user weights within [0.4, 2.5] (weights of 0 cannot be undone by any code)",
    "cross-set rotators: only alpha=1 bases (MCARotator, ComplexMCARotator, CPCCARotator on CPCCA(alpha=1)) and only score arrays on the "
    "fit's own sample labels enter the score round trip; their transform for alpha<1 / unseen labels is decided by C04/C05",
    "rotators get at least two and at most min(n-1, p) modes (a null mode cannot be rotated); a rotation that reports non-convergence counts as refused",
    "rotators run at data scale >= 1e-2: promax adds machine eps to the communalities, so rotated loadings are exact only to eps/|loading| (C11's subject)",
]

SINGLE_BASE = ("EOF", "ComplexEOF", "HilbertEOF")
SINGLE_ROT = ("EOFRotator", "ComplexEOFRotator")
CROSS = tuple(zoo.CROSS)
# cross-set rotators whose base model does no whitening (alpha = 1): rotator -> (base class, alpha passed to the base)
CROSS_ROT = {"MCARotator": ("MCA", None), "ComplexMCARotator": ("ComplexMCA", None), "CPCCARotator": ("CPCCA", [1.0, 1.0])}
KINDS = ("da1", "da2", "ds", "list", "list_ds", "ds_mixed")
ALPHAS = (0.0, 0.25, 0.5, 1.0, None)  # None -> random in [0, 1]
TOL = 1e-9


def setup(tier):
    return None


def required(tier):
    return {
        "mon": ["op:inverse_transform(scores)", "op:transform(inverse_transform(s))", "op:normalized_switch"],
        "cover": [f"cls:{c}" for c in SINGLE_BASE + SINGLE_ROT + CROSS + tuple(CROSS_ROT)]
        + [f"container:{k}" for k in KINDS]
        + ["fam:recon", "fam:roundtrip", "fam:normalized", "alpha:0", "alpha:1", "alpha:mid", "use_pca:True", "use_pca:False",
           "pca:truncated", "nsd:1", "nsd:2", "nan_features", "cplx:True", "recon:both_fields", "center:False", "history:aged", "history:fresh"],
        "max_refused_share": 0.1,
    }


# ======================================================================================
# case generation (numpy only, JSON-able)
# ======================================================================================
def _is_hilbert(cls):
    return cls.startswith("Hilbert")


def _is_complex_cls(cls):
    return cls.startswith("Complex")


def _eff_alpha(cls, alphas):
    base = cls.replace("Complex", "").replace("Hilbert", "")
    if base == "MCA":
        return [1.0, 1.0]
    if base == "CCA":
        return [0.0, 0.0]
    if base == "RDA":
        return [0.0, 1.0]
    return list(alphas)


def _draw_field(rng, kind=None, pmax=24, single=True):
    kind = kind or str(rng.choice(KINDS, p=[0.27, 0.27, 0.17, 0.15, 0.1, 0.04]))
    a = int(rng.integers(1, 4))
    b = int(rng.integers(1, 5))
    c = int(rng.integers(1, 6))
    if not single:  # keep cross-set fields small: p <= ~12
        a = int(rng.integers(1, 3))
        b = int(rng.integers(1, 4))
        c = int(rng.integers(1, 5))
    if kind in ("ds", "list_ds", "ds_mixed") and rng.random() < 0.88:
        # length-1 dimensions inside a Dataset are legal but hit a (reported) structural defect: keep them rare
        a, b = max(a, 2), max(b, 2)
    if kind == "da1":
        shapes = [[int(rng.integers(1, (pmax if single else 10) + 1))]]
    elif kind == "da2":
        shapes = [[a, b + (1 if single else 0)]]
    elif kind == "ds":
        shapes = [[a, b], [a, b]]
    elif kind == "ds_mixed":
        shapes = [[max(a, 2), max(b, 2)], [max(a, 2)]]
    elif kind == "list":
        shapes = [[c], [a, b]]
    elif kind == "list_ds":
        shapes = [[a, b], [a, b], [c]]
    else:
        raise ValueError(kind)
    nan = [0] * len(shapes)
    if rng.random() < 0.25:
        j = int(rng.integers(0, len(shapes)))
        pb = int(np.prod(shapes[j]))
        if pb >= 2:
            nan[j] = int(rng.integers(1, pb))
    return dict(
        kind=kind,
        shapes=shapes,
        nan=nan,
        standardize=bool(rng.random() < 0.35),
        coslat=bool(rng.random() < 0.35),
        weights=bool(rng.random() < 0.4),
    )


def _pvalid(field):
    return int(sum(int(np.prod(s)) - k for s, k in zip(field["shapes"], field["nan"])))


def _has_ds(field):
    return field["kind"] in ("ds", "list_ds", "ds_mixed")


def _set_samples(c, rng, nmin, nmax, force_nsd=None):
    """Number of samples and sample-dimension layout.  Dataset containers prefer two sample dims because a
    Dataset with ONE sample dim hits a (reported) defect before any number can be compared."""
    any_ds = any(_has_ds(f) for f in c["fields"])
    nsd = force_nsd or (2 if rng.random() < (0.75 if any_ds else 0.25) else 1)
    n = int(rng.integers(nmin, max(nmin, nmax) + 1))
    if nsd == 2:
        n1 = int(rng.integers(2, 5))
        n2 = int(np.ceil(n / n1))
        n2 = max(n2, 2)
        c["n12"] = [n1, n2]
        n = n1 * n2
    c["nsd"] = nsd
    c["n"] = n
    c["perm"] = bool(rng.random() < 0.3)


def _scale_exp(rng):
    if rng.random() < 0.06:
        return int(rng.choice([-8, -7]))
    return int(rng.integers(-6, 9))


def _draw_single(rng, cls=None, kind=None, full=None, nsd=None):
    cls = cls or str(rng.choice(SINGLE_BASE + SINGLE_ROT, p=[0.36, 0.22, 0.2, 0.12, 0.1]))
    rot = cls in SINGLE_ROT
    f = _draw_field(rng, kind, single=True)
    c = dict(fam="single", cls=cls, fields=[f])
    c["full"] = bool(not rot and (rng.random() < 0.65 if full is None else full))
    # HilbertEOF(center=False) hits a (reported) defect in every full-mode case: keep its share small
    c["center"] = bool(rng.random() < (0.85 if _is_hilbert(cls) else 0.7))
    nmin = 6 if _is_hilbert(cls) else 4
    _set_samples(c, rng, nmin, 36, nsd)
    c["cplx"] = bool(cls in ("ComplexEOF", "ComplexEOFRotator") and rng.random() < 0.8)
    c["scale_exp"] = _scale_exp(rng)
    c["kfrac"] = float(rng.random())
    c["dseed"] = int(rng.integers(0, 2**31 - 1))
    if _is_hilbert(cls):
        c["padding"] = str(rng.choice(["exp", "none"]))
        c["decay"] = float(rng.choice([0.05, 0.2, 0.5]))
    if rot:
        c["power"] = int(rng.choice([1, 2]))
        c["rfrac"] = float(rng.random())
        # promax adds an absolute stabiliser (machine eps) to the communalities: rotated loadings are exact only
        # to eps/|loading|, a scale-dependent inexactness that belongs to C11 -> rotators run at scale >= 1e-2
        c["scale_exp"] = int(max(c["scale_exp"], -2))
    return c


def _draw_cross(rng, cls=None, kinds=(None, None), full=None, alpha=None, use_pca=None, nsd=None, equal_p=None):
    cls = cls or (str(rng.choice(list(CROSS_ROT))) if rng.random() < 0.08 else str(rng.choice(CROSS)))
    rot = cls in CROSS_ROT
    if rot:
        full = False
        alpha = (1.0, 1.0)
    fx = _draw_field(rng, kinds[0], single=False)
    fy = _draw_field(rng, kinds[1], single=False)
    eq = bool(rng.random() < 0.3) if equal_p is None else equal_p
    if eq:
        keep = {k: fy[k] for k in ("standardize", "coslat", "weights")}
        fy = dict(fx, **keep)
        fy["shapes"] = [list(s) for s in fx["shapes"]]
        fy["nan"] = list(fx["nan"])
    c = dict(fam="cross", cls=cls, fields=[fx, fy])
    c["full"] = bool(rng.random() < 0.6 if full is None else full)
    for i, f in enumerate(c["fields"]):
        a = ALPHAS[int(rng.integers(0, len(ALPHAS)))] if alpha is None else alpha[i]
        f["alpha"] = float(rng.random()) if a is None else float(a)
        f["use_pca"] = bool(rng.random() < 0.6) if use_pca is None else bool(use_pca[i])
        # PCA truncation only when the case is not a full-mode case
        f["pca_frac"] = float(rng.uniform(0.3, 1.0)) if (not c["full"] and f["use_pca"] and rng.random() < 0.5) else None
    pmax = max(_pvalid(fx), _pvalid(fy))
    nmin = max(pmax + 3, 8 if _is_hilbert(cls) else 5)
    _set_samples(c, rng, nmin, nmin + 14, nsd)
    c["cplx"] = bool(_is_complex_cls(cls) and rng.random() < 0.8)
    c["scale_exp"] = _scale_exp(rng)
    c["kfrac"] = float(rng.random())
    c["dseed"] = int(rng.integers(0, 2**31 - 1))
    if _is_hilbert(cls):
        c["padding"] = [str(rng.choice(["exp", "none"])) for _ in range(2)]
        c["decay"] = [float(rng.choice([0.05, 0.2, 0.5])) for _ in range(2)]
    c["xy_mode"] = str(rng.choice(["both", "both", "separate"]))
    if rot:
        c["power"] = int(rng.choice([1, 2]))
        c["rfrac"] = float(rng.random())
        c["scale_exp"] = int(max(c["scale_exp"], -2))  # see _draw_single
        c["xy_mode"] = "both"
    return c


def cases(tier, seed):
    out = []
    i = 0
    # ---- structured corpus (seed independent) -------------------------------------
    for cls in SINGLE_BASE:
        for kind in KINDS:
            for full in (True, False):
                for nsd in (1, 2):
                    # Dataset + one sample dim / mixed-dims Datasets only witness reported defects: one each per class
                    if nsd == 1 and kind in ("list_ds", "ds_mixed"):
                        continue
                    if kind in ("ds", "ds_mixed") and ((nsd == 1) or kind == "ds_mixed") and not full:
                        continue
                    out.append(_draw_single(gen.rng_for(3003, i), cls, kind, full, nsd))
                    i += 1
    for cls in SINGLE_ROT:
        for kind in ("da1", "da2", "list", "ds"):
            out.append(_draw_single(gen.rng_for(3003, i), cls, kind, False, 2 if kind == "ds" else None))
            i += 1
    for cls in CROSS:
        # every class: alpha grid only bites for the CPCCA variants
        grid = [(a, b) for a in (0.0, 0.25, 0.5, 1.0, None) for b in (0.0, 0.5, 1.0, None)] if cls.endswith("CPCCA") else [(None, None)] * 4
        for j, al in enumerate(grid):
            up = [(True, True), (False, False), (True, False), (False, True)][j % 4]
            r = gen.rng_for(3003, i)
            out.append(_draw_cross(r, cls, (None, None), full=(j % 3 != 2), alpha=al, use_pca=up, equal_p=(j % 4 == 0)))
            i += 1
    for cls in CROSS_ROT:
        for j in range(4):
            out.append(_draw_cross(gen.rng_for(3003, i), cls, (None, None), use_pca=[(True, True), (False, False), (True, False), (False, True)][j]))
            i += 1
    for kx in KINDS:
        for ky in ("da1", "ds", "list"):
            r = gen.rng_for(3003, i)
            out.append(_draw_cross(r, str(r.choice(["CPCCA", "MCA", "CCA", "RDA", "ComplexCPCCA"])), (kx, ky), full=True, nsd=2 if "ds" in (kx + ky) else None))
            i += 1
    # ---- grids containing latitude +-90 exactly (row-wise tolerance, see c03_pole.py) ----
    from . import c03_pole

    out.extend(c03_pole.cases(tier))
    # ---- seeded random part ---------------------------------------------------------
    nrand = 700 if tier == "quick" else 15000
    for j in range(nrand):
        r = gen.rng_for(seed, 3, j)
        out.append(_draw_single(r) if r.random() < 0.45 else _draw_cross(r))
    return out


# ======================================================================================
# workload construction
# ======================================================================================
def _layout(field):
    """list of items; item = dict(type 'da'|'ds', blocks=[dict(name, fshape, fdims)])"""
    k = field["kind"]
    sh = [tuple(s) for s in field["shapes"]]
    d1 = ("lat",) if field["coslat"] else ("x",)
    d2 = ("lat", "lon")

    def blk(name, shape, dims):
        return dict(name=name, fshape=tuple(shape), fdims=tuple(dims))

    if k == "da1":
        return False, [dict(type="da", blocks=[blk("f0", sh[0], d1)])]
    if k == "da2":
        return False, [dict(type="da", blocks=[blk("f0", sh[0], d2)])]
    if k == "ds":
        return False, [dict(type="ds", blocks=[blk("v0", sh[0], d2), blk("v1", sh[1], d2)])]
    if k == "ds_mixed":
        return False, [dict(type="ds", blocks=[blk("v0", sh[0], d2), blk("v1", sh[1], ("lat",))])]
    if k == "list":
        return True, [dict(type="da", blocks=[blk("f0", sh[0], d1)]), dict(type="da", blocks=[blk("f1", sh[1], d2)])]
    if k == "list_ds":
        return True, [dict(type="ds", blocks=[blk("v0", sh[0], d2), blk("v1", sh[1], d2)]), dict(type="da", blocks=[blk("f1", sh[2], d1)])]
    raise ValueError(k)


def _fcoords(fdims, fshape, item_no):
    co = {}
    for d, k in zip(fdims, fshape):
        if d == "lat":
            co[d] = (np.linspace(-70.0, 75.0, k) if k > 1 else np.array([30.0])) + 2.5 * item_no
        elif d == "lon":
            co[d] = np.arange(k) * 20.0 + 5.0 + item_no
        else:
            co[d] = np.arange(k) * 10 + 5 + item_no
    return co


def _samples(case, rng):
    if case["nsd"] == 1:
        lab = np.arange(case["n"]) * 3 + 1
        if case.get("perm"):
            lab = rng.permutation(lab)
        return ("time",), {"time": lab}, (case["n"],)
    n1, n2 = case["n12"]
    return ("year", "month"), {"year": 2000 + np.arange(n1), "month": np.arange(1, n2 + 1)}, (n1, n2)


def _raw_matrix(n, p, rng, cplx, scale, conditioned):
    """n x p raw data.  `conditioned`: prescribed, mildly decaying spectrum (cross-set fields that get whitened)."""
    if conditioned and n - 1 >= p:
        s = np.linspace(1.0, 0.3, p) if p > 1 else np.ones(1)
        A, _, _ = gen.low_rank(n, p, s, rng, cplx=cplx, perp_ones=True)
        A = A * np.sqrt(n) * rng.uniform(0.6, 1.6, size=p)
    else:
        A = rng.standard_normal((n, p)) * (0.5 + rng.random(p))
        if cplx:
            A = A + 1j * rng.standard_normal((n, p)) * (0.5 + rng.random(p))
    off = 2.0 * rng.standard_normal(p)
    if cplx:
        off = off + 2.0j * rng.standard_normal(p)
    return (A + off) * scale


def build_field(case, fi, rng, sdims, scoords, sshape):
    """User-level container of field `fi` + per-block bookkeeping + the harness's own preprocessing."""
    import xarray as xr

    field = case["fields"][fi]
    n = case["n"]
    cplx = case["cplx"]
    scale = 10.0 ** case["scale_exp"]
    is_list, items = _layout(field)
    ptot = int(sum(int(np.prod(s)) for s in field["shapes"]))
    M = _raw_matrix(n, ptot, rng, cplx, scale, conditioned=(case["fam"] == "cross"))
    center = case["center"] if case["fam"] == "single" else True
    blocks = []
    col = 0
    bno = 0
    objs, wobjs = [], []
    for ino, it in enumerate(items):
        das, was = {}, {}
        for b in it["blocks"]:
            pb = int(np.prod(b["fshape"]))
            Mb = np.array(M[:, col : col + pb])
            col += pb
            valid = np.ones(pb, dtype=bool)
            k = field["nan"][bno]
            if k:
                valid[rng.choice(pb, size=k, replace=False)] = False
                Mb[:, ~valid] = np.nan
            fco = _fcoords(b["fdims"], b["fshape"], ino)
            co = dict(scoords)
            co.update(fco)
            da = xr.DataArray(Mb.reshape(tuple(sshape) + b["fshape"]), dims=tuple(sdims) + b["fdims"], coords=co, name=b["name"])
            w_cos = None
            if field["coslat"]:
                wl = oracle.coslat_weights(fco["lat"])
                w_cos = np.repeat(wl, b["fshape"][1]) if len(b["fshape"]) == 2 else wl
            w_user = None
            if field["weights"]:
                w_user = rng.uniform(0.4, 2.5, size=pb)
                was[b["name"]] = xr.DataArray(w_user.reshape(b["fshape"]), dims=b["fdims"], coords=fco, name=b["name"])
            Xp, prm = oracle.preprocess(
                Mb[:, valid],
                center,
                field["standardize"],
                None if w_cos is None else w_cos[valid],
                None if w_user is None else w_user[valid],
                return_params=True,
            )
            blocks.append(dict(b, item=ino, type=it["type"], M=Mb, valid=valid, da=da, Xp=Xp, prm=prm, fcoords=fco))
            das[b["name"]] = da
            bno += 1
        if it["type"] == "ds":
            objs.append(xr.Dataset(das))
            wobjs.append(xr.Dataset(was) if was else None)
        else:
            objs.append(next(iter(das.values())))
            wobjs.append(next(iter(was.values())) if was else None)
    data = objs if is_list else objs[0]
    weights = None
    if field["weights"]:
        weights = wobjs if is_list else wobjs[0]
    Xp_all = np.concatenate([b["Xp"] for b in blocks], axis=1)
    xmax = max(float(np.max(np.abs(Xp_all))) if Xp_all.size else 0.0, np.finfo(float).tiny)
    mmax = max(float(np.nanmax(np.abs(M))), np.finfo(float).tiny)
    for b in blocks:
        # an absolute error eps*xmax in preprocessed units becomes eps*xmax*std/w in physical units
        b["un_amp"] = float(np.max(b["prm"]["std"] / b["prm"]["w"])) if b["Xp"].size else 1.0
        b["re_amp"] = float(np.max(b["prm"]["w"] / b["prm"]["std"])) if b["Xp"].size else 1.0
    return dict(
        data=data, weights=weights, is_list=is_list, items=items, blocks=blocks, Xp=Xp_all, xmax=xmax, mmax=mmax,
        pv=Xp_all.shape[1], sdims=tuple(sdims), scoords=scoords, center=center,
    )


# ======================================================================================
# reading results back by label
# ======================================================================================
def _navigate(result, F, b):
    obj = result
    if F["is_list"]:
        if not isinstance(obj, (list, tuple)) or len(obj) != len(F["items"]):
            return None, f"expected a list of {len(F['items'])} objects, got {type(obj).__name__}"
        obj = obj[b["item"]]
    if b["type"] == "ds":
        import xarray as xr

        if not isinstance(obj, xr.Dataset) or b["name"] not in obj.data_vars:
            return None, f"expected a Dataset with variable {b['name']}, got {type(obj).__name__}"
        obj = obj[b["name"]]
    return obj, None


def block_values(obs, name, result, F, b, lead_dims, lead_coords, tags, need_mode=False):
    """Values of block `b` inside a container-shaped result as (prod(lead), p_b [, rest]) ordered by label."""
    import xarray as xr

    obj, err = _navigate(result, F, b)
    if err is None and not isinstance(obj, xr.DataArray):
        err = f"expected a DataArray, got {type(obj).__name__}"
    want = set(lead_dims) | set(b["fdims"]) | ({"mode"} if need_mode else set())
    if err is None:
        extra = set(obj.dims) - want
        missing = want - set(obj.dims)
        if extra or missing:
            err = f"block {b['name']}: dims {obj.dims}, expected {tuple(lead_dims) + b['fdims'] + (('mode',) if need_mode else ())}"
    if err is None:
        for d in list(lead_dims) + list(b["fdims"]):
            lab = lead_coords[d] if d in lead_coords else b["fcoords"][d]
            have = obj.coords[d].values
            if len(have) != len(lab) or set(have.tolist()) != set(np.asarray(lab).tolist()):
                err = f"block {b['name']}: labels of '{d}' differ from the input's"
                break
    if err is not None:
        obs.check(name + "_structure", False, err, tags=dict(tags, symptom="structure"))
        return None
    obs.check(name + "_structure", True)
    co = dict(b["fcoords"])
    co.update(lead_coords)
    dims = list(lead_dims) + list(b["fdims"])
    v = xu.to_np(obj, dims, co)
    nl = int(np.prod([len(lead_coords[d]) for d in lead_dims])) if lead_dims else 1
    return v.reshape((nl, -1) + v.shape[1:])


def score_matrix(da, sdims, scoords, modes):
    """(n, k) matrix of a scores-like DataArray for the listed modes, rows ordered by the given labels."""
    da = da.sel(mode=list(modes))
    v = xu.to_np(da, list(sdims), scoords)
    return v.reshape(v.shape[0], -1)


def _call(obs, op, fn, tags=None):
    """Run an xeofs call the property says must succeed; an exception from xeofs code becomes a violation of
    this operation (and the case goes on with the other oracles)."""
    try:
        with warnings.catch_warnings():
            warnings.simplefilter("ignore")
            return fn()
    except Exception as e:  # noqa: BLE001
        if type(e).__name__ == "_CaseTimeout":
            raise
        site = exception_site(e, REPO)
        if site is None:
            raise
        obs.n_checks += 1
        obs.fail(
            "unexpected_exception",
            f"{op}: {type(e).__name__}: {e}",
            tags=dict(tags or {}, op=op, symptom="exception", exc=type(e).__name__, site=site),
        )
        return None


def _colrel(obs, name, got, want, tol, active, tags):
    """Per-mode comparison: every active column relative to its own magnitude."""
    got = np.asarray(got)
    want = np.asarray(want)
    if got.shape != want.shape:
        obs.check(name, False, f"shape {got.shape} vs {want.shape}", tags=tags)
        return
    cs = np.max(np.abs(np.where(np.isnan(want), 0, want)), axis=0)
    cs = np.where(cs > 0, cs, 1.0)
    obs.close(name, (got / cs)[:, active], (want / cs)[:, active], tol, scale=1.0, tags=tags)


# ======================================================================================
# the three oracles
# ======================================================================================
def _random_scores(lrng, vrng, sdims, k, cplx, mag, min_len=1, fit_labels=None):
    """Random score array: labels from `lrng` (shared by the fields of a case), numbers from `vrng`.
    `fit_labels`: use exactly the sample labels of the fit (cross-set rotators)."""
    import xarray as xr

    if fit_labels is not None:
        sco = {d: np.asarray(fit_labels[d]) for d in sdims}
        shape = tuple(len(sco[d]) for d in sdims)
    elif len(sdims) == 1:
        m = max(int(lrng.integers(1, 10)), min_len)
        kind = int(lrng.integers(0, 3))
        if kind == 0:
            lab = np.sort(lrng.choice(np.arange(-50, 200), size=m, replace=False))
        elif kind == 1:
            lab = lrng.permutation(np.arange(m) * 7 + 1000)
        else:
            lab = np.round(lrng.uniform(-5, 5, size=m), 3) + np.arange(m) * 11.0
        sco = {sdims[0]: lab}
        shape = (m,)
    else:
        m1, m2 = max(int(lrng.integers(1, 4)), min_len), max(int(lrng.integers(1, 5)), min_len)
        sco = {sdims[0]: 1900 + lrng.permutation(np.arange(m1)) * 3, sdims[1]: np.arange(m2) + 20}
        shape = (m1, m2)
    vals = vrng.standard_normal(shape + (k,))
    if cplx:
        vals = vals + 1j * vrng.standard_normal(shape + (k,))
    vals = vals * mag * vrng.uniform(0.2, 2.0, size=k)
    co = dict(sco)
    co["mode"] = np.arange(1, k + 1)
    s = xr.DataArray(vals, dims=tuple(sdims) + ("mode",), coords=co, name="scores")
    if vrng.random() < 0.3:
        s = s.transpose("mode", *sdims)
    return s, sco


def run_case(case, obs):
    import xarray as xr  # noqa: F401

    if case.get("kind") == "pole":
        from . import c03_pole

        return c03_pole.run_case(case, obs)
    cls = case["cls"]
    fam = case["fam"]
    rng = gen.rng_for(case["dseed"], 33)
    sdims, scoords, sshape = _samples(case, rng)
    nf = len(case["fields"])
    F = [build_field(case, fi, rng, sdims, scoords, sshape) for fi in range(nf)]
    n = case["n"]
    hil = _is_hilbert(cls)
    complex_cls = _is_complex_cls(cls) or cls == "ComplexEOFRotator"
    rot = cls in SINGLE_ROT or cls in CROSS_ROT
    has_ds = any(_has_ds(f) for f in case["fields"])

    # ---- configuration -------------------------------------------------------------
    alphas = [1.0] * nf
    conds = [1.0] * nf
    cov_tiny = False
    if fam == "cross":
        alphas = _eff_alpha(cls, [f["alpha"] for f in case["fields"]])
    pv = [f["pv"] for f in F]
    q = list(pv)  # feature count after the (possibly truncating) PCA
    if fam == "single":
        kmax = min(n, pv[0])
        if cls in SINGLE_ROT:
            kmax = min(n - 1, pv[0])  # never hand a null mode (centred data: rank <= n-1) to the rotation
        k = kmax if case["full"] else int(np.clip(1 + int(case["kfrac"] * kmax), 1, kmax))
    else:
        for i, f in enumerate(case["fields"]):
            if f["use_pca"] and f.get("pca_frac") and not case["full"]:
                q[i] = int(np.clip(int(np.ceil(f["pca_frac"] * pv[i])), 1, pv[i]))
                if case["cplx"] and q[i] <= int(0.8 * pv[i]):
                    q[i] = pv[i]  # complex + few PCA modes would use scipy svds(lobpcg): C15's subject, not ours
        kmax = min(q)
        k = kmax if case["full"] else int(np.clip(1 + int(case["kfrac"] * kmax), 1, kmax))
        # conditioning of the matrices that get whitened (harness-side numpy only)
        for i, f in enumerate(case["fields"]):
            Z = F[i]["Xp"]
            if hil:
                pad = case["padding"][i]
                Z = oracle.hilbert_augment(Z.real, pad if pad != "none" else None, case["decay"][i])
            if q[i] < pv[i]:
                _, _, Vt = np.linalg.svd(F[i]["Xp"], full_matrices=False)
                Z = Z @ Vt[: q[i]].conj().T
            ev = np.linalg.eigvalsh(Z.conj().T @ Z / n)
            lo = max(float(ev.min()), 0.0)
            conds[i] = float(ev.max() / max(lo, np.finfo(float).tiny))
            # (the absolute-eps cut-off of the fractional matrix power, which made tiny-scale data a
            # separate mechanism, was repaired in the repository: scale no longer matters, only cond(C))
        for i in range(nf):
            if alphas[i] < 1 - 1e-12 and (conds[i] ** (1 - alphas[i]) > 1e8 or conds[i] > 1e10) and not cov_tiny:
                # numerically singular covariance (e.g. an unpadded analytic signal of n samples spans only ~n/2
                # dimensions): which eigen-directions the fractional power keeps is a rank decision, not unique
                obs.ambiguous(f"field {i}: cond(C) = {conds[i]:.2e}, cond(C)^(1-alpha) = {conds[i] ** (1 - alphas[i]):.2e}")
    if rot:
        if kmax < 2:
            obs.refuse("a rotation needs at least two modes (documented refusal)")
        k = max(k, 2)
    wfac = [float(conds[i] ** ((1 - alphas[i]) / 2)) for i in range(nf)]
    alpha_lt1 = bool(any(a < 1 - 1e-12 for a in alphas))
    use_pca_any = bool(fam == "cross" and any(f["use_pca"] for f in case["fields"]))

    obs.tag(
        cls=cls,
        fam=fam,
        container=[f["kind"] for f in case["fields"]],  # list: matchable context, not part of the grouping key
        has_dataset=has_ds,
        mixed_dims_dataset=bool(any(f["kind"] == "ds_mixed" for f in case["fields"])),
        one_sample_dim=bool(case["nsd"] == 1),
        alpha_lt1=alpha_lt1,
        use_pca=use_pca_any,
        cov_eig_abs_tiny=bool(cov_tiny),
        center=bool(case["center"]) if fam == "single" else True,
        # numeric facts: usable in known-finding predicates, not part of the grouping key
        scale_exp=case["scale_exp"],
        cplx=int(case["cplx"]),
        full=int(case["full"]),
        n_modes=int(k),
    )
    ds_f1 = [
        bool(any(b["type"] == "ds" and 1 in b["fshape"] for b in F[i]["blocks"])) for i in range(nf)
    ]
    ds_i = [_has_ds(f) for f in case["fields"]]
    obs.cell(f"cls:{cls}", f"nsd:{case['nsd']}", f"cplx:{case['cplx']}", f"full:{case['full']}")
    for f in case["fields"]:
        obs.cell(f"container:{f['kind']}")
        for fl in ("standardize", "coslat", "weights"):
            obs.cell(f"{fl}:{f[fl]}")
        if any(f["nan"]):
            obs.cell("nan_features")
        if fam == "cross":
            obs.cell(f"use_pca:{f['use_pca']}")
    if fam == "single":
        obs.cell(f"center:{case['center']}")
    for i in range(nf):
        if fam == "cross":
            a = alphas[i]
            obs.cell("alpha:0" if a < 1e-12 else ("alpha:1" if a > 1 - 1e-12 else "alpha:mid"))
            if q[i] < pv[i]:
                obs.cell("pca:truncated")
    # every third case: the model object was fitted on other data of the same structure, queried and inverted
    # before the fit that is judged (zoo._age) -- nothing of that may leak into the restored data
    aged = bool(case["dseed"] % 3 == 0)
    obs.cell(f"history:{'aged' if aged else 'fresh'}")
    obs.tag(history="aged" if aged else "fresh")
    obs.note("n_modes", k)
    obs.note("pv", pv)
    obs.note("cond", conds)
    active_cfg = bool(
        any(f["standardize"] or f["coslat"] or f["weights"] or any(f["nan"]) or len(f["shapes"]) > 1 for f in case["fields"])
        or alpha_lt1
        or use_pca_any
    )
    obs.nontrivial = bool(k >= 2 and active_cfg)

    # ---- fit -------------------------------------------------------------------------
    try:
        if fam == "single":
            base_cls = zoo.SINGLE_ROT.get(cls, cls)
            kw = dict(
                n_modes=k,
                center=case["center"],
                standardize=case["fields"][0]["standardize"],
                use_coslat=case["fields"][0]["coslat"],
                solver="full",
                random_state=case["dseed"] % 1000,
            )
            if _is_hilbert(base_cls):
                kw.update(padding=case["padding"] if case["padding"] != "none" else None, decay_factor=case["decay"])
            rot_kw = None
            if cls in SINGLE_ROT:
                m = int(np.clip(2 + int(case["rfrac"] * (k - 1)), 1, k)) if k >= 2 else 1
                rot_kw = dict(n_modes=m, power=case["power"])
                k = m
            weights = [F[0]["weights"]] if F[0]["weights"] is not None else None
            fitted = zoo.fit(cls, [F[0]["data"]], sdims if len(sdims) > 1 else sdims[0], kw, rot_kw=rot_kw, weights=weights, aged=aged)
        else:
            kw = dict(
                n_modes=k,
                standardize=[f["standardize"] for f in case["fields"]],
                use_coslat=[f["coslat"] for f in case["fields"]],
                use_pca=[f["use_pca"] for f in case["fields"]],
                n_pca_modes=[("all" if q[i] == pv[i] else int(q[i])) for i in range(nf)],
                solver="full",
                random_state=case["dseed"] % 1000,
            )
            if cls.endswith("CPCCA") or cls == "CPCCARotator":
                kw["alpha"] = [float(a) for a in alphas]
            if hil:
                kw["padding"] = [(p if p != "none" else None) for p in case["padding"]]
                kw["decay_factor"] = list(case["decay"])
            weights = [F[0]["weights"], F[1]["weights"]] if (F[0]["weights"] is not None or F[1]["weights"] is not None) else None
            rot_kw, base_name = None, None
            if cls in CROSS_ROT:
                m = int(np.clip(2 + int(case["rfrac"] * (k - 1)), 2, k))
                rot_kw, base_name = dict(n_modes=m, power=case["power"]), CROSS_ROT[cls][0]
                k = m
            fitted = zoo.fit(cls, [F[0]["data"], F[1]["data"]], sdims if len(sdims) > 1 else sdims[0], kw, rot_kw=rot_kw, base_name=base_name, weights=weights, aged=aged)
    except RuntimeError as e:
        if rot and "did not converge" in str(e):
            # the iterative rotation gave up within max_iter: its documented refusal; convergence is C11's subject
            obs.refuse("rotation did not converge")
        raise
    model = fitted.model
    modes = np.arange(1, k + 1)

    # ---- scores (needed by all three oracles) ------------------------------------------
    sc = _call(obs, "scores", lambda: fitted.scores())
    if sc is None:
        return
    S = []
    for i in range(nf):
        ok = set(sc[i].dims) == set(sdims) | {"mode"} and sc[i].sizes["mode"] == k
        obs.check("scores_dims", ok, f"scores dims {sc[i].dims} sizes {dict(sc[i].sizes)}; expected {sdims}+mode({k})", tags={"op": "scores", "symptom": "structure"})
        if not ok:
            return
        S.append(score_matrix(sc[i], sdims, scoords, modes))
    smag = []
    for i in range(nf):
        m_ = float(np.nanmax(np.abs(S[i]))) if np.isfinite(S[i]).any() else 1.0
        smag.append(m_ if m_ > 0 else 1.0)

    # a Dataset result loses its length-1 dimensions (reported defect): one-sample score arrays mostly go to the other containers
    min_len_s = 2 if (has_ds and case["dseed"] % 10 != 0) else 1

    # ==== (1) RECON =========================================================================
    if case["full"] and not rot:
        obs.cell("fam:recon")
        asserted = [i for i in range(nf) if (fam == "single" or pv[i] <= k)]
        if fam == "cross" and len(asserted) == 2:
            obs.cell("recon:both_fields")
        rec = _call(obs, "inverse_transform(scores)", lambda: fitted.inverse_transform(*sc), dict(ds_size1_dim=any(ds_f1)))
        obs.count("op:inverse_transform(scores)")
        if rec is not None:
            for i in asserted:
                _check_recon(obs, "recon", rec[i], F[i], sdims, scoords, wfac[i], hil, dict(op="inverse_transform(scores)", field="XY"[i] if fam == "cross" else "X", ds_size1_dim=ds_f1[i]))
        # the same through the normalised door (single-set API only)
        if fam == "single":
            scn = _call(obs, "scores(normalized=True)", lambda: fitted.scores(normalized=True))
            if scn is not None:
                recn = _call(obs, "inverse_transform(scores_n,normalized=True)", lambda: fitted.inverse_transform(scn[0], normalized=True), dict(ds_size1_dim=ds_f1[0]))
                sv = np.asarray(model.singular_values().values, dtype=float)
                if recn is not None and np.all(sv > 1e-8 * sv[0]):
                    _check_recon(obs, "recon_normalized", recn[0], F[0], sdims, scoords, 1.0, hil, dict(op="inverse_transform(scores_n,normalized=True)", field="X", ds_size1_dim=ds_f1[0]))

    # ==== (2) ROUNDTRIP ====================================================================
    s_rand = None
    inv_f, back_f, kk = [None] * nf, [None] * nf, k
    if cls in zoo.HAS_TRANSFORM and cls in zoo.HAS_INVERSE:
        obs.cell("fam:roundtrip")
        fit_labels = scoords if cls in CROSS_ROT else None
        kk = int(rng.integers(1, k + 1)) if rng.random() < 0.5 else k
        cplx_s = bool(complex_cls)
        s_rand, s_co = [], None
        for i in range(nf):
            s_i, s_co_i = _random_scores(gen.rng_for(case["dseed"], 44), gen.rng_for(case["dseed"], 45 + i), sdims, kk, cplx_s, smag[i], min_len_s, fit_labels)
            s_rand.append(s_i)
            s_co = s_co_i
        amp = []
        for i in range(nf):
            re_amp = max(b["re_amp"] for b in F[i]["blocks"])
            a_ = wfac[i] * (1.0 + F[i]["mmax"] * re_amp / F[i]["xmax"])
            amp.append(a_)
        if rot:
            # the rotator's transform divides by the singular values of the rotated modes
            svb = np.linalg.svd(F[0]["Xp"] if cls in SINGLE_ROT else F[0]["Xp"].conj().T @ F[1]["Xp"], compute_uv=False)
            spread = float(svb[0] / max(svb[min(k, len(svb)) - 1], np.finfo(float).tiny))
            if spread > 1e6:
                obs.ambiguous(f"rotated set contains a (near-)null mode: sigma_1/sigma_k = {spread:.1e}")
            amp = [a_ * 10.0 * spread for a_ in amp]
        tags2 = dict(op="transform(inverse_transform(s))", symptom="roundtrip_differs")
        s_size1 = bool(any(len(v) == 1 for v in s_co.values()))
        sz = [bool(ds_f1[i] or (ds_i[i] and s_size1)) for i in range(nf)]
        if fam == "single" or case["xy_mode"] == "both":
            inv = _call(obs, "inverse_transform(s)", lambda: fitted.inverse_transform(*s_rand), dict(ds_size1_dim=any(sz)))
            back = None if inv is None else _call(obs, "transform(inverse_transform(s))", lambda: fitted.transform(*inv), dict(ds_size1_dim=any(sz)))
            obs.count("op:transform(inverse_transform(s))")
            if back is not None:
                inv_f, back_f = list(inv), list(back)
                for i in range(nf):
                    _check_roundtrip(obs, back[i], s_rand[i], sdims, s_co, kk, k, smag[i], amp[i], dict(tags2, field="XY"[i] if fam == "cross" else "X", ds_size1_dim=sz[i]))
        else:
            for i in range(nf):
                kwarg = "XY"[i]
                inv = _call(obs, f"inverse_transform({kwarg}=s)", lambda: model.inverse_transform(**{kwarg: s_rand[i]}), dict(ds_size1_dim=sz[i]))
                back = None if inv is None else _call(obs, f"transform({kwarg}=inverse_transform(s))", lambda: model.transform(**{kwarg: inv}), dict(ds_size1_dim=sz[i]))
                obs.count("op:transform(inverse_transform(s))")
                obs.cell("roundtrip:one_field_at_a_time")
                if back is not None:
                    ok = not isinstance(back, (list, tuple))
                    obs.check("single_field_returns_single_object", ok, f"got {type(back).__name__}", tags=dict(tags2, symptom="structure", ds_size1_dim=sz[i]))
                    if ok:
                        inv_f[i], back_f[i] = inv, back
                        _check_roundtrip(obs, back, s_rand[i], sdims, s_co, kk, k, smag[i], amp[i], dict(tags2, field=kwarg, ds_size1_dim=sz[i]))

    # ==== (3) NORMALIZED ===================================================================
    if cls in CROSS_ROT:
        return  # rotated cross-set norms are not the L2 norms of oblique scores: nothing the statement pins down
    obs.cell("fam:normalized")
    obs.count("op:normalized_switch")
    tags3 = dict(op="normalized_switch", symptom="normalized_ratio")
    if fam in ("single",):
        norms = [np.asarray(model.singular_values().sel(mode=modes).values, dtype=float)]
    else:
        norms = [np.sqrt((np.abs(S[i]) ** 2).sum(axis=0)) for i in range(nf)]
    act = [nm > 1e-8 * max(float(np.max(nm)), np.finfo(float).tiny) for nm in norms]
    scn = _call(obs, "scores(normalized=True)", lambda: fitted.scores(normalized=True))
    scd = _call(obs, "scores(normalized=False)", lambda: fitted.scores(normalized=False))
    for i in range(nf):
        if scn is not None:
            Sn = score_matrix(scn[i], sdims, scoords, modes)
            _colrel(obs, "scores_eq_normalized_times_norm", Sn * norms[i], S[i], TOL, act[i], dict(tags3, what="scores"))
            if cls not in SINGLE_ROT:
                l2 = np.sqrt((np.abs(Sn) ** 2).sum(axis=0))
                obs.close("normalized_scores_unit_norm", l2[act[i]], np.ones(int(act[i].sum())), TOL, scale=1.0, tags=dict(tags3, what="scores_unit_norm"))
        if scd is not None:
            obs.close("scores_default_is_unnormalized", score_matrix(scd[i], sdims, scoords, modes), S[i], 1e-12, scale=smag[i], tags=dict(tags3, what="scores_default"))
    cn = _call(obs, "components(normalized=True)", lambda: fitted.components(normalized=True))
    cu = _call(obs, "components(normalized=False)", lambda: fitted.components(normalized=False))
    cd = _call(obs, "components()", lambda: fitted.components()) if case["dseed"] % 3 == 0 else cn
    if cn is not None and cu is not None and cd is not None:
        for i in range(nf):
            tc = dict(tags3, what="components", ds_size1_dim=bool(ds_f1[i] or (ds_i[i] and k == 1)))
            for b in F[i]["blocks"]:
                vn = block_values(obs, "components_n", cn[i], F[i], b, (), {}, tc, need_mode=True)
                vu = block_values(obs, "components_u", cu[i], F[i], b, (), {}, tc, need_mode=True)
                vd = block_values(obs, "components_d", cd[i], F[i], b, (), {}, tc, need_mode=True)
                if vn is None or vu is None or vd is None:
                    continue
                vn, vu, vd = vn[0], vu[0], vd[0]  # (p_b, k)
                g = float(np.nanmax(np.abs(vn))) if np.isfinite(vn).any() else 1.0
                obs.close("components_default_is_normalized", vd, vn, 1e-12, scale=max(g, np.finfo(float).tiny), tags=dict(tags3, what="components_default"))
                obs.close(
                    "components_unnormalized_eq_times_norm",
                    (vu / norms[i])[:, act[i]],
                    vn[:, act[i]],
                    TOL,
                    scale=max(g, np.finfo(float).tiny),
                    tags=dict(tags3, what="components"),
                )
    if cls in zoo.HAS_TRANSFORM:
        if all(v is not None for v in inv_f) and all(_rt_ok(v, sdims, k) for v in back_f):
            # reuse the data reconstructed from the random scores: transform(D, normalized=True) * norm == transform(D)
            datas, tu, t_co = inv_f, back_f, s_co
            live = [act[i] & (np.arange(k) < kk) for i in range(nf)]
        else:
            datas, t_co, live = [f["data"] for f in F], scoords, act
            tu = _call(obs, "transform(X)", lambda: fitted.transform(*datas))
        tn = _call(obs, "transform(X,normalized=True)", lambda: fitted.transform(*datas, normalized=True))
        if tn is not None and tu is not None:
            for i in range(nf):
                if not _rt_ok(tn[i], sdims, k):
                    obs.check("transform_normalized_dims", False, f"dims {tn[i].dims}", tags=dict(tags3, what="transform", symptom="structure"))
                    continue
                Tn = score_matrix(tn[i], sdims, t_co, modes)
                Tu = score_matrix(tu[i], sdims, t_co, modes)
                _colrel(obs, "transform_eq_normalized_times_norm", Tn * norms[i], Tu, TOL, live[i], dict(tags3, what="transform"))
    if fam == "single" and cls in zoo.HAS_INVERSE:
        # inverse_transform(s / norm, normalized=True) == inverse_transform(s)   (single-set API only)
        if s_rand is None:
            s3, s_co = _random_scores(gen.rng_for(case["dseed"], 44), gen.rng_for(case["dseed"], 45), sdims, k, complex_cls or hil, smag[0], min_len_s)
        else:
            s3 = s_rand[0]
        k3 = s3.sizes["mode"]
        if np.all(act[0][:k3]):
            nda = model.singular_values().sel(mode=s3.mode.values)
            t4 = dict(tags3, what="inverse_transform", ds_size1_dim=bool(ds_f1[0] or (ds_i[0] and any(len(v) == 1 for v in s_co.values()))))
            a_ = _call(obs, "inverse_transform(s)", lambda: fitted.inverse_transform(s3), t4)
            b_ = _call(obs, "inverse_transform(s/norm,normalized=True)", lambda: fitted.inverse_transform(s3 / nda, normalized=True), t4)
            if a_ is not None and b_ is not None:
                for b in F[0]["blocks"]:
                    va = block_values(obs, "inv_s", a_[0], F[0], b, sdims, s_co, t4)
                    vb = block_values(obs, "inv_s_norm", b_[0], F[0], b, sdims, s_co, t4)
                    if va is None or vb is None:
                        continue
                    sc_ = max(F[0]["mmax"], F[0]["xmax"] * b["un_amp"])
                    obs.close("inverse_normalized_eq_default", vb, va, TOL, scale=sc_, tags=t4)
            # a SCALAR mode selection (scores.sel(mode=m)): the norm of that one mode applies, nothing is broadcast
            if k3 >= 2 and not ds_i[0]:
                m_sel = s3.mode.values[-1]
                a1 = _call(obs, "inverse_transform(s.sel(mode=m))", lambda: fitted.inverse_transform(s3.sel(mode=m_sel)), t4)
                b1 = _call(obs, "inverse_transform(s.sel(mode=m)/norm,normalized=True)", lambda: fitted.inverse_transform((s3 / nda).sel(mode=m_sel), normalized=True), t4)
                if a1 is not None and b1 is not None:
                    for b in F[0]["blocks"]:
                        va = block_values(obs, "inv_s1", a1[0], F[0], b, sdims, s_co, t4)
                        vb = block_values(obs, "inv_s1_norm", b1[0], F[0], b, sdims, s_co, t4)
                        if va is None or vb is None:
                            continue
                        sc_ = max(F[0]["mmax"], F[0]["xmax"] * b["un_amp"])
                        obs.close("inverse_normalized_scalar_mode_eq_default", vb, va, TOL, scale=sc_, tags=t4)


def _rt_ok(da, sdims, k):
    return da is not None and hasattr(da, "dims") and set(da.dims) == set(sdims) | {"mode"} and da.sizes["mode"] == k


def _check_recon(obs, name, result, Fi, sdims, scoords, wfac, real_part, tags):
    for b in Fi["blocks"]:
        v = block_values(obs, name, result, Fi, b, sdims, scoords, tags)
        if v is None:
            continue
        if real_part:
            v = np.real(v)
        elif not np.iscomplexobj(b["M"]) and np.iscomplexobj(v):
            pass  # compared as complex numbers: a spurious imaginary part is an error
        scale = max(float(np.nanmax(np.abs(b["M"]))) if np.isfinite(b["M"]).any() else 0.0, Fi["xmax"] * b["un_amp"]) * wfac
        obs.close(name + "_equals_input", v, b["M"], TOL, scale=scale, tags=dict(tags, symptom="reconstruction_differs"))


def _check_roundtrip(obs, back, s, sdims, s_co, kk, k, smag, amp, tags):
    ok = set(back.dims) == set(sdims) | {"mode"}
    obs.check("roundtrip_dims", ok, f"dims {back.dims}", tags=dict(tags, symptom="structure"))
    if not ok:
        return
    for d in sdims:
        have = back.coords[d].values
        if len(have) != len(s_co[d]) or set(have.tolist()) != set(np.asarray(s_co[d]).tolist()):
            obs.check("roundtrip_sample_labels", False, f"labels of '{d}' are not those of s", tags=dict(tags, symptom="structure"))
            return
    have_modes = back.coords["mode"].values.tolist()
    if not set(range(1, kk + 1)) <= set(have_modes):
        obs.check("roundtrip_modes", False, f"modes {have_modes}", tags=dict(tags, symptom="structure"))
        return
    want = score_matrix(s, sdims, s_co, np.arange(1, kk + 1))
    got = score_matrix(back, sdims, s_co, np.arange(1, kk + 1))
    scale = max(float(np.max(np.abs(want))), smag * 1e-3)
    obs.close("roundtrip_returns_s", got, want, TOL * amp, scale=scale, tags=tags)
    rest = [m for m in have_modes if m > kk]
    if rest:
        g2 = score_matrix(back, sdims, s_co, rest)
        obs.close("roundtrip_other_modes_zero", g2, np.zeros_like(g2), TOL * amp, scale=scale, tags=tags)
