"""C06 -- fully missing features / samples are ignored exactly; isolated NaNs are refused.

Runtime monitors used
---------------------
* Oracle A (reference model, numpy only): the labelled 2-D matrix is built from the raw
  user arrays, all-NaN rows / columns are deleted, the rest is preprocessed with
  `xv.oracle.preprocess` and decomposed with LAPACK `eigh`.  Singular values, scores and
  components of the real xeofs fit on the *masked* object must equal it on the remaining labels
  (sign fixed by xeofs's convention: largest-magnitude loading positive) and must be NaN at
  exactly the deleted labels of components(), scores(), inverse_transform(scores()).
* Oracle A' (relation between two executions): the same quantities must equal an xeofs fit on
  the physically reduced object (same layout when the mask is slice-structured, otherwise a
  flat (sample, feature) array of the surviving rows/columns).  This is the deciding oracle
  for the classes without a closed-form reference here (Complex/Hilbert/Extended EOF, the
  cross-set models with whitening, the rotators).
* Oracle B (refusal): >= 1 isolated NaN -> exception at fit and at transform; transform data
  whose missing features differ from the training data -> exception.
* M-SAN (post-condition on every Sanitizer.transform: no NaN survives), M-DEC (every
  decomposition: finite, ordered, orthonormal, sign convention), M-FPE (FP events by xeofs
  site, advisory); deciding observation for "no value derived from a NaN": every value at a
  valid label is finite and equals the reduced-fit value.
"""
import warnings

import numpy as np

from .. import gen, mon, oracle, xu  # noqa: F401
from ..boot import REPO

LEVEL = "exploration"
EXHAUSTIVE = {"quick": False, "thorough": True}
RULE = (
    "thorough: EXHAUSTIVE over the sub-space {6-sample x 4-feature EOF input (two layouts: 1-D features, 2x2 lat/lon "
    "grid)} x {all (missing-feature-subset x missing-sample-subset) pairs leaving >= 2 samples and >= 1 feature: "
    "15 x 57 = 855 masks per layout} plus all 24 single-cell isolated masks per layout; NOT exhaustive outside that "
    "sub-space: seeded random masks (rows / columns / interior cells of 2-D feature grids, two sample dims, Datasets with "
    "per-variable patterns and whole variables missing, lists with per-element patterns and whole elements missing, "
    "isolated cells on top of fully-missing masks, samples missing in only some list elements), cross-set "
    "(MCA/CCA/CPCCA/RDA: samples missing in X only / Y only / both same / both different with equal and unequal "
    "counts, plus feature masks) and rotators (EOFRotator, MCARotator, CPCCARotator). quick: 120 masks of the "
    "enumerated sub-space (60 fixed stride + 60 seeded), the 24 isolated cells (1-D layout) and ~190 seeded random cases. "
    "A case is non-trivial when its mask contains at least one NaN; distinct = distinct canonical case record."
)
ASSUMPTIONS = [
    "numpy.linalg.eigh / svd (LAPACK) and the harness's own preprocessing of the reduced matrix are the trusted reference",
    "any Exception raised by fit/transform counts as 'rejected with an error' (type and site are recorded in the coverage cells)",
    "singular vectors are compared only for modes whose relative gap to both neighbours is >= 1e-3 (others: values + NaN positions only)",
    "transform() may either omit a fully missing sample or return NaN for it; both count as 'ignored'",
    "user weights are not generated (C08); center / standardize / use_coslat are",
    "rotated solutions are compared with the rotator fitted on the reduced model at 1e-6 (iteration stop criterion 1e-8); "
    "'Rotation process did not converge' is the rotator's own refusal and ends the case as refused",
    "cross-set fits with samples missing at different positions may raise (counted as refused); if they return, the model "
    "must be the one with the union of missing samples deleted from both fields",
    "Dataset input: inverse_transform only works when the sample dimension is literally called 'sample' and a single-mode "
    "components() Dataset lacks the 'mode' dimension -- both independent of NaNs (C02/C03), read tolerantly here, reported upstream",
    "an absent label is NOT accepted in place of a NaN for components(), scores() and inverse_transform(); it is for transform()",
]

TOL = 1e-9
TOL_ROT = 1e-6
GAP = 1e-3
SINGLE = ("EOF", "ComplexEOF", "HilbertEOF", "ExtendedEOF")
CROSS = ("MCA", "CCA", "CPCCA", "RDA")
ROT = ("EOFRotator", "MCARotator", "CPCCARotator")
HAS_TRANSFORM = {"EOF", "ComplexEOF"}
PATTERNS = ("none", "x_only", "y_only", "same", "diff_equal", "diff_unequal", "overlap")


def setup(tier):
    mon.install_sanitizer()
    mon.install_decomposer()


def required(tier):
    cover = (
        [f"cls:{c}" for c in SINGLE + CROSS + ROT]
        + [f"container:{c}" for c in ("da", "ds", "list")]
        + ["mask:features", "mask:samples", "mask:both", "mask:whole_part", "mask:non_slice", "sdims:2"]
        + ["reduced:same_layout", "reduced:flat", "oracle:numpy_eof", "oracle:numpy_mca"]
        + ["refusal:fit_isolated", "refusal:transform_isolated", "refusal:transform_feature_mismatch"]
        + [f"pattern:{p}" for p in PATTERNS]
    )
    return {"mon": ["post:Sanitizer.transform", "post:Decomposer.fit", "deferred_fits_computed"], "cover": cover, "max_refused_share": 0.5}


def evidence_extra(results, extras):
    """What of the enumerated sub-space was actually decided, and how the refusals looked."""
    want = {(lay, fm, sm) for lay in ("1d", "grid") for fm, sm in exhaustive_masks()}
    seen, by_kind, refusals = set(), {}, {}
    for r in results:
        c = r["case"]
        by_kind[c["kind"]] = by_kind.get(c["kind"], 0) + 1
        if c.get("sub") == "exh" and r["status"] in ("held", "violated"):
            lay = "1d" if c["parts"][0]["fdims"] == ["x"] else "grid"
            fm = sum(1 << j for j in c["cols"])
            sm = sum(1 << i for i in c["rows"])
            seen.add((lay, fm, sm))
        for k, v in r["cover"].items():
            if k.startswith("refusal:") and "@" in k:
                refusals[k] = refusals.get(k, 0) + v
    return {
        "exhaustive_subspace": {
            "description": "6 samples x 4 features, all fully-missing (feature subset x sample subset) masks leaving >= 2 samples and >= 1 feature, two layouts",
            "size": len(want), "decided": len(seen & want), "complete": (seen & want) == want,
        },
        "cases_by_kind": by_kind,
        "refusal_exceptions_by_site": refusals,
    }


# =============================================================================
# case generation (numpy only, deterministic)
# =============================================================================
def _bits(x, n):
    return [i for i in range(n) if (x >> i) & 1]


def exhaustive_masks():
    """All (missing feature subset, missing sample subset) of a 6 x 4 input leaving >= 2 samples and >= 1 feature."""
    out = []
    for fm in range(16):
        if len(_bits(fm, 4)) > 3:
            continue
        for sm in range(64):
            if 6 - len(_bits(sm, 6)) < 2:
                continue
            out.append((fm, sm))
    return out


def _exh_case(fm, sm, layout):
    parts = [dict(fdims=["x"], fshape=[4])] if layout == "1d" else [dict(fdims=["lat", "lon"], fshape=[2, 2])]
    return dict(
        kind="single", sub="exh", cls="EOF", container="da", parts=parts, sdims=["time"], sshape=[6],
        rows=_bits(sm, 6), cols=_bits(fm, 4), iso=[], center=True, standardize=layout == "grid", coslat=False,
        cplx=False, k=2, dseed=60601,
    )


def _iso_case(i, j, layout):
    c = _exh_case(0, 0, layout)
    c.update(kind="iso", sub="iso_single_cell", iso=[[i, j]])
    return c


def _rand_layout(rng, container=None, sdims2=None):
    container = container or str(rng.choice(["da", "da", "ds", "list"]))
    if sdims2 is None:
        sdims2 = bool(rng.random() < 0.25 and container == "da")
    if sdims2:
        sshape = [int(rng.integers(3, 5)), int(rng.integers(2, 4))]
        sdims = ["time", "run"]
    else:
        sshape = [int(rng.integers(6, 15))]
        # Dataset + inverse_transform only works when the sample dimension is literally called 'sample' (see _reconstruct)
        sdims = ["sample"] if (container == "ds" and rng.random() < 0.6) else ["time"]

    def grid():
        if rng.random() < 0.55:
            return dict(fdims=["lat", "lon"], fshape=[int(rng.integers(2, 5)), int(rng.integers(2, 4))])
        return dict(fdims=["x"], fshape=[int(rng.integers(2, 8))])

    if container == "da":
        parts = [grid()]
    elif container == "ds":
        g = grid()
        parts = [dict(g) for _ in range(int(rng.integers(2, 4)))]
    else:
        parts = []
        for e in range(int(rng.integers(2, 4))):
            g = grid()
            g["fdims"] = [f"{d}{e}" if d == "x" else d for d in g["fdims"]]
            parts.append(g)
    return container, parts, sdims, sshape


def _part_cols(parts):
    off, out = 0, []
    for pt in parts:
        m = int(np.prod(pt["fshape"]))
        out.append((off, off + m))
        off += m
    return out, off


def _rand_mask(rng, parts, sshape, want=None, whole=False):
    """Fully-missing mask: rows (flat sample indices) and cols (flat feature indices)."""
    spans, p = _part_cols(parts)
    n = int(np.prod(sshape))
    want = want or str(rng.choice(["features", "samples", "both", "both"]))
    cols = set()
    flags = set()
    if want in ("features", "both"):
        for e, (pt, (a, b)) in enumerate(zip(parts, spans)):
            mode = str(rng.choice(["slices", "cells", "mixed", "whole", "none"], p=[0.35, 0.25, 0.15, 0.1, 0.15]))
            if whole:
                mode = "whole" if e == 0 else ("none" if mode == "whole" else mode)
            fs = pt["fshape"]
            idx = np.arange(a, b).reshape(fs)
            if mode == "whole" and len(parts) > 1:
                cols.update(idx.ravel().tolist())
                flags.add("whole_part")
                continue
            if mode in ("slices", "mixed"):
                for ax, m in enumerate(fs):
                    if m > 1 and rng.random() < 0.7:
                        kill = rng.choice(m, size=int(rng.integers(1, m)), replace=False)
                        cols.update(np.take(idx, kill, axis=ax).ravel().tolist())
            if mode in ("cells", "mixed"):
                m = b - a
                kill = rng.choice(m, size=int(rng.integers(1, max(2, m // 2 + 1))), replace=False)
                cols.update((a + kill).tolist())
    rows = set()
    if want in ("samples", "both"):
        nkill = int(rng.integers(1, max(2, n // 2)))
        rows.update(rng.choice(n, size=nkill, replace=False).tolist())
    # keep >= 4 samples and >= 2 features
    rows = sorted(rows)[: max(0, n - 4)]
    cols = sorted(cols)
    while p - len(cols) < 2:
        cols.pop(int(rng.integers(0, len(cols))))
    return rows, cols


def _single_random(rng, cls=None, container=None, sdims2=None, whole=False, want=None):
    cls = cls or str(rng.choice(SINGLE, p=[0.55, 0.15, 0.15, 0.15]))
    container, parts, sdims, sshape = _rand_layout(rng, container, sdims2)
    if cls in ("HilbertEOF", "ExtendedEOF"):
        sdims, sshape = [sdims[0]], [int(rng.integers(12, 19))]
    rows, cols = _rand_mask(rng, parts, sshape, want="both" if whole else want, whole=whole)
    has_lat = any("lat" in pt["fdims"] for pt in parts)
    return dict(
        kind="single", sub="random", cls=cls, container=container, parts=parts, sdims=sdims, sshape=sshape,
        rows=rows, cols=cols, iso=[], center=bool(rng.random() < 0.85), standardize=bool(rng.random() < 0.3),
        coslat=bool(has_lat and all("lat" in pt["fdims"] for pt in parts) and rng.random() < 0.3),
        cplx=bool(cls == "ComplexEOF" and rng.random() < 0.6), k=int(rng.integers(1, 4)),
        dseed=int(rng.integers(0, 2**31 - 1)),
    )


def _iso_random(rng):
    c = _single_random(rng, cls="EOF")
    c.update(kind="iso", sub="iso_random")
    _, p = _part_cols(c["parts"])
    n = int(np.prod(c["sshape"]))
    vr = [i for i in range(n) if i not in c["rows"]]
    vc = [j for j in range(p) if j not in c["cols"]]
    m = int(rng.integers(1, 4))
    iso = set()
    for _ in range(m):
        iso.add((int(rng.choice(vr)), int(rng.choice(vc))))
    # an "isolated" set must not complete a full row / column of the reduced matrix
    iso = sorted(iso)[: max(1, min(len(vr), len(vc)) - 1)]
    c["iso"] = [list(t) for t in iso]
    return c


def _iso_equal_count(rng):
    """Every non-missing sample has exactly ONE isolated NaN, at a position that moves from sample to sample:
    all samples then hold the same number of valid features (a count-based isolated-NaN test must compare that
    number with the number of valid FEATURES, not with the other samples)."""
    c = _single_random(rng, cls="EOF")
    c.update(kind="iso", sub="iso_equal_count_per_sample")
    _, p = _part_cols(c["parts"])
    n = int(np.prod(c["sshape"]))
    vr = [i for i in range(n) if i not in c["rows"]]
    vc = [j for j in range(p) if j not in c["cols"]]
    if len(vc) < 3 or len(vr) < 3:
        c["rows"], c["cols"] = [], []
        vr, vc = list(range(n)), list(range(p))
    off = int(rng.integers(0, len(vc)))
    c["iso"] = [[int(r), int(vc[(i + off) % len(vc)])] for i, r in enumerate(vr)]
    c["lost"] = 1
    return c


def _listpartial_random(rng):
    c = _single_random(rng, cls="EOF", container="list")
    c.update(kind="listpartial", sub="list_sample_missing_in_some_elements", rows=[], iso=[], sdims=["time"])
    c["sshape"] = [int(rng.integers(6, 12))]
    n = c["sshape"][0]
    c["cols"] = [j for j in c["cols"] if True]
    spans, _ = _part_cols(c["parts"])
    # do not let a whole element be missing here
    for a, b in spans:
        if all(j in c["cols"] for j in range(a, b)):
            c["cols"] = [j for j in c["cols"] if not (a <= j < b)]
    c["elem"] = int(rng.integers(0, len(c["parts"])))
    c["prow"] = sorted(rng.choice(n, size=int(rng.integers(1, 3)), replace=False).tolist())
    return c


def _cross_random(rng, cls=None, pattern=None):
    cls = cls or str(rng.choice(CROSS))
    pattern = pattern or str(rng.choice(PATTERNS))
    n = int(rng.integers(9, 16))

    def part():
        if rng.random() < 0.4:
            return [dict(fdims=["lat", "lon"], fshape=[int(rng.integers(2, 4)), int(rng.integers(2, 4))])]
        return [dict(fdims=["x"], fshape=[int(rng.integers(3, 7))])]

    px, py = part(), part()
    for pt in py:
        pt["fdims"] = [d + "_y" for d in pt["fdims"]]
    pool = rng.permutation(n).tolist()
    a = int(rng.integers(1, 3))
    rx, ry = [], []
    if pattern == "x_only":
        rx = pool[:a]
    elif pattern == "y_only":
        ry = pool[:a]
    elif pattern == "same":
        rx = pool[:a]
        ry = list(rx)
    elif pattern == "diff_equal":
        rx, ry = pool[:a], pool[a : 2 * a]
    elif pattern == "diff_unequal":
        rx, ry = pool[:a], pool[a : 2 * a + 1]
    elif pattern == "overlap":  # one shared position plus one different position each -> equal counts
        rx, ry = [pool[0], pool[1]], [pool[0], pool[2]]
    cx = _rand_mask(rng, px, [n], want="features")[1] if rng.random() < 0.5 else []
    cy = _rand_mask(rng, py, [n], want="features")[1] if rng.random() < 0.5 else []
    return dict(
        kind="cross", sub="random", cls=cls, pattern=pattern, n=n, parts_x=px, parts_y=py,
        rows_x=sorted(rx), rows_y=sorted(ry), cols_x=cx, cols_y=cy, k=2,
        alpha=float(rng.choice([0.25, 0.5, 0.75])), standardize=bool(rng.random() < 0.25),
        dseed=int(rng.integers(0, 2**31 - 1)),
    )


def _rot_random(rng, cls=None):
    cls = cls or str(rng.choice(ROT))
    if cls == "EOFRotator":
        c = _single_random(rng, cls="EOF", container=str(rng.choice(["da", "ds"])))
        c.update(kind="rot", rot=cls, sdims=[c["sdims"][0]], sshape=[int(rng.integers(10, 16))], k=3)
        c["rows"] = [r for r in c["rows"] if r < c["sshape"][0] - 6]
        c["power"] = int(rng.choice([1, 1, 2]))
        # need >= 3 features left for 3 modes
        _, p = _part_cols(c["parts"])
        while p - len(c["cols"]) < 4 and c["cols"]:
            c["cols"].pop()
        if p < 4:
            c["k"] = 2
        return c
    base = "MCA" if cls == "MCARotator" else "CPCCA"
    c = _cross_random(rng, cls=base, pattern=str(rng.choice(["same", "none"])))
    c.update(kind="rot", rot=cls, power=int(rng.choice([1, 1, 2])))
    if c["pattern"] == "none" and not c["cols_x"] and not c["cols_y"]:
        c["cols_x"] = [0]
    return c


def cases(tier, seed):
    out = []
    em = exhaustive_masks()
    if tier == "thorough":
        for layout in ("1d", "grid"):
            out += [_exh_case(fm, sm, layout) for fm, sm in em]
            out += [_iso_case(i, j, layout) for i in range(6) for j in range(4)]
        nrand = dict(single=9000, iso=1500, listpartial=300, cross=4500, rot=1000)
    else:
        stride = [em[i] for i in range(3, len(em), len(em) // 60)][:60]
        rng = gen.rng_for(seed, 6, 999)
        pick = rng.choice(len(em), size=60, replace=False)
        for q, (fm, sm) in enumerate(stride + [em[int(i)] for i in pick]):
            out.append(_exh_case(fm, sm, "1d" if q % 2 == 0 else "grid"))
        out += [_iso_case(i, j, "1d") for i in range(6) for j in range(4)]
        nrand = dict(single=80, iso=22, listpartial=8, cross=56, rot=24)
    # structured part of the random families (seed independent): every class / container / pattern once
    j = 0
    for cls in SINGLE:
        for cont in ("da", "ds", "list"):
            out.append(_single_random(gen.rng_for(6006, 1, j), cls=cls, container=cont))
            j += 1
    for q, (cont, s2, wh, want) in enumerate([("da", True, False, "samples"), ("da", True, False, "both"), ("ds", False, True, None),
                                               ("list", False, True, None), ("da", False, False, "features")]):
        out.append(_single_random(gen.rng_for(6006, 4, q), cls="EOF", container=cont, sdims2=s2, whole=wh, want=want))
    for cls in CROSS:
        for pat in PATTERNS:
            out.append(_cross_random(gen.rng_for(6006, 2, j), cls=cls, pattern=pat))
            j += 1
    for cls in ROT:
        for r in range(2):
            out.append(_rot_random(gen.rng_for(6006, 3, j), cls=cls))
            j += 1
    for i in range(nrand["single"]):
        out.append(_single_random(gen.rng_for(seed, 6, 1, i)))
    for i in range(nrand["iso"]):
        out.append(_iso_random(gen.rng_for(seed, 6, 2, i)))
    for i in range(max(6, nrand["iso"] // 10)):
        out.append(_iso_equal_count(gen.rng_for(6606, i)))
    for i in range(nrand["listpartial"]):
        out.append(_listpartial_random(gen.rng_for(seed, 6, 3, i)))
    for i in range(nrand["cross"]):
        out.append(_cross_random(gen.rng_for(seed, 6, 4, i)))
    for i in range(nrand["rot"]):
        out.append(_rot_random(gen.rng_for(seed, 6, 5, i)))
    return out


# =============================================================================
# labelled inputs <-> matrices
# =============================================================================
_SLABEL = {
    "time": lambda m: 1000 + 3 * np.arange(m),
    "sample": lambda m: 1000 + 3 * np.arange(m),
    "run": lambda m: 7 + np.arange(m),
}


def _fcoord(d, m):
    if d.startswith("lat"):
        return np.linspace(-60.0, 70.0, m) if m > 1 else np.array([30.0])
    if d.startswith("lon"):
        return 10.0 + 20.0 * np.arange(m)
    return 5 + 10 * np.arange(m)


class Field:
    """One user-level input field (DataArray / Dataset / list of DataArrays) and its label bookkeeping.

    Column j of the (n, p) matrix <-> part, C-order multi-index over the part's feature dims;
    row i <-> C-order multi-index over the sample dims."""

    def __init__(self, container, parts, sdims, sshape):
        self.container = container
        self.parts = parts
        self.sdims = list(sdims)
        self.sshape = list(sshape)
        self.n = int(np.prod(sshape))
        self.spans, self.p = _part_cols(parts)
        self.scoords = {d: _SLABEL[d](m) for d, m in zip(self.sdims, self.sshape)}
        self.fcoords = [{d: _fcoord(d, m) for d, m in zip(pt["fdims"], pt["fshape"])} for pt in parts]
        self.names = [f"v{i}" for i in range(len(parts))]

    # ---- building -------------------------------------------------------
    def _da(self, sub, e, skeep=None, fkeep=None):
        import xarray as xr

        pt = self.parts[e]
        arr = sub.reshape(self.sshape + list(pt["fshape"]))
        coords = dict(self.scoords)
        coords.update(self.fcoords[e])
        da = xr.DataArray(arr, dims=self.sdims + list(pt["fdims"]), coords=coords, name=self.names[e])
        sel = {}
        if skeep is not None:
            sel.update({d: k for d, k in zip(self.sdims, skeep)})
        if fkeep is not None:
            sel.update({d: k for d, k in zip(pt["fdims"], fkeep)})
        return da.isel(sel) if sel else da

    def build(self, M, skeep=None, fkeeps=None):
        """xarray object from the (n, p) matrix; skeep / fkeeps (per part index lists per dim, or 'drop')
        physically remove slices."""
        import xarray as xr

        das = []
        for e, (a, b) in enumerate(self.spans):
            fk = None if fkeeps is None else fkeeps[e]
            if isinstance(fk, str):
                continue
            das.append(self._da(M[:, a:b], e, skeep, fk))
        if self.container == "da":
            return das[0]
        if self.container == "ds":
            return xr.Dataset({d.name: d for d in das})
        return das

    def coslat(self):
        w = np.ones(self.p)
        for (a, b), pt, fc in zip(self.spans, self.parts, self.fcoords):
            lat = [d for d in pt["fdims"] if d.startswith("lat")]
            if not lat:
                continue
            ax = pt["fdims"].index(lat[0])
            wl = oracle.coslat_weights(fc[lat[0]])
            shape = [1] * len(pt["fshape"])
            shape[ax] = -1
            w[a:b] = np.broadcast_to(wl.reshape(shape), pt["fshape"]).ravel()
        return w

    # ---- slice structure --------------------------------------------------
    def structure(self, rows, cols):
        """(skeep, fkeeps) when the valid set is a product of per-dimension label subsets, else None."""
        valid_r = np.ones(self.n, bool)
        valid_r[list(rows)] = False
        vr = valid_r.reshape(self.sshape)
        skeep = []
        for ax in range(len(self.sshape)):
            other = tuple(i for i in range(len(self.sshape)) if i != ax)
            skeep.append(np.where(vr.any(axis=other))[0].tolist())
        if int(np.prod([len(k) for k in skeep])) != int(valid_r.sum()):
            return None
        valid_c = np.ones(self.p, bool)
        valid_c[list(cols)] = False
        fkeeps = []
        for (a, b), pt in zip(self.spans, self.parts):
            vc = valid_c[a:b].reshape(pt["fshape"])
            if not vc.any():
                fkeeps.append("drop")
                continue
            keep = []
            for ax in range(len(pt["fshape"])):
                other = tuple(i for i in range(len(pt["fshape"])) if i != ax)
                keep.append(np.where(vc.any(axis=other))[0].tolist())
            if int(np.prod([len(k) for k in keep])) != int(vc.sum()):
                return None
            fkeeps.append(keep)
        if self.container == "ds":
            live = [k for k in fkeeps if not isinstance(k, str)]
            if any(k != live[0] for k in live):
                return None  # variables share their coordinates
            if any(len(ax) == 1 for k in live for ax in k):
                return None  # Dataset results drop length-1 dimensions (structure, C02) -> use the flat reduced object
        if all(isinstance(k, str) for k in fkeeps):
            return None
        return skeep, fkeeps

    # ---- reading results back BY LABEL into full-size arrays ------------------
    @staticmethod
    def _np(da, dims, coords, need_mode=True):
        if need_mode and "mode" not in da.dims:
            # Dataset input + n_modes=1: to_unstacked_dataset drops the length-1 'mode' dimension of the components
            # (structure fidelity, C02; nothing to do with NaNs) -> read tolerantly
            da = da.expand_dims("mode")
        da = da.reindex({d: coords[d] for d in dims})  # absent labels -> NaN
        other = sorted((d for d in da.dims if d not in dims), key=lambda d: (d != "mode", str(d)))
        da = da.transpose(*dims, *other)
        v = np.asarray(da.values)
        return v.reshape((-1,) + tuple(da.sizes[d] for d in other))

    def _split(self, res, present=None):
        """result object -> list (len(parts)) of DataArray | None."""
        import xarray as xr

        present = list(range(len(self.parts))) if present is None else present
        out = [None] * len(self.parts)
        if isinstance(res, xr.Dataset):
            for e in present:
                if self.names[e] in res:
                    out[e] = res[self.names[e]]
        elif isinstance(res, (list, tuple)):
            for e, r in zip(present, res):
                out[e] = r
        else:
            out[present[0]] = res
        return out

    def feat(self, res, present=None):
        """components-like -> (p, ...) ; absent labels / parts are NaN."""
        blocks = []
        items = self._split(res, present)
        for e, r in enumerate(items):
            if r is not None:
                blocks.append(self._np(r, list(self.parts[e]["fdims"]), self.fcoords[e]))
            else:
                blocks.append(None)
        ref = next(b for b in blocks if b is not None)
        for e, b in enumerate(blocks):
            if b is None:
                blocks[e] = np.full((self.spans[e][1] - self.spans[e][0],) + ref.shape[1:], np.nan)
        dt = np.result_type(*[b.dtype for b in blocks])
        return np.concatenate([b.astype(dt) for b in blocks], axis=0)

    def samp(self, res):
        return self._np(res, self.sdims, self.scoords)

    def labels_ok(self, obs, name, res, kind, op):
        """The result carries EVERY label of the input along the relevant dimensions (a deleted label must come
        back holding NaN, not be absent)."""
        bad = []
        for e, r in enumerate(self._split(res)):
            want = {}
            if kind in ("samp", "data"):
                want.update(self.scoords)
            if kind in ("feat", "data"):
                want.update(self.fcoords[e])
            if r is None:
                bad.append(f"part {self.names[e]} absent")
                continue
            for d, lab in want.items():
                if d not in r.dims:
                    bad.append(f"{self.names[e]}: dimension {d} absent")
                elif not np.array_equal(np.sort(np.asarray(r.coords[d].values)), np.sort(lab)):
                    bad.append(f"{self.names[e]}: {d} has {r.sizes[d]} labels, input has {len(lab)}")
            if kind == "samp":
                break
        obs.check(name, not bad, "; ".join(bad[:4]), tags=dict(op=op, symptom="labels_missing"))

    def data(self, res, present=None):
        """data-like -> (n, p)."""
        blocks = []
        for e, r in enumerate(self._split(res, present)):
            pt = self.parts[e]
            m = self.spans[e][1] - self.spans[e][0]
            if r is None:
                blocks.append(np.full((self.n, m), np.nan))
                continue
            c = dict(self.scoords)
            c.update(self.fcoords[e])
            v = self._np(r, self.sdims + list(pt["fdims"]), c, need_mode=False)
            blocks.append(v.reshape(self.n, m))
        dt = np.result_type(*[b.dtype for b in blocks])
        return np.concatenate([b.astype(dt) for b in blocks], axis=1)


class FlatField:
    """Reduced object for masks that are not slice-structured: a plain (time, x) array of the surviving rows and
    columns, labelled with the original flat indices."""

    def __init__(self, n, p, rk, ck):
        self.n, self.p, self.rk, self.ck = n, p, list(rk), list(ck)

    def build(self, Mr):
        import xarray as xr

        return xr.DataArray(Mr, dims=("time", "x"), coords={"time": self.rk, "x": self.ck})

    def feat(self, res):
        import xarray as xr  # noqa: F401

        return Field._np(res, ["x"], {"x": np.arange(self.p)})

    def samp(self, res):
        return Field._np(res, ["time"], {"time": np.arange(self.n)})

    def data(self, res):
        v = Field._np(res, ["time", "x"], {"time": np.arange(self.n), "x": np.arange(self.p)}, need_mode=False)
        return v.reshape(self.n, self.p)


def _matrix(n, p, dseed, cplx=False, salt=0):
    """Raw data: full-rank random field with per-feature scale and offset (generic -> gapped spectra;
    the gap is checked by the oracle before vectors are compared)."""
    rng = gen.rng_for(dseed, 66, salt)
    return gen.random_field(n, p, rng, cplx=cplx, scale=1.0, offset=True)


def _apply_mask(M, rows, cols, iso=()):
    M = np.array(M, copy=True)
    nan = np.nan if not np.iscomplexobj(M) else complex(np.nan, np.nan)
    M[list(rows), :] = nan
    M[:, list(cols)] = nan
    for i, j in iso:
        M[i, j] = nan
    return M


def _keep(n, kill):
    k = set(kill)
    return [i for i in range(n) if i not in k]


# =============================================================================
# oracle A: numpy reference for EOF on the reduced matrix
# =============================================================================
def _fix_sign(V):
    """xeofs convention: the loading of largest magnitude of each mode is positive. Returns (V, tie flags)."""
    V = np.array(V, copy=True)
    tie = np.zeros(V.shape[1], bool)
    for m in range(V.shape[1]):
        v = V[:, m].real
        mx, mn = v.max(), v.min()
        if abs(abs(mx) - abs(mn)) <= 1e-6 * max(abs(mx), abs(mn), 1e-300):
            tie[m] = True
        if abs(mn) > abs(mx):
            V[:, m] = -V[:, m]
    return V, tie


def _sign_tie(C):
    """Per mode: is the sign convention (largest-magnitude loading positive) decided by less than 1e-6?  C is (p, k)
    with NaN at deleted labels."""
    R = np.real(C)
    mx, mn = np.nanmax(R, axis=0), np.nanmin(R, axis=0)
    return np.abs(np.abs(mx) - np.abs(mn)) <= 1e-6 * np.maximum(np.maximum(np.abs(mx), np.abs(mn)), 1e-300)


def eof_reference(M, rk, ck, k, center, standardize, wcos):
    """Full-size expected results of an EOF fit that never saw the deleted rows / columns."""
    n, p = M.shape
    Mr = M[np.ix_(rk, ck)]
    Xp, prm = oracle.preprocess(Mr, center, standardize, None if wcos is None else wcos[ck], None, return_params=True)
    nv = len(rk)
    ev, V = oracle.cov_eigh(Xp)  # ev descending eigenvalues of Xp^H Xp/(nv-1)
    sv_all = np.sqrt(np.clip(ev, 0, None) * (nv - 1))
    V, tie = _fix_sign(V[:, :k])
    S = Xp @ V
    rec = oracle.unpreprocess(S @ V.conj().T, prm)
    comps = np.full((p, k), np.nan)
    comps[ck] = V
    scores = np.full((n, k), np.nan)
    scores[rk] = S
    recon = np.full((n, p), np.nan)
    recon[np.ix_(rk, ck)] = rec
    return dict(sv=sv_all[:k], sv_all=sv_all, comps=comps, scores=scores, recon=recon, tie=tie, Xp=Xp)


def _gapped_modes(sv, k, full_rank_known=None):
    """Boolean per returned mode: relative gap to both neighbours >= GAP (neighbour below the last returned mode
    is only known when the whole spectrum is)."""
    sv = np.asarray(sv, float)
    s1 = max(sv[0], 1e-300)
    ok = np.ones(k, bool)
    for m in range(k):
        if m > 0 and (sv[m - 1] - sv[m]) / s1 < GAP:
            ok[m] = False
        if m + 1 < len(sv):
            if (sv[m] - sv[m + 1]) / s1 < GAP:
                ok[m] = False
        elif not full_rank_known:
            ok[m] = False
        if sv[m] / s1 < GAP:
            ok[m] = False  # (numerically) null direction: vector arbitrary
    return ok


# =============================================================================
# model helpers
# =============================================================================
def _make_single(cls, k, case):
    import xeofs as xe

    kw = dict(n_modes=k, center=case["center"], standardize=case["standardize"], use_coslat=case["coslat"], solver="full")
    if cls == "HilbertEOF":
        kw.update(padding="exp", decay_factor=0.2)
    if cls == "ExtendedEOF":
        kw.update(tau=1, embedding=2)
    if _deferred(case):
        kw.update(compute=False)  # check_nans stays True: the NaN bookkeeping must not depend on deferral
    return getattr(xe.single, cls)(**kw)


def _deferred(case):
    """every fourth case fits with compute=False and calls compute() afterwards (in-memory data)"""
    return bool(int(case.get("dseed", 0)) % 4 == 2)


def _quiet(f, *a, **kw):
    with warnings.catch_warnings():
        warnings.simplefilter("ignore")
        return f(*a, **kw)


def _call(obs, op, f, *a, **kw):
    """Run a call that the property says must succeed.  An exception raised inside xeofs is recorded as a violation
    (same tags as the runner's automatic rule, plus the operation) and None is returned so that the remaining
    observations of the case are still made; anything else propagates (harness error)."""
    from ..obs import exception_site

    try:
        return _quiet(f, *a, **kw)
    except Exception as e:  # noqa: BLE001
        site = exception_site(e, REPO)
        if site is None:
            raise
        obs.n_checks += 1
        obs.fail("unexpected_exception", f"{type(e).__name__}: {e}",
                 tags=dict(op=op, symptom="exception", exc=type(e).__name__, site=site))
        return None


def _must_raise(obs, name, f, cell, tags):
    """Oracle B: the call must end in an exception.  Returns the exception (or None)."""
    try:
        res = _quiet(f)
    except Exception as e:  # noqa: BLE001 -- any error is a refusal
        from ..obs import exception_site

        obs.check(name, True)
        obs.cell(cell, f"{cell}:{type(e).__name__}@{exception_site(e, REPO)}")
        # history: a refused call must not change the object -- the very same call has to be refused again
        # (a refusal that overwrites fitted state, e.g. the stored NaN mask, lets the repetition through)
        if name.startswith("transform_"):
            try:
                _quiet(f)
                obs.check(name + "_again", False, "the same call was refused once and answered when repeated", tags=dict(tags, symptom="refusal_not_stable", history="repeat_refused_call"))
            except Exception:  # noqa: BLE001
                obs.check(name + "_again", True)
        return e, None
    obs.check(name, False, "call on data with NaNs that must be refused returned a result", tags=tags)
    return None, res


def _nanpos(obs, name, got, deleted_mask, tags):
    """NaN at EXACTLY the deleted labels (got and deleted_mask broadcastable)."""
    g = np.isnan(got)
    want = np.broadcast_to(deleted_mask, g.shape)
    extra = int((g & ~want).sum())
    missing = int((~g & want).sum())
    obs.check(
        name, extra == 0 and missing == 0,
        f"{extra} NaN at valid labels, {missing} non-NaN at deleted labels",
        tags=dict(tags, symptom="nan_at_valid_label" if extra else "value_at_deleted_label"),
    )
    return extra == 0 and missing == 0


# =============================================================================
# run_case
# =============================================================================
def run_case(case, obs):
    kind = case["kind"]
    obs.cell(f"kind:{kind}")
    mon.reset()
    try:
        if kind == "single":
            _run_single(case, obs)
        elif kind == "iso":
            _run_iso(case, obs)
        elif kind == "listpartial":
            _run_iso(case, obs)
        elif kind == "cross":
            _run_cross(case, obs)
        elif kind == "rot":
            if case["rot"] == "EOFRotator":
                _run_rot_single(case, obs)
            else:
                _run_rot_cross(case, obs)
        else:
            raise KeyError(kind)
    finally:
        mon.drain(obs)


def _mask_cells(obs, fld, case):
    rows, cols = case["rows"], case["cols"]
    if rows and cols:
        obs.cell("mask:both")
    elif rows:
        obs.cell("mask:samples")
    elif cols:
        obs.cell("mask:features")
    else:
        obs.cell("mask:none")
    for a, b in fld.spans:
        if all(j in set(cols) for j in range(a, b)):
            obs.cell("mask:whole_part")
    obs.cell(f"container:{fld.container}", f"sdims:{len(fld.sdims)}", f"cls:{case['cls']}")


def _fit_single(cls, k, case, X, dim, fpe_obs=None):
    model = _make_single(cls, k, case)
    fpe = mon.FPE(REPO)
    with warnings.catch_warnings(), fpe:
        warnings.simplefilter("ignore")
        model.fit(X, dim=dim)
        if _deferred(case):
            model.compute()
            if fpe_obs is not None:
                fpe_obs.count("deferred_fits_computed")
                fpe_obs.cell("deferred:True")
    if fpe_obs is not None and fpe.events:
        fpe_obs.note("fp_events", fpe.events)
        fpe_obs.count("fpe:events", sum(fpe.events.values()))
    return model


def _k_for(cls, k, nv, pv, center):
    rank = min(nv - (1 if (center or cls == "HilbertEOF") else 0), pv)
    if cls == "ExtendedEOF":
        rank = min(nv - 1 - 1, 2 * pv)
    return max(1, min(k, rank)), rank


def _reconstruct(obs, fld, model):
    """inverse_transform(scores()) as an (n, p) array, or None where the call is unavailable for a reason that has
    nothing to do with NaNs: Dataset input whose sample dimension is not literally called 'sample' makes
    Stacker._unstack_to_dataset_data raise on its unconditional rename, masked or not (C02/C03 territory)."""
    try:
        robj = _quiet(model.inverse_transform, model.scores())
        fld.labels_ok(obs, "labels_reconstruction", robj, "data", "inverse_transform")
        return fld.data(robj)
    except ValueError as e:
        if fld.container == "ds" and "cannot rename" in str(e):
            obs.cell("recon:unavailable_dataset_rename")
            return None
        raise


def _run_single(case, obs):
    cls = case["cls"]
    fld = Field(case["container"], case["parts"], case["sdims"], case["sshape"])
    n, p = fld.n, fld.p
    rows, cols = case["rows"], case["cols"]
    rk, ck = _keep(n, rows), _keep(p, cols)
    nv, pv = len(rk), len(ck)
    obs.tag(cls=cls, op="fit", container=fld.container, multi_sample_dims=len(fld.sdims) > 1,
            rows_missing=bool(rows), cols_missing=bool(cols))
    _mask_cells(obs, fld, case)
    obs.nontrivial = bool(rows or cols)
    k, rank = _k_for(cls, case["k"], nv, pv, case["center"])
    dim = fld.sdims if len(fld.sdims) > 1 else fld.sdims[0]

    M0 = _matrix(n, p, case["dseed"], cplx=case["cplx"])
    M = _apply_mask(M0, rows, cols)
    X = fld.build(M)
    model = _fit_single(cls, k, case, X, dim, obs)

    cobj = _call(obs, "components", model.components)
    sobj = _call(obs, "scores", model.scores)
    if cobj is None or sobj is None:
        return
    fld.labels_ok(obs, "labels_components", cobj, "feat", "components")
    fld.labels_ok(obs, "labels_scores", sobj, "samp", "scores")
    comps = fld.feat(cobj)
    scores = fld.samp(sobj)
    sv = np.asarray(model.singular_values().values, float)
    del_c = np.zeros(p, bool)
    del_c[cols] = True
    del_r = np.zeros(n, bool)
    del_r[rows] = True
    trail = np.zeros(n, bool)
    if cls == "ExtendedEOF":  # the delay embedding has no score for the last (embedding-1)*tau *remaining* samples
        trail[rk[-1:]] = True
    shape_c = (p,) + (1,) * (comps.ndim - 1)
    _nanpos(obs, "nanpos_components", comps, del_c.reshape(shape_c), dict(op="components"))
    _nanpos(obs, "nanpos_scores", scores, (del_r | trail)[:, None], dict(op="scores"))
    obs.check("sv_finite", np.isfinite(sv).all(), f"singular values {sv}", tags=dict(op="singular_values", symptom="nonfinite"))

    recon = _reconstruct(obs, fld, model)
    if recon is not None:
        dele = del_r[:, None] | del_c[None, :] | trail[:, None]
        _nanpos(obs, "nanpos_reconstruction", recon, dele, dict(op="inverse_transform"))

    tobj = None
    if cls in HAS_TRANSFORM:
        tobj = _call(obs, "transform", model.transform, X)
        if tobj is not None:
            trans = fld.samp(tobj)
            # a fully missing sample may be omitted or NaN -- never a number
            _nanpos(obs, "nanpos_transform", trans, del_r[:, None], dict(op="transform"))
            obs.close("transform_equals_scores", trans, scores, TOL, scale=max(sv[0], 1e-300),
                      tags=dict(op="transform", symptom="transform_ne_scores"))

    # ---- oracle A: numpy reference ----------------------------------------------------
    if cls == "EOF" or (cls == "ComplexEOF" and not case["cplx"]):
        obs.cell("oracle:numpy_eof")
        ref = eof_reference(M, rk, ck, k, case["center"], case["standardize"], fld.coslat() if case["coslat"] else None)
        s1 = max(ref["sv_all"][0], 1e-300)
        obs.close("sv_vs_reduced_reference", sv, ref["sv"], TOL, scale=s1, tags=dict(op="singular_values", symptom="sv_ne_reduced"))
        ev = np.asarray(model.explained_variance().values, float)
        obs.close("expvar_vs_reduced_reference", ev, ref["sv"] ** 2 / (nv - 1), TOL, scale=s1**2 / (nv - 1),
                  tags=dict(op="explained_variance", symptom="expvar_ne_reduced"))
        if case["center"]:
            tot = float((np.abs(ref["Xp"]) ** 2).sum() / (nv - 1))
            evr = np.asarray(model.explained_variance_ratio().values, float)
            obs.close("expvar_ratio_vs_reduced_reference", evr, ref["sv"] ** 2 / (nv - 1) / max(tot, 1e-300), TOL, scale=1.0,
                      tags=dict(op="explained_variance_ratio", symptom="ratio_ne_reduced"))
        ok = _gapped_modes(ref["sv_all"], k, True) & ~ref["tie"]
        if ok.any():
            obs.close("components_vs_reduced_reference", comps[:, ok], ref["comps"][:, ok], TOL, scale=1.0,
                      tags=dict(op="components", symptom="components_ne_reduced"))
            obs.close("scores_vs_reduced_reference", scores[:, ok], ref["scores"][:, ok], TOL, scale=s1,
                      tags=dict(op="scores", symptom="scores_ne_reduced"))
        if not ok.all():
            obs.cell("vectors_skipped:small_gap_or_sign_tie")
        # the rank-k reconstruction is unique whenever sigma_k > sigma_{k+1}
        if recon is not None and (k == len(ref["sv_all"]) or (ref["sv_all"][k - 1] - ref["sv_all"][k]) / s1 >= GAP):
            obs.close("reconstruction_vs_reduced_reference", recon, ref["recon"], TOL,
                      scale=float(np.nanmax(np.abs(ref["recon"]))), tags=dict(op="inverse_transform", symptom="recon_ne_reduced"))

    # ---- oracle A': xeofs fit on the physically reduced object -------------------------------
    st = fld.structure(rows, cols)
    red = None
    kr = min(k + 1, rank)  # one more mode than compared, so that the gap below mode k is visible
    if st is not None:
        obs.cell("reduced:same_layout")
        skeep, fkeeps = st
        present = [e for e, f in enumerate(fkeeps) if not isinstance(f, str)]
        Xr = fld.build(M0, skeep, fkeeps)
        mr = _fit_single(cls, kr, case, Xr, dim)
        red = dict(
            comps=fld.feat(mr.components(), present)[:, :k], scores=fld.samp(mr.scores())[:, :k],
            sv=np.asarray(mr.singular_values().values, float), ev=np.asarray(mr.explained_variance().values, float),
        )
        if recon is not None:
            red["recon"] = fld.data(_quiet(mr.inverse_transform, mr.scores().isel(mode=slice(0, k))), present)
    elif not case["coslat"]:
        obs.cell("reduced:flat", "mask:non_slice")
        ff = FlatField(n, p, rk, ck)
        mr = _fit_single(cls, kr, case, ff.build(M0[np.ix_(rk, ck)]), "time")
        red = dict(comps=ff.feat(mr.components())[:, :k], scores=ff.samp(mr.scores())[:, :k],
                   sv=np.asarray(mr.singular_values().values, float), ev=np.asarray(mr.explained_variance().values, float))
        if recon is not None:
            red["recon"] = ff.data(_quiet(mr.inverse_transform, mr.scores().isel(mode=slice(0, k))))
    else:
        obs.cell("mask:non_slice", "reduced:none_coslat_non_slice")
    if red is not None:
        s1 = max(red["sv"][0], 1e-300)
        obs.close("sv_vs_reduced_fit", sv, red["sv"][:k], TOL, scale=s1, tags=dict(op="singular_values", symptom="sv_ne_reduced"))
        obs.close("expvar_vs_reduced_fit", np.asarray(model.explained_variance().values, float), red["ev"][:k], TOL,
                  scale=max(red["ev"][0], 1e-300), tags=dict(op="explained_variance", symptom="expvar_ne_reduced"))
        ok = _gapped_modes(red["sv"], k, kr == k)
        if np.iscomplexobj(red["comps"]) and (case["cplx"] or cls == "HilbertEOF"):
            # complex-valued decomposition: a mode is unique only up to ONE unit-modulus factor shared by its component
            # and its score (DESIGN section 4) -> align that single phase per mode, then demand equality
            obs.cell("complex_phase_aligned")
            a, b = np.nan_to_num(red["comps"]), np.nan_to_num(comps)
            axes = (0,) + tuple(range(2, a.ndim))
            ph = (a.conj() * b).sum(axis=axes)
            ph = np.where(np.abs(ph) > 0, ph / np.maximum(np.abs(ph), 1e-300), 1.0)
            red["comps"] = red["comps"] * ph.reshape((1, -1) + (1,) * (a.ndim - 2))
            red["scores"] = red["scores"] * ph[None, :]
            obs.note("max_phase_deviation", float(np.abs(ph - 1).max()))
        elif red["comps"].ndim == 2:
            ok &= ~_sign_tie(red["comps"])
        if ok.any():
            obs.close("components_vs_reduced_fit", comps[:, ok], red["comps"][:, ok], TOL, scale=1.0,
                      tags=dict(op="components", symptom="components_ne_reduced"))
            obs.close("scores_vs_reduced_fit", scores[:, ok], red["scores"][:, ok], TOL, scale=s1,
                      tags=dict(op="scores", symptom="scores_ne_reduced"))
        else:
            obs.cell("vectors_skipped:gap_not_visible")
        if recon is not None and "recon" in red and ok[k - 1]:
            obs.close("reconstruction_vs_reduced_fit", recon, red["recon"], TOL,
                      scale=float(np.nanmax(np.abs(red["recon"]))), tags=dict(op="inverse_transform", symptom="recon_ne_reduced"))

    # ---- oracle B on the fitted model: transform refusals -----------------------------------
    if tobj is not None:  # (vacuous if transform of the training data itself fails)
        _transform_refusals(case, obs, fld, model, M0, rows, cols, rk, ck)


def _transform_refusals(case, obs, fld, model, M0, rows, cols, rk, ck):
    rng = gen.rng_for(case["dseed"], 67)
    # (1) missing features differ from training: one more, one fewer, or a swapped one
    variants = []
    if len(ck) > 1:
        variants.append(("superset", sorted(cols + [int(rng.choice(ck))])))
    if cols:
        back = cols[int(rng.integers(0, len(cols)))]  # this training-missing feature carries values in the new data
        variants.append(("subset", [c for c in cols if c != back]))
        if len(ck) > 1:
            sw = [c for c in cols[1:]] + [int(rng.choice(ck))]
            variants.append(("swapped", sorted(sw)))
    for name, c2 in variants[:2] if case["sub"] == "exh" else variants:
        X2 = fld.build(_apply_mask(M0, rows, c2))
        e, res = _must_raise(
            obs, "transform_refuses_feature_mismatch", lambda X2=X2: model.transform(X2),
            "refusal:transform_feature_mismatch",
            dict(op="transform", symptom="feature_mismatch_accepted", mismatch=name,
                 scaler_params_nan=bool(case["center"] or case["standardize"])),
        )
    # (2) isolated NaN in transform data
    if len(rk) > 1 and len(ck) > 1:
        i, j = int(rng.choice(rk)), int(rng.choice(ck))
        X3 = fld.build(_apply_mask(M0, rows, cols, [(i, j)]))
        _must_raise(
            obs, "transform_refuses_partial_nan", lambda: model.transform(X3), "refusal:transform_isolated",
            dict(op="transform", symptom="partial_nan_accepted", nan_class=_nan_class(fld, _apply_mask(M0, rows, cols, [(i, j)]))),
        )


def _nan_class(fld, Mi):
    """How the NaNs that are neither a full row nor a full column of the concatenated matrix look from inside
    each list element / variable: 'none', 'isolated_cell' (some part sees a partially filled row) or
    'sample_missing_in_some_elements' (every part sees only complete rows / columns, but not the same rows)."""
    nn = np.isnan(Mi)
    r_ok = ~nn.all(axis=1)
    c_ok = ~nn.all(axis=0)
    if not nn[np.ix_(r_ok, c_ok)].any():
        return "none"
    if fld.container != "list":
        return "isolated_cell"
    for a, b in fld.spans:
        sub = nn[:, a:b]
        sub = sub[np.ix_(~sub.all(axis=1), ~sub.all(axis=0))]
        if sub.any():
            return "isolated_cell"
    return "sample_missing_in_some_elements"


def _run_iso(case, obs):
    """Oracle B.  Data with >= 1 NaN that is not part of a fully missing row / column of the data matrix:
    fit must raise; a model fitted without those cells must refuse to transform them."""
    cls = case["cls"]
    fld = Field(case["container"], case["parts"], case["sdims"], case["sshape"])
    n, p = fld.n, fld.p
    rows, cols, iso = case["rows"], case["cols"], [tuple(t) for t in case["iso"]]
    rk, ck = _keep(n, rows), _keep(p, cols)
    M0 = _matrix(n, p, case["dseed"])
    Mi = _apply_mask(M0, rows, cols, iso)
    lost = int(case.get("lost", len(iso)))
    if case["kind"] == "listpartial":
        a, b = fld.spans[case["elem"]]
        Mi[np.ix_(case["prow"], range(a, b))] = np.nan
        lost = len(case["prow"])
    nan_class = _nan_class(fld, Mi)
    obs.tag(cls=cls, op="fit", container=fld.container, multi_sample_dims=len(fld.sdims) > 1, nan_class=nan_class,
            rows_missing=bool(rows), cols_missing=bool(cols))
    obs.cell(f"container:{fld.container}", f"cls:{cls}", f"mask:{nan_class}")
    obs.nontrivial = True
    if nan_class == "none":
        obs.ambiguous("the extra cells completed a full row/column: nothing isolated is left")
    k, _ = _k_for(cls, case["k"], len(rk) - lost, len(ck) - 1, case["center"])
    dim = fld.sdims if len(fld.sdims) > 1 else fld.sdims[0]
    Xi = fld.build(Mi)
    e, model_bad = _must_raise(
        obs, "fit_refuses_partial_nan", lambda: _make_single(cls, k, case).fit(Xi, dim=dim), "refusal:fit_isolated",
        dict(op="fit", symptom="partial_nan_accepted"),
    )
    if model_bad is not None:
        obs.note("accepted_fit_scores", np.asarray(model_bad.scores().values).tolist())
    # control: the identical fit without those cells succeeds ...
    X = fld.build(_apply_mask(M0, rows, cols))
    model = _fit_single(cls, k, case, X, dim, obs)
    # ... and refuses them at transform
    e, res = _must_raise(
        obs, "transform_refuses_partial_nan", lambda: model.transform(Xi), "refusal:transform_isolated",
        dict(op="transform", symptom="partial_nan_accepted"),
    )
    if res is not None:
        t = fld.samp(res)
        bad = np.isnan(Mi).any(axis=1) & ~np.isnan(Mi).all(axis=1)
        obs.note("scores_at_partial_samples", t[bad].tolist())


# -----------------------------------------------------------------------------
# cross-set
# -----------------------------------------------------------------------------
def _make_cross(cls, case, k):
    import xeofs as xe

    kw = dict(n_modes=k, solver="full", use_pca=False, standardize=case["standardize"])
    if cls == "CPCCA":
        kw["alpha"] = case["alpha"]
    return _quiet(getattr(xe.cross, cls), **kw)


def mca_reference(MX, MY, rk, cx, cy, k, standardize):
    """MCA on the rows rk of both fields: SVD of the cross-covariance of the centred (standardised) fields."""
    Xp = oracle.preprocess(MX[np.ix_(rk, cx)], True, standardize)
    Yp = oracle.preprocess(MY[np.ix_(rk, cy)], True, standardize)
    C = Xp.T @ Yp / (len(rk) - 1)
    U, s, Vt = np.linalg.svd(C, full_matrices=False)
    V = Vt.T
    # xeofs fixes the sign on the right singular vectors and flips the left ones along
    V2, tie = _fix_sign(V[:, :k])
    flip = np.sign((V2 * V[:, :k]).sum(axis=0))
    U2 = U[:, :k] * flip
    return dict(s=s, U=U2, V=V2, Sx=Xp @ U2, Sy=Yp @ V2, tie=tie)


def _cross_read(model, fx, fy, px=None, py=None, obs=None):
    c1, c2 = model.components()
    s1, s2 = model.scores()
    if obs is not None:
        fx.labels_ok(obs, "labels_components_X", c1, "feat", "components")
        fy.labels_ok(obs, "labels_components_Y", c2, "feat", "components")
        fx.labels_ok(obs, "labels_scores_X", s1, "samp", "scores")
        fy.labels_ok(obs, "labels_scores_Y", s2, "samp", "scores")
    return dict(cx=fx.feat(c1, px), cy=fy.feat(c2, py), sx=fx.samp(s1), sy=fy.samp(s2),
                s=np.asarray(model.data["singular_values"].values, float))


def _cross_read_rot(rot, fx, fy, obs=None):
    c1, c2 = rot.components()
    s1, s2 = rot.scores()
    if obs is not None:
        fx.labels_ok(obs, "labels_rotated_components_X", c1, "feat", "components")
        fy.labels_ok(obs, "labels_rotated_components_Y", c2, "feat", "components")
        fx.labels_ok(obs, "labels_rotated_scores_X", s1, "samp", "scores")
        fy.labels_ok(obs, "labels_rotated_scores_Y", s2, "samp", "scores")
    return dict(cx=fx.feat(c1), cy=fy.feat(c2), sx=fx.samp(s1), sy=fy.samp(s2))


def _cross_setup(case):
    n = case["n"]
    fx = Field("da", case["parts_x"], ["time"], [n])
    fy = Field("da", case["parts_y"], ["time"], [n])
    rng = gen.rng_for(case["dseed"], 68)
    MX = gen.random_field(n, fx.p, rng)
    B = rng.standard_normal((fx.p, fy.p))
    MY = MX @ B * 0.7 + gen.random_field(n, fy.p, rng)
    return fx, fy, MX, MY


def _cross_reduced(cls, case, k, fx, fy, MX, MY, union, cx_del, cy_del, rk, cx, cy, obs):
    """xeofs fit with the union of missing samples (and each field's missing features) physically deleted; plus the
    singular values of a probe fit with one more mode (visibility of the gap below mode k)."""
    n = case["n"]
    st = (fx.structure(union, cx_del), fy.structure(union, cy_del))
    kmax = min(len(cx), len(cy), len(rk) - 1)
    kr = min(k + 1, kmax)
    if st[0] is None or st[1] is None:
        obs.cell("reduced:flat", "mask:non_slice")
        f1, f2 = FlatField(n, fx.p, rk, cx), FlatField(n, fy.p, rk, cy)
        Xr = f1.build(MX[np.ix_(rk, cx)])
        Yr = f2.build(MY[np.ix_(rk, cy)]).rename({"x": "x_y"})
        mr = _make_cross(cls, case, k)
        _quiet(mr.fit, Xr, Yr, dim="time")
        c1, c2 = mr.components()
        s1, s2 = mr.scores()
        red = dict(cx=f1.feat(c1), cy=f2.feat(c2.rename({"x_y": "x"})), sx=f1.samp(s1), sy=f2.samp(s2),
                   s=np.asarray(mr.data["singular_values"].values, float))
    else:
        obs.cell("reduced:same_layout")
        Xr = fx.build(MX, *st[0])
        Yr = fy.build(MY, *st[1])
        mr = _make_cross(cls, case, k)
        _quiet(mr.fit, Xr, Yr, dim="time")
        red = _cross_read(mr, fx, fy)
    if kr > k:
        mp = _make_cross(cls, case, kr)
        _quiet(mp.fit, Xr, Yr, dim="time")
        red["s_probe"] = np.asarray(mp.data["singular_values"].values, float)
    else:
        red["s_probe"] = red["s"]
    red["ok"] = _gapped_modes(red["s_probe"], k, kr == k) & ~_sign_tie(red["cy"])
    return red


def _relerr(got, want, scale=None):
    g, w = np.asarray(got), np.asarray(want)
    if g.shape != w.shape or (np.isnan(g) != np.isnan(w)).any():
        return np.inf
    if scale is None:
        scale = float(np.nanmax(np.abs(w))) if w.size else 1.0
    d = np.abs(np.where(np.isnan(g), 0, g) - np.where(np.isnan(w), 0, w))
    return float(d.max()) / max(scale, 1e-300) if d.size else 0.0


def _run_cross(case, obs):
    cls, pattern = case["cls"], case["pattern"]
    fx, fy, MX, MY = _cross_setup(case)
    n = case["n"]
    rx, ry, cx_del, cy_del = case["rows_x"], case["rows_y"], case["cols_x"], case["cols_y"]
    union = sorted(set(rx) | set(ry))
    rk = _keep(n, union)
    cx, cy = _keep(fx.p, cx_del), _keep(fy.p, cy_del)
    k = max(1, min(case["k"], len(cx), len(cy), len(rk) - 1))
    same_pos = sorted(rx) == sorted(ry)
    obs.tag(cls=cls, op="fit", sample_positions="same" if same_pos else "different",
            equal_counts=len(rx) == len(ry), cols_missing=bool(cx_del or cy_del))
    obs.cell(f"cls:{cls}", f"pattern:{pattern}", "container:da")
    obs.nontrivial = bool(rx or ry or cx_del or cy_del)
    Xm = fx.build(_apply_mask(MX, rx, cx_del))
    Ym = fy.build(_apply_mask(MY, ry, cy_del))
    model = _make_cross(cls, case, k)
    fpe = mon.FPE(REPO)
    try:
        with warnings.catch_warnings(), fpe:
            warnings.simplefilter("ignore")
            model.fit(Xm, Ym, dim="time")
    except Exception as e:  # noqa: BLE001
        if same_pos:
            raise  # nothing to refuse: both fields miss exactly the same samples
        obs.cell(f"cross_refused:{pattern}", f"cross_refused:{type(e).__name__}")
        obs.check("cross_fit_deletes_from_both_or_refuses", True)
        mon.drain(obs)
        obs.refuse(f"fit refused samples missing at different positions ({type(e).__name__})")
    if fpe.events:
        obs.note("fp_events", fpe.events)
    got = _cross_read(model, fx, fy, obs=obs if same_pos else None)
    red = _cross_reduced(cls, case, k, fx, fy, MX, MY, union, cx_del, cy_del, rk, cx, cy, obs)
    ok = red["ok"]
    s1 = max(red["s"][0], 1e-300)

    del_r = np.zeros(n, bool)
    del_r[union] = True
    dcx = np.zeros(fx.p, bool)
    dcx[cx_del] = True
    dcy = np.zeros(fy.p, bool)
    dcy[cy_del] = True

    if not same_pos:
        # The fit went through although X and Y miss different samples: the only admissible result is the model of
        # the data with the union of those samples deleted from both fields.  ONE aggregated verdict (one mechanism).
        errs = {"sv": _relerr(got["s"], red["s"], s1)}
        nan_ok = bool((np.isnan(got["sx"]).all(axis=1) == del_r).all() and (np.isnan(got["sy"]).all(axis=1) == del_r).all())
        if ok.any():
            errs["components_X"] = _relerr(got["cx"][:, ok], red["cx"][:, ok])
            errs["components_Y"] = _relerr(got["cy"][:, ok], red["cy"][:, ok])
        worst = max(errs.values())
        good = worst <= TOL and nan_ok
        if good:
            obs.worst["cross_fit_deletes_from_both_or_refuses"] = max(obs.worst.get("cross_fit_deletes_from_both_or_refuses", 0), worst / TOL)
        obs.check(
            "cross_fit_deletes_from_both_or_refuses", good,
            f"{cls}: X misses samples {rx}, Y misses {ry}; fit returned a model that is not the one of the data with "
            f"{union} deleted from both (rel. errors {errs}; scores NaN exactly at the union: {nan_ok}) -- rows were paired by position",
            tags=dict(op="fit", symptom="samples_paired_by_position"),
        )
        return

    # ---- same positions (or no sample missing): NaN at exactly the deleted labels -----------------------
    _nanpos(obs, "nanpos_components_X", got["cx"], dcx[:, None], dict(op="components"))
    _nanpos(obs, "nanpos_components_Y", got["cy"], dcy[:, None], dict(op="components"))
    _nanpos(obs, "nanpos_scores_X", got["sx"], del_r[:, None], dict(op="scores"))
    _nanpos(obs, "nanpos_scores_Y", got["sy"], del_r[:, None], dict(op="scores"))
    # ---- ... and the values of the fit on the physically reduced pair ---------------------------------
    obs.close("cross_sv_vs_reduced_fit", got["s"], red["s"], TOL, scale=s1, tags=dict(op="singular_values", symptom="sv_ne_reduced"))
    if ok.any():
        for key, op in (("cx", "components"), ("cy", "components"), ("sx", "scores"), ("sy", "scores")):
            obs.close(f"cross_{key}_vs_reduced_fit", got[key][:, ok], red[key][:, ok], TOL,
                      scale=max(float(np.nanmax(np.abs(red[key]))), 1e-300), tags=dict(op=op, symptom=f"{op}_ne_reduced"))
    else:
        obs.cell("vectors_skipped:gap_not_visible")

    # ---- numpy reference for MCA (no whitening, no PCA): cross-covariance SVD on the common rows ----
    if cls == "MCA":
        obs.cell("oracle:numpy_mca")
        ref = mca_reference(MX, MY, rk, cx, cy, k, case["standardize"])
        obs.close("mca_sv_vs_numpy_reference", got["s"], ref["s"][:k], TOL, scale=ref["s"][0],
                  tags=dict(op="singular_values", symptom="sv_ne_reduced"))
        okm = _gapped_modes(ref["s"], k, True) & ~ref["tie"]
        if okm.any():
            obs.close("mca_components_X_vs_numpy_reference", got["cx"][cx][:, okm], ref["U"][:, okm], TOL, scale=1.0,
                      tags=dict(op="components", symptom="components_ne_reduced"))
            obs.close("mca_components_Y_vs_numpy_reference", got["cy"][cy][:, okm], ref["V"][:, okm], TOL, scale=1.0,
                      tags=dict(op="components", symptom="components_ne_reduced"))
            obs.close("mca_scores_X_vs_numpy_reference", got["sx"][rk][:, okm], ref["Sx"][:, okm], TOL,
                      scale=float(np.abs(ref["Sx"]).max()), tags=dict(op="scores", symptom="scores_ne_reduced"))
            obs.close("mca_scores_Y_vs_numpy_reference", got["sy"][rk][:, okm], ref["Sy"][:, okm], TOL,
                      scale=float(np.abs(ref["Sy"]).max()), tags=dict(op="scores", symptom="scores_ne_reduced"))

    # ---- reconstructions and transform on the masked model ------------------------------------------
    sX, sY = model.scores()
    rec = _call(obs, "inverse_transform", model.inverse_transform, sX, sY)
    if rec is not None:
        fx.labels_ok(obs, "labels_reconstruction_X", rec[0], "data", "inverse_transform")
        fy.labels_ok(obs, "labels_reconstruction_Y", rec[1], "data", "inverse_transform")
        recx, recy = fx.data(rec[0]), fy.data(rec[1])
        _nanpos(obs, "nanpos_reconstruction_X", recx, del_r[:, None] | dcx[None, :], dict(op="inverse_transform"))
        _nanpos(obs, "nanpos_reconstruction_Y", recy, del_r[:, None] | dcy[None, :], dict(op="inverse_transform"))
    tr = _call(obs, "transform", model.transform, Xm, Ym)
    if tr is not None:
        tx, ty = fx.samp(tr[0]), fy.samp(tr[1])
        _nanpos(obs, "nanpos_transform_X", tx, del_r[:, None], dict(op="transform"))
        _nanpos(obs, "nanpos_transform_Y", ty, del_r[:, None], dict(op="transform"))
        obs.close("cross_transform_equals_scores_X", tx, got["sx"], TOL, scale=float(np.nanmax(np.abs(got["sx"]))),
                  tags=dict(op="transform", symptom="transform_ne_scores"))
        obs.close("cross_transform_equals_scores_Y", ty, got["sy"], TOL, scale=float(np.nanmax(np.abs(got["sy"]))),
                  tags=dict(op="transform", symptom="transform_ne_scores"))
    # refusals at fit (isolated NaN in one field) and at transform: isolated NaN, different missing features
    rng = gen.rng_for(case["dseed"], 69)
    for side, fld, M0, rws, cdel, ckeep in (("X", fx, MX, rx, cx_del, cx), ("Y", fy, MY, ry, cy_del, cy)):
        i, j = int(rng.choice(rk)), int(rng.choice(ckeep))
        if len(ckeep) > 1:
            Xi = fld.build(_apply_mask(M0, rws, cdel, [(i, j)]))
            pair = (Xi, Ym) if side == "X" else (Xm, Xi)
            _must_raise(obs, "fit_refuses_partial_nan", lambda: _make_cross(cls, case, k).fit(pair[0], pair[1], dim="time"),
                        "refusal:fit_isolated", dict(op="fit", symptom="partial_nan_accepted", nan_class="isolated_cell", side=side))
            _must_raise(obs, "transform_refuses_partial_nan", lambda: model.transform(**{side: Xi}),
                        "refusal:transform_isolated",
                        dict(op="transform", symptom="partial_nan_accepted", nan_class="isolated_cell", side=side))
            Xf = fld.build(_apply_mask(M0, rws, sorted(cdel + [j])))
            _must_raise(obs, "transform_refuses_feature_mismatch", lambda: model.transform(**{side: Xf}),
                        "refusal:transform_feature_mismatch",
                        dict(op="transform", symptom="feature_mismatch_accepted", side=side, mismatch="superset"))
        if cdel:
            Xs = fld.build(_apply_mask(M0, rws, cdel[1:]))
            _must_raise(obs, "transform_refuses_feature_mismatch", lambda: model.transform(**{side: Xs}),
                        "refusal:transform_feature_mismatch",
                        dict(op="transform", symptom="feature_mismatch_accepted", side=side, mismatch="subset", scaler_params_nan=True))


# -----------------------------------------------------------------------------
# rotators
# -----------------------------------------------------------------------------
def _rot_fit(obs, Rot, model, **kw):
    """Fit a rotator; 'Rotation process did not converge' is the rotator's documented refusal (depends on the
    loadings, not on NaNs) -> the case is refused."""
    r = _quiet(Rot, **kw)
    try:
        _quiet(r.fit, model)
    except RuntimeError as e:
        if "did not converge" in str(e):
            mon.drain(obs)
            obs.refuse("rotation did not converge (independent of the NaN handling)")
        raise
    return r


def _run_rot_single(case, obs):
    import xeofs as xe

    fld = Field(case["container"], case["parts"], case["sdims"], case["sshape"])
    n, p = fld.n, fld.p
    rows, cols = case["rows"], case["cols"]
    rk, ck = _keep(n, rows), _keep(p, cols)
    obs.tag(cls="EOFRotator", op="fit", container=fld.container, promax=case["power"] > 1, rows_missing=bool(rows), cols_missing=bool(cols))
    obs.cell("cls:EOFRotator", f"container:{fld.container}", f"power:{case['power']}")
    obs.nontrivial = bool(rows or cols)
    k, rank = _k_for("EOF", case["k"], len(rk), len(ck), case["center"])
    if k < 2:
        obs.refuse("fewer than 2 modes available for a rotation")
    M0 = _matrix(n, p, case["dseed"])
    M = _apply_mask(M0, rows, cols)
    base = _fit_single("EOF", k, case, fld.build(M), fld.sdims[0], obs)
    rot = _rot_fit(obs, xe.single.EOFRotator, base, n_modes=k, power=case["power"])
    fld.labels_ok(obs, "labels_rotated_components", rot.components(), "feat", "components")
    fld.labels_ok(obs, "labels_rotated_scores", rot.scores(), "samp", "scores")
    comps = fld.feat(rot.components())
    scores = fld.samp(rot.scores())
    del_c = np.zeros(p, bool)
    del_c[cols] = True
    del_r = np.zeros(n, bool)
    del_r[rows] = True
    _nanpos(obs, "nanpos_rotated_components", comps, del_c[:, None], dict(op="components"))
    _nanpos(obs, "nanpos_rotated_scores", scores, del_r[:, None], dict(op="scores"))
    rec = _reconstruct(obs, fld, rot)
    if rec is not None:
        _nanpos(obs, "nanpos_rotated_reconstruction", rec, del_r[:, None] | del_c[None, :], dict(op="inverse_transform"))
    tobj = _call(obs, "transform", rot.transform, fld.build(M))
    if tobj is not None:
        tr = fld.samp(tobj)
        _nanpos(obs, "nanpos_rotated_transform", tr, del_r[:, None], dict(op="transform"))
        obs.close("rotated_transform_equals_scores", tr, scores, TOL_ROT, scale=float(np.nanmax(np.abs(scores))),
                  tags=dict(op="transform", symptom="transform_ne_scores"))
    # relation: rotator on the reduced model
    st = fld.structure(rows, cols)
    if st is not None:
        obs.cell("reduced:same_layout")
        present = [e for e, f in enumerate(st[1]) if not isinstance(f, str)]
        mb = _fit_single("EOF", k, case, fld.build(M0, *st), fld.sdims[0])
        sv = np.asarray(mb.singular_values().values, float)
        r2 = _rot_fit(obs, xe.single.EOFRotator, mb, n_modes=k, power=case["power"])
        c2, s2 = fld.feat(r2.components(), present), fld.samp(r2.scores())
    elif not case["coslat"]:
        obs.cell("reduced:flat", "mask:non_slice")
        ff = FlatField(n, p, rk, ck)
        mb = _fit_single("EOF", k, case, ff.build(M0[np.ix_(rk, ck)]), "time")
        sv = np.asarray(mb.singular_values().values, float)
        r2 = _rot_fit(obs, xe.single.EOFRotator, mb, n_modes=k, power=case["power"])
        c2, s2 = ff.feat(r2.components()), ff.samp(r2.scores())
    else:
        return
    # The rotation acts on the span of the first k modes: unique only if sigma_k is separated from sigma_{k+1}
    # (full spectrum from the numpy reference); mode-wise comparison additionally needs gapped base modes
    # (start point of the iteration) and gapped rotated variances (ordering of the rotated modes).
    ref = eof_reference(M, rk, ck, k, case["center"], case["standardize"], fld.coslat() if case["coslat"] else None)
    ev_m = np.asarray(rot.explained_variance().values, float)
    ev_r = np.asarray(r2.explained_variance().values, float)
    obs.close("rotator_base_sv_vs_reduced_reference", sv, ref["sv"], TOL, scale=ref["sv"][0],
              tags=dict(op="singular_values", symptom="sv_ne_reduced"))
    gaps_ok = _gapped_modes(ref["sv_all"], k, True).all() and not ref["tie"].any()
    rot_gap = np.min(np.abs(np.diff(np.sort(ev_r)))) / max(ev_r.max(), 1e-300)
    if gaps_ok and rot_gap >= GAP:
        obs.close("rotated_expvar_vs_reduced_fit", ev_m, ev_r, TOL_ROT, scale=ev_r.max(),
                  tags=dict(op="explained_variance", symptom="expvar_ne_reduced"))
        obs.close("rotated_components_vs_reduced_fit", comps, c2, TOL_ROT, scale=float(np.nanmax(np.abs(c2))),
                  tags=dict(op="components", symptom="components_ne_reduced"))
        obs.close("rotated_scores_vs_reduced_fit", scores, s2, TOL_ROT, scale=float(np.nanmax(np.abs(s2))),
                  tags=dict(op="scores", symptom="scores_ne_reduced"))
    else:
        obs.cell("vectors_skipped:gap_not_visible")


def _run_rot_cross(case, obs):
    import xeofs as xe

    rotname = case["rot"]
    cls = case["cls"]
    fx, fy, MX, MY = _cross_setup(case)
    n = case["n"]
    rows, cx_del, cy_del = case["rows_x"], case["cols_x"], case["cols_y"]
    rk = _keep(n, rows)
    cx, cy = _keep(fx.p, cx_del), _keep(fy.p, cy_del)
    k = min(3, len(cx), len(cy), len(rk) - 1)
    obs.tag(cls=rotname, op="fit", base=cls, promax=case["power"] > 1, rows_missing=bool(rows), cols_missing=bool(cx_del or cy_del))
    obs.cell(f"cls:{rotname}", f"power:{case['power']}", "container:da")
    obs.nontrivial = bool(rows or cx_del or cy_del)
    if k < 2:
        obs.refuse("fewer than 2 modes available for a rotation")
    Rot = getattr(xe.cross, rotname)

    def fit(X, Y):
        m = _make_cross(cls, case, k)
        _quiet(m.fit, X, Y, dim="time")
        s = np.asarray(m.data["singular_values"].values, float)
        r = _rot_fit(obs, Rot, m, n_modes=k, power=case["power"])
        return r, s

    Xm = fx.build(_apply_mask(MX, rows, cx_del))
    Ym = fy.build(_apply_mask(MY, rows, cy_del))
    rot, _ = fit(Xm, Ym)
    got = _cross_read_rot(rot, fx, fy, obs)
    del_r = np.zeros(n, bool)
    del_r[rows] = True
    dcx = np.zeros(fx.p, bool)
    dcx[cx_del] = True
    dcy = np.zeros(fy.p, bool)
    dcy[cy_del] = True
    _nanpos(obs, "nanpos_rotated_components_X", got["cx"], dcx[:, None], dict(op="components"))
    _nanpos(obs, "nanpos_rotated_components_Y", got["cy"], dcy[:, None], dict(op="components"))
    _nanpos(obs, "nanpos_rotated_scores_X", got["sx"], del_r[:, None], dict(op="scores"))
    _nanpos(obs, "nanpos_rotated_scores_Y", got["sy"], del_r[:, None], dict(op="scores"))
    st = (fx.structure(rows, cx_del), fy.structure(rows, cy_del))
    if st[0] is None or st[1] is None:
        obs.cell("mask:non_slice", "reduced:none_rot_cross_non_slice")
        return
    obs.cell("reduced:same_layout")
    Xr, Yr = fx.build(MX, *st[0]), fy.build(MY, *st[1])
    r2, _ = fit(Xr, Yr)
    red = _cross_read_rot(r2, fx, fy)
    # probe fit with one more mode: makes the gap below mode k visible (decides comparability only)
    kmax = min(len(cx), len(cy), len(rk) - 1)
    kr = min(k + 1, kmax)
    mp = _make_cross(cls, case, kr)
    _quiet(mp.fit, Xr, Yr, dim="time")
    sv = np.asarray(mp.data["singular_values"].values, float)
    ok = _gapped_modes(sv, k, kr == k) & ~_sign_tie(fy.feat(mp.components()[1])[:, :k])
    if ok.all():  # (rotated loadings have no sign convention of their own: they inherit the base model's)
        for key, op in (("cx", "components"), ("cy", "components"), ("sx", "scores"), ("sy", "scores")):
            obs.close(f"rotated_{key}_vs_reduced_fit", got[key], red[key], TOL_ROT, scale=float(np.nanmax(np.abs(red[key]))),
                      tags=dict(op=op, symptom=f"{op}_ne_reduced"))
    else:
        obs.cell("vectors_skipped:gap_not_visible")
