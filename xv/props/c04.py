"""C04 -- transform(training data) reproduces scores().

Relation monitor between two executions of the real code: every transform-capable class is
fitted on generated, labelled data and `transform(<the training data>)` is compared with the
model's own `scores()`:

* same dims (sample dims + 'mode'), same mode labels in the same order,
* labelled by the training samples: every sample that is not entirely missing is present, no label
  that is not a training label, an entirely missing sample is omitted or NaN,
* same values (1e-8 * max|scores|) -- no sign / phase / permutation alignment at all,
* for cross-set models also `transform(X=...)` and `transform(Y=...)` alone,
* normalized on and off.

Rows are matched BY LABEL (labels are known from the workload builder, not from xeofs).
"""
import warnings

import numpy as np

from .. import gen, mon, zoo
from . import c04_common as cc

LEVEL = "exploration"
RULE = (
    "structured corpus = one case per class x configuration cell (169 cells: class, base model, alpha pair, use_pca, "
    "rotation power) with container kind / sample layout / NaN pattern / complex input cycled, plus dedicated cases "
    "for (stacked sample axis x entirely missing samples); seeded random part draws family -> cell -> containers "
    "(DataArray 1-2 feature dims, Dataset equal/different dim sets, list), layout (int/unsorted/str/datetime index, "
    "2 sample dims, MultiIndex), NaN pattern, tall/wide shape, n_modes, rotated modes, standardize/coslat, solver. "
    "A case is non-trivial when at least one value comparison over >= 2 modes and >= 3 non-missing samples was "
    "evaluated; distinct = distinct canonical case record"
)
ASSUMPTIONS = [
    "labels of the generated inputs are the ground truth for matching rows; score-like results are read back by label",
    "non-exact solvers are only generated for real input where the range finder's sketch spans the whole row space (tolerance 1e-6 there)",
    "cross-set inputs have their entirely missing samples at the same positions in both fields (different positions are C06's subject)",
    "covariance-inverting configurations (alpha<1 without PCA, POP without PCA, multi.CCA) get more samples than features",
]
EXHAUSTIVE = {"quick": False, "thorough": False}

# the structured corpus already spends 120 of its 169 cells on cross-set rotators (2-4 s each: Rotator.fit serialises
# the whole model into a DataTree), so the random part leans on the cheaper families
FAMILY_P = {"single": 0.25, "single_rot": 0.2, "cross": 0.35, "cross_rot": 0.15, "multi": 0.05}
BY_FAMILY = {}
for _c in cc.CONFIGS:
    BY_FAMILY.setdefault(zoo.kind(_c["cls"]), []).append(_c)
NANS = ("none", "s", "f", "sf")
DEDICATED = ("EOF", "POP|pca=1", "EOFRotator|base=EOF|power=2", "CPCCA|alpha=0.5,0.5|pca=1", "MCARotator|base=MCA|pca=0|power=1", "ComplexMCA|pca=1")


def setup(tier):
    mon.install_decomposer()  # back-end invocation events (which SVD routine ran) for the non-exact family


def required(tier):
    cells = [f"called:{c['cell']}" for c in cc.CONFIGS]
    cells += [f"compared:{c['cell']}" for c in cc.CONFIGS if c["cls"] != "multi.CCA"]
    cells += [f"container:{k}" for k in cc.CONTAINERS]
    cells += [f"layout:{k}" for k in cc.LAYOUTS]
    cells += [f"nan:{k}" for k in NANS]
    cells += ["normalized:True", "normalized:False", "cplx_input:True", "cplx_input:False", "shape:wide", "shape:tall"]
    cells += ["stacked_layout+missing_samples", "op:transform_X_only", "op:transform_Y_only"]
    cells += ["history:after_accessor_history", "history:model_under_rotator", "cplx_nonexact:ComplexEOF", "cplx_nonexact:ComplexEOFRotator", "cplx_nonexact_backend:svds"]
    return {"mon": ["value_comparisons", "rotator_refits_compared"], "cover": cells}


def cases(tier, seed):
    out = []
    for i, cfg in enumerate(cc.CONFIGS):
        rng = gen.rng_for(4004, i)
        layout = cc.LAYOUTS[i % 6]
        nan = NANS[(i // 2) % 4]
        if layout in cc.STACKED:
            nan = nan.replace("s", "") or "none"  # that combination has its own dedicated cases below
        container = [cc.CONTAINERS[i % 5], cc.CONTAINERS[(i // 5 + 2) % 5], cc.CONTAINERS[(i + 3) % 5]]
        cplx = None if cfg["cls"] not in zoo.COMPLEX_INPUT_OK else bool(i % 5 != 3)  # i=1 (ComplexEOF) gets complex input
        wide = bool(i % 3 == 0)
        out.append(cc.draw_case(cfg, rng, container=container, layout=layout, nan=nan, cplx=cplx, wide=wide))
    cells = {c["cell"]: c for c in cc.CONFIGS}
    for j, name in enumerate(DEDICATED):
        for li, layout in enumerate(cc.STACKED):
            rng = gen.rng_for(4004, 1000 + 2 * j + li)
            out.append(cc.draw_case(cells[name], rng, layout=layout, nan="s" if (j + li) % 2 else "sf"))
    # multi.CCA with its PCA step on views whose rank exceeds the randomised sketch (modes + 10): scores() must
    # still be exactly what transform() computes (both project the preprocessed views on the same weights)
    for j in range(2 if tier == "quick" else 6):
        out.append(dict(kind="multi_big", cls="multi.CCA", cell="multi.CCA|pca=big", dseed=4400 + j, n=int(90 + 10 * j), ps=[48 + j, 45 - j]))
    # complex input on the non-exact back-end (scipy svds): scores are U*s, transform() is X V -- the triplets
    # have to stay paired through the back-end's own re-ordering
    for j in range(8 if tier == "quick" else 60):
        out.append(dict(kind="cplx_nonexact", cls=("ComplexEOF", "ComplexEOFRotator")[j % 4 == 3], cell="ComplexEOF|nonexact", solver=("randomized", "auto")[j % 2],
                        dseed=4500 + j if j < 8 else int(gen.rng_for(seed, 45, j).integers(0, 2**31 - 1))))
    nrand = 300 if tier == "quick" else 9000
    fams = list(FAMILY_P)
    pf = [FAMILY_P[k] for k in fams]
    for j in range(nrand):
        rng = gen.rng_for(seed, 4, j)
        fam = str(rng.choice(fams, p=pf))
        cfg = BY_FAMILY[fam][int(rng.integers(0, len(BY_FAMILY[fam])))]
        solver = "full" if rng.random() < 0.85 else str(rng.choice(["auto", "randomized"]))
        out.append(cc.draw_case(cfg, rng, solver=solver))
    return out


def _run_multi_big(case, obs):
    import numpy as np
    import xeofs as xe

    from .. import xu

    obs.tag(cls="multi.CCA", op="transform", family="multi_big")
    obs.cell("family:multi_big", f"called:{case['cell']}")
    rng = gen.rng_for(case["dseed"], 44)
    n = case["n"]
    views = []
    common = rng.standard_normal((n, 3))
    for vi, p in enumerate(case["ps"]):
        M = rng.standard_normal((n, p)) * rng.uniform(0.6, 1.4, size=p) + common @ rng.standard_normal((3, p))
        views.append(xu.make_da(M, (p,), ("x%d" % vi,)))
    with warnings.catch_warnings():
        warnings.simplefilter("ignore")
        m = xe.multi.CCA(n_modes=2, pca=True, init_pca_modes=0.75, variance_fraction=0.9)
        m.fit(views, dim="time")
        S = m.scores()
        T = m.transform(views)
    obs.nontrivial = True
    obs.check("transform_count", len(T) == len(S) == len(views), f"{len(T)} / {len(S)} results for {len(views)} views", tags={"symptom": "result_count"})
    for i, (t, s_) in enumerate(zip(T, S)):
        a = np.asarray(t.transpose("time", "mode").values)
        b = np.asarray(s_.transpose("time", "mode").values)
        obs.count("value_comparisons")
        obs.close("transform_equals_scores_multi_big", a, b, 1e-8, tags={"symptom": "transform_ne_scores", "mismatch": "values", "field": i})
    obs.cell(f"compared:{case['cell']}")


def _run_cplx_nonexact(case, obs):
    import xarray as xr
    import xeofs as xe

    rng = gen.rng_for(case["dseed"], 46)
    n, p = int(rng.integers(30, 80)), int(rng.integers(12, 30))
    k = int(rng.choice([2, 3, 4, 5]))
    r = min(n - 1, p)
    M, _, _ = gen.low_rank(n, p, 0.6 ** np.arange(r) * 5, rng, cplx=True, perp_ones=True)
    M = M * np.sqrt(n) * 10.0 ** int(rng.integers(-3, 4))
    X = xr.DataArray(M, dims=("time", "x"), coords={"time": np.arange(n) * 2, "x": np.arange(p) + 0.5})
    obs.tag(cls=case["cls"], op="transform", solver=case["solver"], cplx_input=True)
    obs.cell("cplx_nonexact:" + case["cls"], f"solver:{case['solver']}", f"called:{case['cell']}")
    mon.reset()
    with warnings.catch_warnings():
        warnings.simplefilter("ignore")
        m = xe.single.ComplexEOF(n_modes=k, solver=case["solver"], random_state=int(case["dseed"] % 1000)).fit(X, dim="time")
        if case["cls"] == "ComplexEOFRotator":
            try:
                m = xe.single.ComplexEOFRotator(n_modes=k, max_iter=5000).fit(m)
            except RuntimeError as e:
                if "did not converge" in str(e):
                    obs.refuse(f"fit refused: {e}")
                raise
        ev = mon.drain(obs)
        backends = sorted({e["backend"] for e in ev if e.get("kind") == "backend"})
        obs.note("backends", backends)
        for b in backends:
            obs.cell("cplx_nonexact_backend:" + b)
        for normalized in (False, True):
            S = np.asarray(m.scores(normalized=normalized).transpose("mode", "time").values)
            T = np.asarray(m.transform(X, normalized=normalized).transpose("mode", "time").values)
            obs.close(f"transform_eq_scores[normalized={normalized}]", T, S, 1e-6, scale=float(np.abs(S).max()) or 1.0,
                      tags={"symptom": "transform_ne_scores", "call": "transform", "container": "da1"})
            obs.count("value_comparisons")
    obs.nontrivial = True
    obs.cell(f"compared:{case['cell']}")


def run_case(case, obs):
    if case.get("kind") == "multi_big":
        return _run_multi_big(case, obs)
    if case.get("kind") == "cplx_nonexact":
        return _run_cplx_nonexact(case, obs)
    obs.tag(cls=case["cls"], op="transform")
    etags = {"nan_samples": bool(case["ns_nan"]), "stacked_samples": bool(case["layout"] in cc.STACKED)}  # delimit exceptions
    obs.cell(f"layout:{case['layout']}", f"nan:{case['nan']}", f"cplx_input:{case['cplx']}", "shape:wide" if case["wide"] else "shape:tall")
    obs.cell(f"solver:{case['solver']}")
    for f_ in case["fields"]:
        obs.cell(f"container:{f_['kind']}")
    if case["layout"] in cc.STACKED and case["ns_nan"]:
        obs.cell("stacked_layout+missing_samples")
    if zoo.kind(case["cls"]) in ("single_rot", "cross_rot"):
        obs.cell(f"rot_compute:{cc.rot_compute(case)}")
        obs.tag(rot_compute=cc.rot_compute(case))
    tr = cc.build_training(case)
    fitted = cc.fit_model(case, tr, obs)  # a failing fit of a valid input propagates -> violation by the runner
    lay = tr["lay"]
    sdims, keys, valid = lay["sdims"], lay["keys"], tr["valid"]
    nfld = len(case["fields"])
    tol = cc.TOL if case["solver"] == "full" else cc.TOL_NONEXACT
    is_cross = fitted.kind in ("cross", "cross_rot")
    compared = 0
    obs.cell(f"called:{case['cell']}")
    partial_under = bool(case["dseed"] % 2)  # the single-field call forms run under one of the two normalisations
    for normalized in (None,) if fitted.kind == "multi" else (False, True):
        kw = {} if normalized is None else {"normalized": normalized}
        ctx = {"normalized": normalized}
        if normalized is not None:
            obs.cell(f"normalized:{normalized}")
        S = cc.guarded(obs, "scores", lambda: fitted.scores(**kw), tags=dict(etags, op="scores"), ctx=ctx)
        if S is None:
            continue
        if not obs.check("scores_count", len(S) == nfld, f"{len(S)} score arrays for {nfld} fields", tags={"symptom": "result_count"}):
            continue
        want = []
        for i, s in enumerate(S):
            want.append(cc.lay_on_rows(obs, "scores", s, sdims, keys, valid, {}, ctx=dict(ctx, field=i)))
        calls = [("transform", list(range(nfld)))]
        if is_cross and normalized == partial_under:
            calls += [("transform_X_only", [0]), ("transform_Y_only", [1])]
        if normalized in (None, False):
            # the very same training data, presented with its axes in another order / with one feature axis
            # stored in reverse (labels move with the values): still "the data the model was fitted on"
            calls += [("transform_transposed", list(range(nfld))), ("transform_feature_reversed", list(range(nfld)))]
        for op, which in calls:
            if op in ("transform_transposed", "transform_feature_reversed"):
                obs.cell(f"op:{op}")
                data = [_relayout(f_, op, sdims) for f_ in tr["fields"]]
                if op == "transform_feature_reversed":
                    # reordered feature labels may be refused (the fitted coordinates are compared); if the call
                    # answers, the answer must be the scores
                    try:
                        with warnings.catch_warnings():
                            warnings.simplefilter("ignore")
                            T = fitted.transform(*data, **kw)
                    except Exception as e:  # noqa: BLE001
                        if cc.exception_site(e, cc.REPO) is None:
                            raise
                        obs.cell("feature_reversed:refused")
                        continue
                    obs.cell("feature_reversed:answered")
                else:
                    T = cc.guarded(obs, op, lambda: fitted.transform(*data, **kw), tags=dict(etags, relayout="transposed"), ctx=ctx)
            elif op != "transform":
                obs.cell(f"op:{op}")
                data = [tr["fields"][0] if 0 in which else None, tr["fields"][1] if 1 in which else None]
                T = cc.guarded(obs, op, lambda: fitted.transform(*data, **kw), tags=etags, ctx=ctx)
            else:
                data = list(tr["fields"])
                T = cc.guarded(obs, op, lambda: fitted.transform(*data, **kw), tags=etags, ctx=ctx)
            if T is None:
                continue
            if not obs.check("transform_count", len(T) == len(which), f"{op}: {len(T)} results for {len(which)} fields", tags={"symptom": "result_count"}):
                continue
            for t, i in zip(T, which):
                w, wm = want[i]
                if w is None:
                    continue
                n0 = obs.mon.get("value_comparisons", 0)
                cc.compare(
                    obs, "transform", t, sdims, keys, w, valid, wm, tol, {}, "transform_ne_scores", "sample_labels",
                    ctx=dict(ctx, call=op, field=i, container=case["fields"][i]["kind"]), vtags=dict(cc.field_tags(case, i), call=op, container=case["fields"][i]["kind"]), classify=True,
                )
                if obs.mon.get("value_comparisons", 0) > n0:
                    compared += 1
                    if w.shape[1] >= 2 and int(valid.sum()) >= 3:
                        obs.nontrivial = True
    # hostile histories: (a) every accessor above has been called with both switches -- the plain relation must
    # still hold; (b) the model underneath a rotator is a fitted model too, and fitting the rotator is history
    later = [("after_accessor_history", fitted)]
    if getattr(fitted, "base", None) is not None:
        later.append(("model_under_rotator", fitted.base))
    for label, fobj in later:
        kw = {} if fobj.kind == "multi" else {"normalized": False}
        ctx = {"normalized": kw.get("normalized"), "history": label}
        S = cc.guarded(obs, "scores", lambda: fobj.scores(**kw), tags=dict(etags, op="scores", history=label), ctx=ctx)
        T = cc.guarded(obs, "transform", lambda: fobj.transform(*tr["fields"], **kw), tags=dict(etags, history=label), ctx=ctx)
        if S is None or T is None or len(S) != nfld or len(T) != nfld:
            continue
        obs.cell("history:" + label)
        for i, (s_, t_) in enumerate(zip(S, T)):
            w, wm = cc.lay_on_rows(obs, "scores", s_, sdims, keys, valid, {}, ctx=dict(ctx, field=i))
            if w is None:
                continue
            cc.compare(
                obs, "transform", t_, sdims, keys, w, valid, wm, tol, {}, "transform_ne_scores", "sample_labels",
                ctx=dict(ctx, call=label, field=i, container=case["fields"][i]["kind"]), vtags=dict(cc.field_tags(case, i), call="transform", history=label, container=case["fields"][i]["kind"]), classify=True,
            )
    # (c) a rotator object is re-used: after it has projected data for the first model it is fitted on a SECOND
    # model (same class and parameters, other data of the same structure); transform of that model's training
    # data must again reproduce the rotator's scores (nothing derived from the first fit may survive)
    if getattr(fitted, "base", None) is not None and case["dseed"] % 2 == 0 and case["nan"] == "none":
        kwm, _ = cc.model_kwargs(case)
        other = [zoo.perturbed(f_) for f_ in tr["fields"]]
        ctx = {"normalized": False, "history": "rotator_refitted_on_other_model"}
        htags = dict(etags, history="rotator_refitted_on_other_model")
        try:
            with warnings.catch_warnings():
                warnings.simplefilter("ignore")
                base2 = zoo.fit(case["base"], other, tr["dim"], kwm)
                fitted.model.fit(base2.model)
            refit_ok = True
        except RuntimeError as e:
            refit_ok = False
            if "did not converge" not in str(e):
                raise
            obs.count("refused_rotation_not_converged")
        if refit_ok:
            S = cc.guarded(obs, "scores", lambda: fitted.scores(normalized=False), tags=dict(htags, op="scores"), ctx=ctx)
            T = cc.guarded(obs, "transform", lambda: fitted.transform(*other, normalized=False), tags=htags, ctx=ctx)
            if S is not None and T is not None and len(S) == nfld and len(T) == nfld:
                obs.cell("history:rotator_refitted_on_other_model")
                obs.count("rotator_refits_compared")
                for i, (s_, t_) in enumerate(zip(S, T)):
                    w, wm = cc.lay_on_rows(obs, "scores", s_, sdims, keys, valid, {}, ctx=dict(ctx, field=i))
                    if w is None:
                        continue
                    cc.compare(
                        obs, "transform", t_, sdims, keys, w, valid, wm, tol, {}, "transform_ne_scores", "sample_labels",
                        ctx=dict(ctx, call="rotator_refit", field=i, container=case["fields"][i]["kind"]),
                        vtags=dict(cc.field_tags(case, i), call="transform", history="rotator_refitted_on_other_model", container=case["fields"][i]["kind"]), classify=True,
                    )
    if compared:
        obs.cell(f"compared:{case['cell']}")
    obs.note("compared", compared)


def _relayout(obj, op, sdims):
    """The same data by label: axes in reverse order, or the last feature axis of size > 1 stored in reverse."""
    import xarray as xr

    if isinstance(obj, list):
        return [_relayout(o, op, sdims) for o in obj]
    if op == "transform_transposed":
        if isinstance(obj, xr.Dataset):
            return obj.transpose(*list(obj.dims)[::-1])
        return obj.transpose(*obj.dims[::-1])
    fd = [d for d in obj.dims if d not in sdims and obj.sizes[d] > 1]
    if not fd:
        return obj
    return obj.isel({fd[-1]: slice(None, None, -1)})


def evidence_extra(results, extras):
    called, compared, raised = set(), set(), {}
    for r in results:
        for c in r["cover"]:
            if c.startswith("called:"):
                called.add(c[7:])
            if c.startswith("compared:"):
                compared.add(c[9:])
        for v in r["violations"]:
            if v["tags"].get("symptom") == "exception":
                k = f"{v['tags'].get('exc')}@{v['tags'].get('site')}"
                raised[k] = raised.get(k, 0) + 1
    return {
        "cells_called": len(called),
        "cells_value_compared": len(compared),
        "cells_called_but_never_compared": sorted(called - compared),
        "exceptions_from_xeofs_by_site": raised,
    }
