"""C18 -- POP modes are eigen-pairs of the lag-1 feedback matrix.

Reference-model monitor.  For every generated time series the oracle
preprocesses the raw input itself (centre / std / sqrt(cos lat) / weights), takes
-- when PCA is on -- its *own* top-k right singular subspace (LAPACK SVD), forms
the feedback matrix  A = X1^T X0 (X0^T X0)^-1  in that subspace by a QR/SVD based
least-squares solve (no normal equations) and then checks every public result of
the fitted POP model against it:

* eigen-relation  ||A p - lambda p|| <= tol ||A|| ||p||  per mode, evaluated in the
  oracle's PC coordinates (p_pc = V_o^T p): independent of the basis the code chose
  inside the subspace and of the real scaling components() applies; p must lie in
  the retained subspace;
* the eigenvalue multiset: closed under conjugation (each complex mode has its
  partner, partner has the same coefficient std), sum = trace(A), and equal to the
  oracle's eigvals(A) up to a Bauer-Fike bound;
* damping_times == -1/log|lambda|, periods == 2 pi/arg(lambda) (+-inf where arg = 0);
* std of scores() descending (mode order);
* transform(X_fit) == scores()  (relation between two executions);
* noise-free oscillators x_{t+1} = A x_t with known r exp(+-i omega), center=False:
  recovered (period, damping time) multiset equals the true one to 1e-6.

M-BACK (wrapper on _SVD._svd) records which SVD back-end the PCA step used; it
decides the tolerance class (exact: 1e-9, randomised: 1e-6 on gapped input).
"""
import warnings

import numpy as np

from .. import gen, mon, oracle, xu

LEVEL = "exploration"
RULE = (
    "structured corpus (kind in {var, ar1, white, osc} x use_pca x n_pca_modes type {int, all, float} x flags) + "
    "seeded random draws over n, p, latent dimension, spectral radius, tail-noise level, scale, flags, feature layout; "
    "a case is non-trivial when the retained dimension is >= 2 (A is a genuine matrix); distinct = distinct canonical case record"
)
ASSUMPTIONS = [
    "numpy.linalg.lstsq/svd/eigvals (LAPACK gelsd/gesdd/geev) and the harness's own preprocessing are the trusted reference",
    "the code forms A through inv(X0^T X0): its error is eps*cond(X0)^2, so the eigen-residual tolerance is 1e-9*max(1, cond(X0)^2/1e4); "
    "cases with cond(X0)^2 > 1e10 are skipped as ambiguous (A not determined by the data in double precision)",
    "with PCA the retained subspace is unique only if sigma_k > sigma_{k+1}: relative gap < 1e-6 (exact back-end) or a randomised "
    "back-end whose sketch does not capture the range on a non-gapped spectrum -> ambiguous",
    "noise-free oscillators: tolerance 1e-6*max(1, cond(X0)^2*kappa(eigenvectors)/1e8) (damping times additionally x max(1, 0.1/|log r|)): "
    "the code's normal-equation inverse limits what 'the true ones' can mean in double precision",
    "transform == scores to 1e-9*max(1, c/1e4), c = condition of the per-mode 2x2 system in (Re p, Im p)",
    "period of a negative real eigenvalue is 2*pi/pi = 2 (formula of the statement), infinite only where arg(lambda) = 0",
    "n_modes is ignored by POP (all retained-dimension many modes are returned); recorded, not asserted (not part of the statement)",
]
KINDS = ("var", "ar1", "white", "osc")


def setup(tier):
    mon.install_svd()


def required(tier):
    return {
        "mon": ["backend:svd", "backend:randomized_svd", "history:prior_fit", "deferred_fits_computed"],
        "cover": [f"kind:{k}" for k in KINDS]
        + ["use_pca:True", "use_pca:False", "npca:int", "npca:all", "npca:float", "eig:complex_pair", "eig:neg_real", "eig:pos_real"]
        + ["backend:svd", "backend:randomized_svd", "center:False", "standardize:True", "coslat:True", "weights:True", "osc_pairs:1", "osc_pairs:2", "osc_pairs:3", "history:refit", "history:fresh", "time_labels:decreasing", "time_labels:unordered", "cond2:gt1e10"],
    }


# --------------------------------------------------------------------------
def _draw(rng, kind=None, use_pca=None, npca_type=None):
    kind = kind or str(rng.choice(KINDS, p=[0.4, 0.15, 0.1, 0.35]))
    use_pca = bool(rng.random() < 0.6) if use_pca is None else use_pca
    c = dict(kind=kind, use_pca=use_pca)
    if kind == "osc":
        m = int(rng.integers(1, 4))
        d = 2 * m
        c["pairs"] = m
        c["center"] = False
    else:
        d = int(rng.integers(2, 9))
        c["center"] = bool(rng.random() < 0.8)
    c["d"] = d
    if use_pca:
        npca_type = npca_type or str(rng.choice(["int", "all", "float"], p=[0.6, 0.2, 0.2]))
        if kind == "osc":
            npca_type = npca_type if npca_type in ("int", "all") else "int"
        c["npca_type"] = npca_type
        if npca_type == "all":
            p = d  # everything retained
            c["eta_exp"] = None
        else:
            big = rng.random() < 0.35
            p = int(rng.integers(d + 1, 13)) if not big else int(rng.integers(max(d + 12, 14), 31))
            c["eta_exp"] = float(rng.uniform(-5, -2))  # tail-noise level relative to the signal
            if kind == "osc":
                c["eta_exp"] = None  # exact rank d
        if npca_type == "float":
            c["frac"] = float(rng.choice([0.7, 0.9, 0.99, 0.999, 0.99999]))
            c["irr"] = float(rng.choice([0.5, 1.0]))
    else:
        p = d
        c["npca_type"] = None
        c["eta_exp"] = None
    c["p"] = p
    # n > retained PCs is all the statement asks: n = d + 1 (square X0) is generated on purpose
    lo = d + 3
    c["n"] = int(rng.integers(lo, 61))
    if kind == "osc":
        c["n"] = int(rng.integers(lo, 31))
    u = rng.random()
    if u < 0.16:
        c["n"] = d + 1 + int(u < 0.08)
    # spread of the latent amplitudes: drives cond(X0)^2 (exercises the tolerance model)
    c["spread"] = float(rng.choice([0.3, 0.3, 1.0, 2.0]))
    if kind == "osc" and not use_pca and d >= 4 and rng.random() < 0.35:
        c["spread"] = float(rng.uniform(5.2, 5.8))  # mixed units: cond(X0)^2 around 1e10..1e12
    c.update(
        standardize=bool(rng.random() < 0.25),
        coslat=bool(rng.random() < 0.25),
        weights=bool(rng.random() < 0.3),
        nfd=int(rng.integers(1, 3)),
        scale_exp=int(rng.integers(-3, 4)),
        rho=float(rng.uniform(0.3, 0.95)),
        dseed=int(rng.integers(0, 2**31 - 1)),
        random_state=int(rng.integers(0, 1000)),
        n_modes=int(rng.integers(1, 6)),
    )
    return c


def cases(tier, seed):
    out = []
    i = 0
    for kind in KINDS:
        for use_pca, npt in ((False, None), (True, "int"), (True, "all"), (True, "float")):
            for rep in range(4):
                out.append(_draw(gen.rng_for(1018, i), kind, use_pca, npt))
                i += 1
    nrand = 1800 if tier == "quick" else 60000
    for j in range(nrand):
        out.append(_draw(gen.rng_for(seed, 18, j)))
    return out


# --------------------------------------------------------------------------
def _dynamics(d, rho, rng, n_pairs=None, osc=False):
    """Real d x d matrix S D S^-1 with prescribed eigenvalues; returns (A, eigenvalue list)."""
    if osc:
        m = n_pairs
        # distinct frequencies (>= 0.2 rad apart, away from 0 and pi), moduli in [0.8, 0.98]
        while True:
            om = np.sort(rng.uniform(0.25, 2.8, size=m))
            if m == 1 or np.min(np.diff(om)) >= 0.2:
                break
        r = rng.uniform(0.8, 0.98, size=m)
        n_real = 0
    else:
        m = int(rng.integers(0, d // 2 + 1)) if n_pairs is None else n_pairs
        om = rng.uniform(0.15, 3.0, size=m)
        r = rho * rng.uniform(0.5, 1.0, size=m)
        n_real = d - 2 * m
    D = np.zeros((d, d))
    for j in range(m):
        c, s = r[j] * np.cos(om[j]), r[j] * np.sin(om[j])
        D[2 * j : 2 * j + 2, 2 * j : 2 * j + 2] = [[c, -s], [s, c]]
    real = rho * rng.uniform(-1.0, 1.0, size=n_real)
    for j in range(n_real):
        D[2 * m + j, 2 * m + j] = real[j]
    Q1 = gen.orthonormal(d, d, rng)
    Q2 = gen.orthonormal(d, d, rng)
    S = (Q1 * rng.uniform(0.6, 1.6, size=d)) @ Q2.T
    A = S @ D @ np.linalg.inv(S)
    return A, r, om


def build(case):
    import xarray as xr

    rng = gen.rng_for(case["dseed"], 18)
    n, p, d, kind = case["n"], case["p"], case["d"], case["kind"]
    truth = None
    if kind == "osc":
        A, r, om = _dynamics(d, None, rng, n_pairs=case["pairs"], osc=True)
        Z = np.zeros((n, d))
        Z[0] = rng.standard_normal(d)
        for t in range(1, n):
            Z[t] = A @ Z[t - 1]
        truth = dict(r=r, om=om)
    elif kind == "var":
        A, _, _ = _dynamics(d, case["rho"], rng)
        burn = 30
        Z = np.zeros((n + burn, d))
        e = rng.standard_normal((n + burn, d))
        for t in range(1, n + burn):
            Z[t] = A @ Z[t - 1] + e[t]
        Z = Z[burn:]
    elif kind == "ar1":
        phis = rng.uniform(-0.5, 0.95, size=d)
        Z = gen.ar1(n, d, phis, rng, mix=False)
        Z = Z / Z.std(axis=0)
    else:
        Z = rng.standard_normal((n, d))
    # embed the d latent series into p features with a well-conditioned map
    amp = 10.0 ** (-case["spread"] * rng.random(d))
    B = (gen.orthonormal(d, d, rng) * amp) @ gen.orthonormal(p, d, rng).T
    M = Z @ B
    if case.get("eta_exp") is not None:
        eta = 10.0 ** case["eta_exp"]
        M = M + eta * np.sqrt((M**2).mean()) * rng.standard_normal((n, p)) * (0.6 ** np.arange(p))[rng.permutation(p)]
    scale = 10.0 ** case["scale_exp"]
    if case["dseed"] % 7 == 3:
        scale *= 1e-9  # tiny physical units (mixing ratios in mol/mol): nothing in POP depends on the units
    if kind != "osc":
        M = M + 2.0 * np.sqrt((M**2).mean()) * rng.standard_normal(p)  # offset (removed by centring, kept otherwise)
    M = M * scale
    if case["nfd"] == 2 and p > 1:
        pairs = gen.factor_pairs(p)
        fshape = pairs[int(rng.integers(0, len(pairs)))]
    else:
        fshape = (p,)
    use_lat = case["coslat"] or rng.random() < 0.3
    if len(fshape) == 2:
        fdims = ("lat", "lon") if use_lat else ("x", "y")
    else:
        fdims = ("lat",) if use_lat else ("x",)
    # the rows are the time order; the labels need not increase (e.g. an age axis "years before present")
    tlab = None
    if case["dseed"] % 5 == 1:
        tlab = (np.arange(n)[::-1] * 3 + 7).astype(float)
    elif case["dseed"] % 5 == 2:
        tlab = np.random.default_rng(case["dseed"]).permutation(n) * 2 + 1
    X = xu.make_da(M, fshape, fdims, sample_dim="time", sample_coords=tlab)
    w_cos = None
    if case["coslat"]:
        wl = oracle.coslat_weights(X.coords["lat"].values)
        w_cos = np.repeat(wl, fshape[1]) if len(fshape) == 2 else wl
    W = None
    w_user = None
    if case["weights"]:
        w_user = rng.uniform(0.4, 2.5, size=p)
        W = xr.DataArray(w_user.reshape(fshape), dims=fdims, coords={dd: X.coords[dd] for dd in fdims})
    return dict(M=M, X=X, fdims=fdims, fshape=fshape, w_cos=w_cos, w_user=w_user, W=W, truth=truth)


def feedback(Y):
    """A = Y1^T Y0 (Y0^T Y0)^-1 via least squares (A^T = argmin ||Y0 B - Y1||), plus cond(Y0)^2."""
    Y0, Y1 = Y[:-1], Y[1:]
    Bt, _, rank, sv = np.linalg.lstsq(Y0, Y1, rcond=None)
    cond2 = float((sv[0] / sv[-1]) ** 2) if sv[-1] > 0 else np.inf
    return Bt.T, cond2, int(rank)


def _pair_up(lam, tol):
    """Greedy matching of each complex eigenvalue with a distinct conjugate partner. Returns partner index list or None."""
    k = len(lam)
    partner = [-1] * k
    for i in range(k):
        if abs(lam[i].imag) <= tol or partner[i] >= 0:
            continue
        best, bj = None, -1
        for j in range(k):
            if j == i or partner[j] >= 0 or abs(lam[j].imag) <= tol:
                continue
            dd = abs(lam[j] - np.conj(lam[i]))
            if best is None or dd < best:
                best, bj = dd, j
        if bj < 0 or best > tol:
            return None
        partner[i], partner[bj] = bj, i
    return partner


def run_case(case, obs):
    import xeofs as xe
    from scipy.optimize import linear_sum_assignment

    kind, use_pca = case["kind"], case["use_pca"]
    obs.tag(cls="POP", op="fit", use_pca=use_pca, npca_type=str(case["npca_type"]))
    obs.cell(f"kind:{kind}", f"use_pca:{use_pca}", f"npca:{case['npca_type']}")
    for f in ("center", "standardize", "coslat", "weights"):
        obs.cell(f"{f}:{case[f]}")
    if kind == "osc":
        obs.cell(f"osc_pairs:{case['pairs']}")
    b = build(case)
    obs.cell("time_labels:" + {1: "decreasing", 2: "unordered"}.get(case["dseed"] % 5, "increasing"))
    n, p, d = case["n"], case["p"], case["d"]
    Mp = oracle.preprocess(b["M"], case["center"], case["standardize"], b["w_cos"], b["w_user"])

    kw = dict(
        n_modes=case["n_modes"],
        center=case["center"],
        standardize=case["standardize"],
        use_coslat=case["coslat"],
        use_pca=use_pca,
        random_state=case["random_state"],
    )
    if use_pca:
        t = case["npca_type"]
        if t == "int":
            kw["n_pca_modes"] = d
        elif t == "all":
            kw["n_pca_modes"] = "all"
        else:
            kw["n_pca_modes"] = case["frac"]
            kw["pca_init_rank_reduction"] = case["irr"]
    # every fifth case: fit(compute=False) on the in-memory data, then compute() -- same answers as the ordinary fit
    deferred = case["dseed"] % 5 == 1
    if deferred:
        kw["compute"] = False
    obs.cell("deferred:" + str(deferred))
    obs.tag(deferred=deferred)
    model = xe.single.POP(**kw)
    refit = case["dseed"] % 3 == 0
    obs.tag(history="refit" if refit else "fresh")
    obs.cell("history:" + ("refit" if refit else "fresh"))
    with warnings.catch_warnings():
        warnings.simplefilter("ignore")
        if refit:
            # hostile history: the same object was fitted on other data (time reversed + noise) and read before;
            # nothing of that may survive into the fit that is judged
            Xo = b["X"].copy(data=b["X"].values[::-1] * (1.0 + 0.1 * np.random.default_rng(case["dseed"]).standard_normal(b["X"].shape)))
            try:
                model.fit(Xo, dim="time", weights=b["W"])
                model.eigenvalues()
                model.scores()
                obs.count("history:prior_fit")
            except Exception:  # noqa: BLE001  (the perturbed data may be unusable on its own account)
                model = xe.single.POP(**kw)
                obs.count("history:prior_fit_raised")
        mon.reset()
        model.fit(b["X"], dim="time", weights=b["W"])
        if deferred:
            model.compute()
            obs.count("deferred_fits_computed")
    events = mon.drain(obs)
    backends = [e["backend"] for e in events if e.get("kind") == "backend" and e.get("where") == "_SVD"]
    backend = backends[-1] if backends else None
    obs.check("pca_backend_iff_use_pca", (backend is not None) == use_pca, f"SVD back-ends seen: {backends}")
    obs.tag(backend=str(backend))
    if backend:
        obs.cell("backend:" + backend)

    # ---- public results, read back by label ------------------------------------
    coords = xu.labels(b["X"], ("time",) + tuple(b["fdims"]))
    comps = model.components()
    scores = model.scores()
    modes = comps.mode.values
    k = int(modes.size)
    obs.check("components_dims", set(comps.dims) == set(b["fdims"]) | {"mode"}, f"dims {comps.dims}")
    obs.check("scores_dims", set(scores.dims) == {"time", "mode"}, f"dims {scores.dims}")
    P = xu.feature_matrix(comps.sel(mode=modes), b["fdims"], coords)  # (p, k) complex
    S = xu.sample_matrix(scores.sel(mode=modes), ["time"], coords)  # (n, k)
    lam = np.asarray(model.eigenvalues().sel(mode=modes).values).astype(complex)
    per_raw = np.asarray(model.periods().sel(mode=modes).values)
    dmp_raw = np.asarray(model.damping_times().sel(mode=modes).values)
    obs.check(
        "periods_and_damping_real",
        not (np.iscomplexobj(per_raw) and np.any(per_raw.imag != 0)) and not (np.iscomplexobj(dmp_raw) and np.any(dmp_raw.imag != 0)),
        "periods / damping times are complex numbers",
        tags={"symptom": "damping_formula"},
    )
    per = np.real(per_raw).astype(float)
    dmp = np.real(dmp_raw).astype(float)
    obs.note("n_modes_asked", case["n_modes"])
    obs.note("n_modes_returned", k)
    obs.check(
        "result_sizes_agree",
        P.shape == (p, k) and S.shape == (n, k) and lam.shape == (k,) and per.shape == (k,) and dmp.shape == (k,),
        f"P{P.shape} S{S.shape} lam{lam.shape} per{per.shape} dmp{dmp.shape}",
    )
    obs.check("finite_results", np.isfinite(P).all() and np.isfinite(S).all() and np.isfinite(lam).all(), "non-finite POPs / coefficients / eigenvalues")

    # ---- oracle: retained subspace and feedback matrix ---------------------------
    if use_pca:
        _, sv, Vt = np.linalg.svd(Mp, full_matrices=False)
        if case["npca_type"] == "int":
            kexp = d
        elif case["npca_type"] == "all":
            kexp = min(n, p)
        else:
            kexp = k  # variance-fraction rule is not the subject of C18: the count is taken as observed
            obs.check("float_npca_count_in_range", 1 <= k <= max(1, int(min(n, p) * case["irr"])), f"{k} PCs retained")
        obs.check("n_modes_equals_retained_pcs", k == kexp, f"{k} modes for {kexp} retained PCs", tags={"symptom": "mode_count"})
        if k != kexp or k > len(sv):
            return
        relgap = float((sv[k - 1] - sv[k]) / sv[0]) if k < len(sv) else 1.0
        ratio = float(sv[k] / sv[k - 1]) if k < len(sv) else 0.0
        obs.note("pca_boundary", {"relgap": relgap, "ratio": ratio})
        exact = backend == "svd" or (k + 10) >= min(n, p)  # sketch spans the whole row space -> exact
        if relgap < 1e-6:
            obs.ambiguous("retained PCA subspace not unique (relative gap < 1e-6 at the truncation)")
        if not exact and ratio > 0.05:
            obs.ambiguous("randomised PCA sketch does not capture the range and the spectrum has no gap at the truncation")
        Vo = Vt[:k].T
        base_tol = 1e-9 if exact and relgap >= 1e-3 else 1e-6
        obs.cell("tol:%g" % base_tol)
    else:
        obs.check("n_modes_equals_features", k == p, f"{k} modes for {p} features", tags={"symptom": "mode_count"})
        if k != p:
            return
        Vo = np.eye(p)
        base_tol = 1e-9
    Y = Mp @ Vo
    A, cond2, rank = feedback(Y)
    obs.note("cond2", cond2)
    # noisy data: beyond cond^2 = 1e10 the feedback matrix is not determined by the data in double precision.  A
    # noise-free oscillator determines it exactly; only the computation loses eps*cond^2, which the tolerance
    # model below follows -- kept up to 1e12 (mixed physical units, amplitudes 1e5..1e6 apart)
    cond_limit = 1e12 if kind == "osc" else 1e10
    if cond2 > 1e10:
        obs.cell("cond2:gt1e10")
    if rank < k or not np.isfinite(cond2) or cond2 > cond_limit:
        obs.ambiguous("lag-0 covariance numerically singular: feedback matrix not determined")
    tol = base_tol * max(1.0, cond2 / 1e4)
    obs.nontrivial = bool(k >= 2)
    normA = float(np.linalg.norm(A, 2))

    # the matrix the code analysed (PC coordinates): same Gram matrix as the oracle's projection
    inp = np.asarray(model.data["input_data"].values)
    if inp.shape == (n, k):
        G = Y @ Y.T
        obs.close("input_gram", inp @ inp.T, G, max(base_tol, 1e-9), scale=np.abs(G).max(), tags={"symptom": "reduced_data_differs"})
    else:
        obs.check("input_data_shape", False, f"input_data {inp.shape}, expected {(n, k)}")

    # ---- eigen-relation in the oracle's PC coordinates ---------------------------
    Ppc = Vo.T @ P
    pn = np.linalg.norm(P, axis=0)
    obs.check("components_nonzero", bool(np.all(pn > 0)), "a POP is identically zero")
    pn = np.where(pn > 0, pn, 1.0)
    out = np.linalg.norm(P - Vo @ Ppc, axis=0) / pn
    obs.close("pop_in_retained_subspace", out, np.zeros(k), max(base_tol, 1e-9), scale=1.0, tags={"symptom": "pop_outside_subspace"})
    res = np.linalg.norm(A @ Ppc - Ppc * lam, axis=0) / (normA * pn)
    obs.close("eigen_residual", res, np.zeros(k), tol, scale=1.0, tags={"symptom": "eigen_residual"})
    obs.close("eigenvalue_sum_is_trace", lam.sum(), np.trace(A) + 0j, tol * k, scale=normA, tags={"symptom": "eigenvalue_multiset"})
    lam_o, Vec_o = np.linalg.eig(A)
    kappa = float(np.linalg.cond(Vec_o))
    obs.note("kappa_eigvec", kappa)
    if kappa * tol <= 1e-4:
        cost = np.abs(lam[:, None] - lam_o[None, :])
        ri, ci = linear_sum_assignment(cost)
        obs.close(
            "eigenvalues_match_oracle",
            cost[ri, ci],
            np.zeros(k),
            max(1e-9, 10 * kappa * tol),
            scale=normA,
            tags={"symptom": "eigenvalue_multiset"},
        )
    else:
        obs.cell("eigmatch:skipped_illconditioned")

    # ---- conjugate pairs -----------------------------------------------------------
    lmax = float(np.abs(lam).max())
    ctol = 1e-10 * max(lmax, 1e-300)
    partner = _pair_up(lam, ctol)
    obs.check("conjugate_closed", partner is not None, "a complex eigenvalue has no conjugate partner among the modes", tags={"symptom": "conjugate_pairs"}, lam=lam)
    sd = S.std(axis=0)
    sdmax = float(sd.max()) if sd.size else 0.0
    if partner is not None:
        idx = [i for i in range(k) if partner[i] > i]
        if idx:
            obs.cell("eig:complex_pair")
            a = np.array([sd[i] for i in idx])
            bb = np.array([sd[partner[i]] for i in idx])
            obs.close("pair_equal_coefficient_std", a, bb, 1e-8, scale=sdmax, tags={"symptom": "conjugate_pairs"})
            # partner POPs are complex conjugates of each other up to one complex factor
            for i in idx:
                j = partner[i]
                u, v = Ppc[:, i], np.conj(Ppc[:, j])
                c = np.vdot(u, v) / np.vdot(u, u)
                obs.close("pair_patterns_conjugate", v, c * u, max(1e-6, 1e3 * tol * kappa), scale=np.linalg.norm(v), tags={"symptom": "conjugate_pairs"})
    real_mask = np.abs(lam.imag) <= ctol
    if np.any(real_mask & (lam.real < 0)):
        obs.cell("eig:neg_real")
    if np.any(real_mask & (lam.real > 0)):
        obs.cell("eig:pos_real")

    # ---- damping times and periods (formulas on the reported eigenvalues) -----------
    with np.errstate(divide="ignore", invalid="ignore"):
        dmp_want = -1.0 / np.log(np.abs(lam))
        arg = np.angle(lam)
        per_want = np.where(arg == 0, np.inf, 2 * np.pi / np.where(arg == 0, 1.0, arg))
    fin = np.isfinite(dmp_want)
    obs.check("damping_finite_pattern", bool(np.array_equal(np.isfinite(dmp), fin)), "finite/infinite pattern of damping times", tags={"symptom": "damping_formula"})
    if fin.any():
        obs.close("damping_formula", dmp[fin], dmp_want[fin], 1e-9, scale=np.abs(dmp_want[fin]).max(), tags={"symptom": "damping_formula"})
    inf = ~np.isfinite(per_want)
    obs.check("period_infinite_where_arg0", bool(np.all(np.isinf(per[inf]))) and bool(np.all(np.isfinite(per[~inf]))), "period must be infinite exactly where arg(lambda) = 0", tags={"symptom": "period_formula"}, per=per, lam=lam)
    if (~inf).any() and np.all(np.isfinite(per[~inf])):
        obs.close("period_formula", per[~inf], per_want[~inf], 1e-9, scale=np.abs(per_want[~inf]).max(), tags={"symptom": "period_formula"})

    # ---- order: descending std of the coefficient series ---------------------------
    obs.le("coefficient_std_descending", sd[1:], sd[:-1], slack=1e-9 * max(sdmax, 1e-300), tags={"symptom": "mode_order"})

    # ---- transform(training data) == scores() ---------------------------------------
    with warnings.catch_warnings():
        warnings.simplefilter("ignore")
        Tr = model.transform(b["X"])
    obs.tag(op="transform")
    obs.check("transform_dims", set(Tr.dims) == {"time", "mode"}, f"dims {Tr.dims}")
    Tm = xu.sample_matrix(Tr.sel(mode=modes), ["time"], coords)
    # both executions use the same per-mode 2x2 normal equations in (Re p, Im p); with PCA the pattern makes a round trip
    # V^T(V p) first, so the two results differ by eps * cond of that 2x2 system (large only when Im p is almost parallel to Re p)
    condM = 1.0
    for i in range(k):
        pr, pi = Ppc[:, i].real, Ppc[:, i].imag
        if np.linalg.norm(pi) > 0 and np.linalg.norm(pr) > 0:
            sv2 = np.linalg.svd(np.stack([pr, pi], axis=1), compute_uv=False)
            condM = max(condM, float((sv2[0] / max(sv2[1], 1e-300)) ** 2))
    obs.note("cond_coeff_system", condM)
    if condM > 1e12:
        obs.cell("transform:skipped_illconditioned")
    else:
        obs.close("transform_equals_scores", Tm, S, 1e-9 * max(1.0, condM / 1e4), scale=np.abs(S).max(), tags={"symptom": "transform_ne_scores"})
    obs.tag(op="fit")

    # ---- noise-free oscillator: the true periods and damping times -------------------
    if kind == "osc":
        r, om = b["truth"]["r"], b["truth"]["om"]
        want = sorted([(2 * np.pi / w, -1 / np.log(rr)) for rr, w in zip(r, om)] + [(-2 * np.pi / w, -1 / np.log(rr)) for rr, w in zip(r, om)])
        got = sorted(zip(per.tolist(), dmp.tolist()))
        # error model: the code's A carries eps*cond(X0)^2, its eigenvalues kappa(eigvectors) times that (Bauer-Fike);
        # measured <= 1e-18*cond2*kappa.  d(tau)/tau = d|lambda| / (|lambda| |log|lambda||): up to 50x for |lambda| = 0.98.
        tol_osc = 1e-6 * max(1.0, cond2 * kappa / 1e8)
        tol_dmp = tol_osc * max(1.0, 0.1 / abs(np.log(r.max())))
        if len(got) == len(want) and np.all(np.isfinite(np.array(got))):
            got, want = np.array(got), np.array(want)
            obs.close("oscillator_periods", got[:, 0], want[:, 0], tol_osc, scale=np.abs(want[:, 0]).max(), tags={"symptom": "oscillator_period"})
            obs.close("oscillator_damping", got[:, 1], want[:, 1], tol_dmp, scale=np.abs(want[:, 1]).max(), tags={"symptom": "oscillator_damping"})
            lam_true = np.concatenate([r * np.exp(1j * om), r * np.exp(-1j * om)])
            cost = np.abs(lam[:, None] - lam_true[None, :])
            ri, ci = linear_sum_assignment(cost)
            obs.close("oscillator_eigenvalues", cost[ri, ci], np.zeros(k), tol_osc, scale=1.0, tags={"symptom": "oscillator_eigenvalue"})
        else:
            obs.check("oscillator_mode_count", False, f"{len(got)} finite (period, damping) pairs for {len(want)} true eigenvalues", tags={"symptom": "oscillator_period"})
