"""C07 'bands' family: one field (time, lat, lon) handed over whole, or cut ALONG LATITUDE into two list elements.

The generic corpus of c07.py splits along the variable axis, so every piece keeps the whole latitude grid and all
pieces have comparable magnitudes.  Any per-item normalisation of the preprocessing parameters (weights scaled to
the item's own maximum, a standard-deviation floor relative to the item's own largest std, ...) is invisible there.
Here the pieces do NOT share latitudes (one band never contains the latitude of largest cos-weight) and, under
standardize=True, carry very different units (1e4 vs 1e-4), so such item-relative quantities differ between the two
presentations while the property demands identical spectra, scores and (re-assembled) components.

Relation monitor only (two executions of the real code compared); numpy for the comparisons.
"""
import warnings

import numpy as np

from .. import gen, zoo

CLASSES = ("EOF", "HilbertEOF", "EOFRotator", "MCA", "CCA", "MCARotator")
FLAGS = ((False, True), (True, False), (True, True))  # (standardize, use_coslat)
TOL = 1e-9
K = 3


SDIM_CLASSES = ("EOF", "EOFRotator", "MCA", "CCA")


def cases(tier, seed):
    out = []
    i = 0
    for cls in CLASSES:
        for st, cl in FLAGS:
            for rep in range(1 if tier == "quick" else 4):
                out.append(dict(kind="bands", cls=cls, op="split_lat", container="da", standardize=st, coslat=cl, weights=bool(i % 2),
                                dseed=int(gen.rng_for(7100 + seed * (rep > 0), i).integers(0, 2**31 - 1))))
                i += 1
    # two sample dimensions with entirely missing samples spread unevenly over them, axes exchanged
    for cls in SDIM_CLASSES:
        for rep in range(2 if tier == "quick" else 8):
            out.append(dict(kind="bands", sub="sdims", cls=cls, op="transpose_nan", container="da", standardize=bool(rep % 2), coslat=False,
                            dseed=int(gen.rng_for(7200 + seed * (rep > 1), i).integers(0, 2**31 - 1))))
            i += 1
    return out


def _field(rng, n, nlat, nlon, lat, units, noise=1e-3):
    p = nlat * nlon
    r = min(n - 1, p, 8)
    s = 2.0 ** -np.arange(r) * 10  # gapped: unique modes
    M, _, _ = gen.low_rank(n, p, s, rng, cplx=False, perp_ones=True)
    M = M * np.sqrt(n) + noise * rng.standard_normal((n, p)) + rng.standard_normal(p)
    A = M.reshape(n, nlat, nlon) * units[None, :, None]
    import xarray as xr

    return xr.DataArray(A, dims=("time", "lat", "lon"), coords={"time": np.arange(n) * 2 + 5, "lat": lat, "lon": np.arange(nlon) * 20.0 + 1.0})


def _read(f, fields, sdims=("time",)):
    """(spectra dict, scores list (mode, n), components list of DataArrays or lists)"""
    m = f.model
    sp = {}
    for nm in ("singular_values", "explained_variance", "explained_variance_ratio", "squared_covariance_fraction", "cross_correlation_coefficients"):
        fn = getattr(m, nm, None)
        if callable(fn):
            try:
                sp[nm] = np.asarray(fn().values)
            except Exception:  # noqa: BLE001  (accessor not available for this class)
                pass
    sc = [np.asarray(s.transpose("mode", *sdims).sortby(list(sdims)).values).reshape(s.sizes["mode"], -1) for s in f.scores()]
    comps = f.components()
    return sp, sc, comps


def _assemble(c):
    """components of one field -> ndarray (mode, lat, lon) sorted by lat label"""
    import xarray as xr

    if isinstance(c, (list, tuple)):
        c = xr.concat(list(c), dim="lat")
    c = c.sortby("lat")
    return np.asarray(c.transpose("mode", "lat", "lon").values), np.asarray(c["lat"].values)


def _compare(obs, tg, fj, fs, data_j, data_s, sdims):
    # models that whiten a covariance (CCA: alpha = 0) amplify the round-off of a re-ordered summation by the
    # condition of that covariance: one tolerance class up
    wh = 100.0 if fj.name in ("CCA",) else 1.0
    spj, scj, cj = _read(fj, data_j, sdims)
    sps, scs, cs = _read(fs, data_s, sdims)
    obs.count("relation:compared")
    for nm in spj:
        if nm in sps:
            a, b = spj[nm][:K], sps[nm][:K]
            obs.close(f"spectrum:{nm}", b, a, TOL * wh, scale=float(np.max(np.abs(a))) or 1.0, tags=dict(tg, symptom="spectrum_differs", what=nm))
    a, b = scj[0][:K], scs[0][:K]
    fin = np.isfinite(a) & np.isfinite(b)
    obs.check("scores:nan_pattern", bool(np.array_equal(np.isfinite(a), np.isfinite(b))), "missing-sample pattern of the scores differs", tags=dict(tg, symptom="scores_differ"))
    ph = np.sum(np.where(fin, a * np.conj(b), 0), axis=1)
    ph = ph / np.where(np.abs(ph) > 0, np.abs(ph), 1.0)
    for k, (sj, ss) in enumerate(zip(scj, scs)):
        sj, ss = sj[:K], ss[:K]
        ok = np.isfinite(sj) & np.isfinite(ss)
        obs.close(f"scores:{k}", np.where(ok, ss * ph[:, None], 0), np.where(ok, sj, 0), 1e-7 * wh, scale=float(np.nanmax(np.abs(sj))) or 1.0, tags=dict(tg, symptom="scores_differ"))
    for k, (c1, c2) in enumerate(zip(cj, cs)):
        A, la = _assemble(c1)
        B, lb = _assemble(c2)
        if not obs.check(f"components:{k}:labels", A.shape == B.shape and np.array_equal(la, lb), f"component labels differ: {la} vs {lb}", tags=dict(tg, symptom="labels_differ")):
            continue
        obs.close(f"components:{k}", B[:K] * ph[:, None, None], A[:K], 1e-7 * wh, scale=float(np.max(np.abs(A[:K]))) or 1.0, tags=dict(tg, symptom="components_differ"))


def run_sdims(case, obs):
    """(time, member, lat, lon) with missing (time, member) samples, versus the same array stored as (member, time, ..)"""
    import xarray as xr

    cls = case["cls"]
    st = case["standardize"]
    obs.tag(cls=cls, op="transpose_nan", container="da", names_default=True, standardize=bool(st), coslat=False)
    obs.cell(f"cls:{cls}", "op:transpose_nan", f"sdims_nan:{cls}")
    rng = gen.rng_for(case["dseed"], 72)
    nt, nmem = int(rng.integers(10, 16)), int(rng.integers(3, 5))
    nlat, nlon = int(rng.integers(3, 5)), int(rng.integers(2, 4))
    n = nt * nmem
    lat = np.linspace(-40.0, 60.0, nlat)
    # one member misses a block of time steps, another a single one: the missing samples are not spread evenly
    miss = np.zeros((nt, nmem), dtype=bool)
    miss[: int(rng.integers(3, nt // 2 + 1)), 0] = True
    miss[int(rng.integers(0, nt)), nmem - 1] = True

    def field(nla, nlo, la):
        X = _field(rng, n, nla, nlo, la, np.ones(nla), 0.3 if cls == "CCA" else 1e-3)
        A = X.values.reshape(nt, nmem, nla, nlo) + 3.0 * rng.standard_normal((1, nmem, 1, 1))  # member offsets: the means matter
        A[miss] = np.nan
        return xr.DataArray(A, dims=("time", "member", "lat", "lon"), coords={"time": np.arange(nt) * 2 + 5, "member": [f"m{j}" for j in range(nmem)], "lat": la, "lon": np.arange(nlo) * 20.0 + 1.0})

    two = zoo.kind(cls) in ("cross", "cross_rot")
    X = field(nlat, nlon, lat)
    data_j = [X]
    data_s = [X.transpose("member", "time", "lon", "lat")]
    if two:
        Y = field(3, 2, np.linspace(-30.0, 30.0, 3))
        Y.values[:, :, 0, :] += 2 * np.nan_to_num(X.values[:, :, :1, 0])
        Y.values[miss] = np.nan
        data_j, data_s = [X, Y], [data_s[0], Y.transpose("member", "time", "lat", "lon")]
    base = zoo.SINGLE_ROT.get(cls) or (zoo.CROSS_ROT[cls][0] if cls in zoo.CROSS_ROT else cls)
    kw = zoo.default_kwargs(base, n_modes=K + 1, standardize=st, use_coslat=False)
    if zoo.kind(base) == "cross":
        kw.update(use_pca=False)
    rot_kw = {"n_modes": K, "power": 1, "max_iter": 5000, "rtol": 1e-13}
    dim = ("time", "member")
    with warnings.catch_warnings():
        warnings.simplefilter("ignore")
        fj = zoo.fit(cls, data_j, dim, kw, rot_kw=rot_kw)
        fs = zoo.fit(cls, data_s, dim, kw, rot_kw=rot_kw)
        obs.count("relation:sdims_nan")
        _compare(obs, {"relation": "sample_axes_exchanged_with_missing_samples"}, fj, fs, data_j, data_s, dim)
    obs.nontrivial = True


def run(case, obs):
    if case.get("sub") == "sdims":
        return run_sdims(case, obs)
    cls = case["cls"]
    st, cl = case["standardize"], case["coslat"]
    obs.tag(cls=cls, op="split_lat", container="da", names_default=True, standardize=bool(st), coslat=bool(cl))
    obs.cell(f"cls:{cls}", "op:split_lat", f"bands:{cls}:std{int(st)}cos{int(cl)}")
    rng = gen.rng_for(case["dseed"], 71)
    n = int(rng.integers(30, 50))
    nlat = int(rng.integers(6, 10))
    nlon = int(rng.integers(2, 5))
    noise = 1e-3
    if cls == "CCA":
        # full whitening (alpha = 0) without PCA needs an invertible, well-conditioned covariance: many more samples
        # than features and a noise floor well above round-off (the coupled modes stay separated by the shared signal)
        n, noise = 4 * nlat * nlon + int(rng.integers(0, 10)), 0.3
    cut = int(rng.integers(2, nlat - 1))
    # latitudes strictly on one side of the equator, not sorted towards it: the band [cut:] never holds the latitude
    # of largest weight of the whole field
    lat = np.linspace(8.0, 74.0, nlat) * (1 if rng.random() < 0.5 else -1)
    units = np.ones(nlat)
    if st:
        units[:cut], units[cut:] = 1e4, 1e-4
    two = zoo.kind(cls) in ("cross", "cross_rot")
    X = _field(rng, n, nlat, nlon, lat, units, noise)
    Xs = [X.isel(lat=slice(0, cut)), X.isel(lat=slice(cut, None))]
    data_j, data_s = [X], [Xs]
    if two:
        Y = _field(rng, n, 4, 2, np.linspace(-50.0, 50.0, 4), np.ones(4), noise)
        # Y shares part of X's signal so that the coupled modes are well separated
        Y.values[:, 0, :] += 3 * X.values[:, :1, 0] / units[0]
        Y.values[:, 1, :] += 2 * X.values[:, -1:, 0] / units[-1]
        data_j, data_s = [X, Y], [Xs, Y]
    base = zoo.SINGLE_ROT.get(cls) or (zoo.CROSS_ROT[cls][0] if cls in zoo.CROSS_ROT else cls)
    kw = zoo.default_kwargs(base, n_modes=K + 1, standardize=st, use_coslat=cl)
    if zoo.kind(base) == "cross":
        kw.update(use_pca=False)
    rot_kw = {"n_modes": K, "power": 1, "max_iter": 5000, "rtol": 1e-13}
    # user weights (every second case): labelled (lat, lon) factors; the split presentation gets them split the
    # same way, and a third presentation stores the field north-south reversed while the weights keep their order
    wj = ws = None
    use_w = bool(case.get("weights"))
    if use_w:
        import xarray as xr

        w = xr.DataArray(rng.uniform(0.5, 2.0, size=(nlat, nlon)), dims=("lat", "lon"), coords={"lat": X.lat, "lon": X.lon})
        wsplit = [w.isel(lat=slice(0, cut)), w.isel(lat=slice(cut, None))]
        wj, ws = [w] + ([None] if two else []), [wsplit] + ([None] if two else [])
        obs.cell("bands:weights")
    obs.tag(user_weights=use_w)
    with warnings.catch_warnings():
        warnings.simplefilter("ignore")
        fj = zoo.fit(cls, data_j, "time", kw, rot_kw=rot_kw, weights=wj)
        fs = zoo.fit(cls, data_s, "time", kw, rot_kw=rot_kw, weights=ws)
        obs.count("relation:lat_bands")
        _compare(obs, {"relation": "lat_bands"}, fj, fs, data_j, data_s, ("time",))
        if use_w:
            data_r = [X.isel(lat=slice(None, None, -1))] + data_j[1:]
            fr = zoo.fit(cls, data_r, "time", kw, rot_kw=rot_kw, weights=wj)
            obs.count("relation:reversed_lat_with_weights")
            _compare(obs, {"relation": "reversed_lat_with_weights"}, fj, fr, data_j, data_r, ("time",))
    obs.nontrivial = True
