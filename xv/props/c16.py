"""C16 -- fractional whitening and PCA reduction are exact, invertible changes of basis.

Runtime monitors on the direct Whitener / PCA API (xeofs/preprocessing/whitener.py, pca.py):

* reference model: C = X^H X / N from the raw matrix, C^alpha and C^((alpha-1)/2) through LAPACK eigh
  (independent of xeofs's SVD-based _fractional_matrix_power); leading principal subspace from eigh.
* relations between executions: inverse_transform_data(transform(X)) == X,
  inverse_transform_components(transform_components(P)) == P (projection of P for a truncated PCA),
  transform(S P^H) == S transform_components(P)^H (the pattern map is the map induced by the data map --
  this pins the sign of the exponent, which a pure round trip cannot see).
* M-WHT: icontract post-conditions on Whitener.fit (T, Tinv Hermitian, T.Tinv == I) and PCA.fit (V^H V == I),
  evaluation counters required > 0.
* M-BACK (xv.mon.install_svd) tells which SVD back-end produced V, which decides whether the
  leading-subspace comparison is promised (exact / sketch spans everything / explicit gap).

Normalisation: the whitener forms C with 1/N.  cov(X T) == C^alpha is exact only if the SAME 1/N is used on
both sides (with 1/(N-1) on both sides the two differ by (N/(N-1))^(1-alpha)); this is what is asserted.
"""
import warnings

import numpy as np

from .. import gen, mon, oracle

LEVEL = "exploration"
RULE = (
    "structured corpus (kind x dtype x container x alpha in {0, 0.5, 1, 1-1e-9, 1e-9} x cond in 1..1e6 x n_modes "
    "kind int/float/'all' x back-end route) + seeded random draws over n > p, p 1..30, cond(C) 10^[0,6], alpha "
    "in [0,1], scale 1e-3..1e3, gap position/size, chunking, pattern count; non-trivial: whitener = alpha < 1 "
    "and p >= 2; PCA = p >= 2; distinct = canonical case record"
)
ASSUMPTIONS = [
    "numpy.linalg.eigh of the explicitly formed covariance X^H X / N is the trusted reference for C^alpha and the leading subspace",
    "the statement's 'condition number up to 1e6' is read as that of the covariance matrix the whitener "
    "inverts (singular values of X spread over 1e3): forming C in double precision bounds any algorithm's "
    "error by ~eps*cond(C)^(1-alpha), so cond(C)=1e12 could not meet 1e-6 whatever the code does",
    "covariances are compared with 1/N on both sides (the whitener's own normalisation)",
    "data scale (sqrt of the largest covariance eigenvalue) within 1e-3..1e3; smaller scales hit the absolute "
    "eps cut-off in _fractional_matrix_power and are recorded (kind 'wht_tiny'), not judged",
    "PCA leading-subspace / PC-covariance assertions only where the subspace is determined and promised: exact "
    "back-end with relative gap >= 1e-3 after mode k, randomized_svd whose sketch (k+10) spans all columns, or "
    "an explicit gap (factor <= 0.1) after mode k for any randomised back-end",
    "complex PCA through scipy svds(lobpcg) is generated with sigma_k/sigma_1 >= 0.4 and data scale != 1e0; "
    "scales < 1 are judged with the same tolerance (known scale defect of that back-end: tags backend=svds, scale_exp)",
    "float n_modes / complex data on dask input are refused by xeofs by documented design",
    "dask PCA (svd_compressed, n_power_iter=4, un-normalised 'power' iterator) with 0.9 < log10(sigma_1/sigma_k) < 1.6 "
    "is the transition zone of that back-end's round-off loss and is not generated; larger dynamic ranges are "
    "generated and judged with the common tolerance (known defect: tags backend=svd_compressed, dyn_exp)",
]
TOL_CAP = 1e-6
ALPHAS = (0.0, 0.5, 1.0, 1 - 1e-9, 1e-9, 0.25, 0.9)


# --------------------------------------------------------------------------- M-WHT
_installed = False


def install_wht():
    global _installed
    if _installed or not mon.ACTIVE:
        return
    import icontract
    from xeofs.preprocessing import pca as P
    from xeofs.preprocessing import whitener as W

    def whitener_post(self, X):
        try:
            n, p = X.shape
            if self.is_identity:
                mon._count("post:Whitener.fit:identity")
                if not (np.ndim(self.T.values) == 0 and self.T.values == 1 and self.Tinv.values == 1):
                    mon._fail("Whitener.fit", "alpha=1 whitener does not store the identity", {"symptom": "identity_not_identity"})
                return True
            T = np.asarray(self.T.transpose(self.feature_name, "mode").values)
            Ti = np.asarray(self.Tinv.transpose("mode", self.feature_name).values)
            if not (n > p and np.all(np.isfinite(T)) and np.all(np.isfinite(Ti))) or np.linalg.cond(T) > 1e6:
                mon._count("Whitener.fit:not_applicable")
                return True
            mon._count("post:Whitener.fit")
            sT, sTi = np.abs(T).max(), np.abs(Ti).max()
            e1 = float(np.abs(T - T.conj().T).max() / sT)
            e2 = float(np.abs(Ti - Ti.conj().T).max() / sTi)
            e3 = float(np.abs(T @ Ti - np.eye(p)).max())
            e4 = float(np.abs(Ti @ T - np.eye(p)).max())
            WORST["mon_T_hermitian"] = max(WORST.get("mon_T_hermitian", 0.0), e1 / 1e-9)
            WORST["mon_Tinv_hermitian"] = max(WORST.get("mon_Tinv_hermitian", 0.0), e2 / 1e-7)
            WORST["mon_T_Tinv_identity"] = max(WORST.get("mon_T_Tinv_identity", 0.0), max(e3, e4) / 1e-7)
            if e1 > 1e-9:
                mon._fail("Whitener.fit", f"T not Hermitian (rel dev {e1:.2e})", {"symptom": "T_not_hermitian"}, err=e1)
            if e2 > 1e-7:
                mon._fail("Whitener.fit", f"Tinv not Hermitian (rel dev {e2:.2e})", {"symptom": "Tinv_not_hermitian"}, err=e2)
            if max(e3, e4) > 1e-7:
                mon._fail("Whitener.fit", f"T.Tinv != I (max dev {max(e3, e4):.2e})", {"symptom": "T_Tinv_not_inverse"}, err=max(e3, e4))
        except Exception as e:  # a monitor never breaks what it observes
            mon._count("monitor_error:Whitener.fit")
            mon.event("monitor_error", where="Whitener.fit", err=repr(e))
        return True

    def pca_post(self, X):
        try:
            if not self.use_pca:
                mon._count("post:PCA.fit:identity")
                return True
            V = np.asarray(self.V.transpose(self.feature_name, "mode").values)
            mon._count("post:PCA.fit")
            k = V.shape[1]
            e = float(np.abs(V.conj().T @ V - np.eye(k)).max()) if np.all(np.isfinite(V)) else np.inf
            WORST["mon_V_orthonormal"] = max(WORST.get("mon_V_orthonormal", 0.0), e / 1e-8)
            if e > 1e-8:
                mon._fail("PCA.fit", f"PCA basis not orthonormal (max dev {e:.2e})", {"symptom": "V_not_orthonormal"}, err=e)
        except Exception as e:
            mon._count("monitor_error:PCA.fit")
            mon.event("monitor_error", where="PCA.fit", err=repr(e))
        return True

    W.Whitener.fit = icontract.ensure(whitener_post, error=mon.PostBroken)(W.Whitener.fit)
    P.PCA.fit = icontract.ensure(pca_post, error=mon.PostBroken)(P.PCA.fit)
    _installed = True


WORST = {}


def setup(tier):
    mon.install_svd()
    install_wht()


def required(tier):
    return {
        "mon": ["post:Whitener.fit", "post:Whitener.fit:identity", "post:PCA.fit", "backend:svd", "backend:randomized_svd", "backend:svd_compressed"],
        "cover": [
            "kind:wht", "kind:pca", "kind:wht_tiny", "container:np", "container:dask", "cplx:True", "cplx:False",
            "alpha:0", "alpha:1", "alpha:mid", "nmodes:int", "nmodes:float", "nmodes:all", "pca:use_pca_False",
            "pca_backend:svd", "pca_backend:randomized_svd", "pca_backend:svd_compressed", "pca_backend:svds",
            "pca:subspace_judged", "pca:truncated", "pca:full", "cond:1", "cond:1e6", "history:aged", "history:fresh",
        ],
        "max_refused_share": 0.2,
    }


# --------------------------------------------------------------------------- cases
def _np_draw(rng, pmax=30):
    p = int(rng.integers(1, pmax + 1))
    n = int(rng.integers(p + 1, max(p + 2, min(60, 4 * p + 8)) + 1))
    return n, p


def _wht_case(rng, alpha=None, cplx=None, container=None, cond_exp=None):
    n, p = _np_draw(rng)
    if alpha is None:
        alpha = float(rng.choice(ALPHAS)) if rng.random() < 0.4 else float(rng.random())
    return dict(
        kind="wht",
        n=n,
        p=p,
        alpha=float(alpha),
        cplx=bool(rng.random() < 0.4) if cplx is None else cplx,
        container=container or str(rng.choice(["np", "dask"], p=[0.75, 0.25])),
        cond_exp=float(rng.choice([0.0, 6.0, float(rng.uniform(0, 6))], p=[0.1, 0.15, 0.75])) if cond_exp is None else float(cond_exp),
        scale_exp=int(rng.integers(-3, 4)),
        m=int(rng.integers(1, 5)),
        rowchunk=int(rng.integers(3, 25)),
        dseed=int(rng.integers(0, 2**31 - 1)),
    )


def _pca_case(rng, nm=None, cplx=None, container=None, route=None):
    n, p = _np_draw(rng)
    cplx = bool(rng.random() < 0.35) if cplx is None else cplx
    container = container or str(rng.choice(["np", "dask"], p=[0.75, 0.25]))
    nm = nm or str(rng.choice(["int", "float", "all", "off"], p=[0.5, 0.2, 0.25, 0.05]))
    route = route or ("svds" if (cplx and container == "np" and nm == "int" and rng.random() < 0.25) else "free")
    c = dict(
        kind="pca",
        n=n,
        p=p,
        nm=nm,
        cplx=cplx,
        container=container,
        route=route,
        ku=float(rng.random()),
        gap_exp=float(rng.choice([0.0, 1.0, 2.0, float(rng.uniform(1, 3))])),
        cond_exp=float(rng.choice([0.0, 6.0, float(rng.uniform(0, 6))], p=[0.1, 0.15, 0.75])),
        irr=float(rng.choice([1.0, 0.6])),
        scale_exp=int(rng.integers(-3, 4)),
        eager=bool(rng.random() < 0.7),
        m=int(rng.integers(1, 5)),
        rowchunk=int(rng.integers(3, 25)),
        rs=int(rng.integers(0, 2**31 - 1)),
        dseed=int(rng.integers(0, 2**31 - 1)),
    )
    if cplx and nm == "float":
        c["irr"] = 1.0  # all modes pre-computed -> exact back-end (the svds route is generated separately)
    if route == "svds":
        # few modes of complex data: scipy svds(lobpcg).  keep sigma_k/sigma_1 >= 0.4, avoid the transition scale 1e0
        c.update(n=int(rng.integers(30, 61)), p=int(rng.integers(12, 31)), cplx=True, container="np", nm="int",
                 gap_exp=float(rng.uniform(1, 2)), scale_exp=int(rng.choice([-3, -2, -1, 1, 2, 3])))
    elif cplx and nm == "int" and container == "np":
        c["route"] = "exact"  # ask for > 80 % of the columns so that 'auto' takes the exact branch
    return c


def cases(tier, seed):
    from . import c16_highcond

    out = list(c16_highcond.cases(tier))  # cond(X) = 1e4..1e6: invertibility assertions only
    i = 0

    def r():
        nonlocal i
        i += 1
        return gen.rng_for(1016, i)

    for alpha in ALPHAS:
        for cplx in (False, True):
            for container in ("np", "dask"):
                for cond_exp in (0, 2, 4, 6):
                    out.append(_wht_case(r(), alpha, cplx, container, cond_exp))
    for nm in ("int", "float", "all", "off"):
        for cplx in (False, True):
            for container in ("np", "dask"):
                for _ in range(4):
                    out.append(_pca_case(r(), nm, cplx, container))
    for se in (-3, -2, -1, 1, 2, 3):
        for _ in range(2):
            c = _pca_case(r(), "int", True, "np", "svds")
            c["scale_exp"] = se
            out.append(c)
    for _ in range(4):  # dask, many modes of a matrix with a wide spectrum: svd_compressed's round-off loss
        c = _pca_case(r(), "int", False, "dask")
        c.update(p=max(c["p"], 12), cond_exp=6.0, gap_exp=1.0, ku=0.9)
        c["n"] = max(c["n"], c["p"] + 2)
        out.append(c)
    for se in (-5, -6, -8, -10):
        for alpha in (0.0, 0.5):
            c = _wht_case(r(), alpha, False, "np", 2)
            c.update(kind="wht_tiny", scale_exp=se)
            out.append(c)
    # many features (>= 500): size thresholds inside the matrix-function code
    for j, pbig in enumerate((500, 512) if tier == "quick" else (500, 501, 512, 600, 499, 520)):
        c = _wht_case(r(), (0.0, 0.5)[j % 2 if j >= 2 else 0], False, "np", 1)
        c.update(p=pbig, n=pbig + 30, m=2)
        out.append(c)
    mult = 1 if tier == "quick" else 25
    for j in range(450 * mult):
        out.append(_wht_case(gen.rng_for(seed, 16, 1, j)))
    for j in range(450 * mult):
        out.append(_pca_case(gen.rng_for(seed, 16, 2, j)))
    return out


# --------------------------------------------------------------------------- helpers
def sin_angle(A, B):
    Qa, _ = np.linalg.qr(A)
    Qb, _ = np.linalg.qr(B)
    R = Qb - Qa @ (Qa.conj().T @ Qb)
    return float(np.linalg.norm(R, 2))


def build(case, lam):
    """Centred n x p matrix with X^H X / n == V diag(lam) V^H (lam descending, full column rank)."""
    rng = gen.rng_for(case["dseed"], 161)
    n, p = case["n"], case["p"]
    U = gen.orthonormal(n, p, rng, case["cplx"], perp_ones=True)
    V = gen.orthonormal(p, p, rng, case["cplx"])
    X = np.sqrt(n) * (U * np.sqrt(lam)) @ V.conj().T
    return X, rng


def spectrum(case, k_gap=None):
    """Covariance eigenvalues: geometric from 1 down to 1/cond; optional extra gap after mode k_gap (total cond <= 1e6)."""
    p = case["p"]
    cond = 10.0 ** case["cond_exp"]
    g = 10.0 ** (-2 * case.get("gap_exp", 0.0)) if k_gap and k_gap < p else 1.0  # gap in lambda = (gap in sigma)^2
    if g < 1.0:
        cond = min(cond, 1e6 * g)  # keep the total condition number within the stated range
        cond = max(cond, 1.0)
    lam = cond ** (-np.arange(p) / max(1, p - 1)) if p > 1 else np.ones(1)
    if g < 1.0:
        lam = lam.copy()
        lam[k_gap:] *= g
    return lam * 10.0 ** (2 * case["scale_exp"])


def to_da(A, case, dims=("sample", "feature"), coords=None):
    import xarray as xr

    n, p = A.shape
    if coords is None:
        coords = {dims[0]: np.arange(n) * 2, dims[1]: np.arange(p) * 3 + 1}
    if case["container"] == "dask":
        import dask.array as dsa

        A = dsa.from_array(A, chunks=(int(min(max(2, case["rowchunk"]), n)), -1))
    return xr.DataArray(A, dims=dims, coords=coords)


def vals(da, *dims):
    return np.asarray(da.transpose(*dims).values)


def patterns(case, rng, p, fcoords):
    import xarray as xr

    m = case["m"]
    P = rng.standard_normal((p, m))
    if case["cplx"]:
        P = P + 1j * rng.standard_normal((p, m))
    return P, xr.DataArray(P, dims=("feature", "mode"), coords={"feature": fcoords, "mode": np.arange(1, m + 1)})


def tol_for(cond, alpha):
    return float(min(TOL_CAP, 1e-7 * cond ** (1.0 - alpha)))


def drain(obs, advisory=False):
    ev = mon.drain(obs, advisory=advisory)
    return [e for e in ev if e.get("kind") == "backend"]


# --------------------------------------------------------------------------- whitener
def _aged(obs, case, obj, da, fresh):
    """every third case: the transformer object has been fitted on other data (another covariance) and all of its
    maps have been used before the fit that is judged"""
    if case["dseed"] % 3 != 0:
        obs.cell("history:fresh")
        return obj
    try:
        with warnings.catch_warnings():
            warnings.simplefilter("ignore")
            oth = da.roll(sample=1, roll_coords=False) * 1.3 + 0.2 * da * da
            Yo = obj.fit_transform(oth)
            for nm in ("inverse_transform_data", "inverse_transform_scores", "transform"):
                try:
                    getattr(obj, nm)(Yo if nm != "transform" else oth)
                except Exception:  # noqa: BLE001
                    pass
            P = oth.isel(sample=slice(0, 2)).rename({"sample": "mode"}).assign_coords(mode=[1, 2])
            for nm in ("transform_components", "inverse_transform_components"):
                try:
                    getattr(obj, nm)(P if nm == "transform_components" else getattr(obj, "transform_components")(P))
                except Exception:  # noqa: BLE001
                    pass
        obs.cell("history:aged")
        obs.tag(history="aged")
        return obj
    except Exception:  # noqa: BLE001  (the other data is unusable on its own account)
        obs.count("aging_failed")
        return fresh()


def run_wht(case, obs, judge=True):
    from xeofs.preprocessing.whitener import Whitener

    alpha = case["alpha"]
    n, p = case["n"], case["p"]
    lam = spectrum(case)
    cond = float(lam[0] / lam[-1])
    obs.tag(op="whitener", cls="Whitener", cplx=case["cplx"], container=case["container"], alpha_lt1=bool(1 - alpha >= np.finfo(float).eps))
    obs.cell("alpha:0" if alpha == 0 else "alpha:1" if alpha == 1 else "alpha:mid")
    if case["cond_exp"] == 0:
        obs.cell("cond:1")
    if case["cond_exp"] == 6:
        obs.cell("cond:1e6")
    X, rng = build(case, lam)
    da = to_da(X, case)
    fco = da.coords["feature"].values
    w = Whitener(alpha=alpha)
    w = _aged(obs, case, w, da, lambda: Whitener(alpha=alpha))
    mon.reset()
    with warnings.catch_warnings():
        warnings.simplefilter("ignore")
        Xw_da = w.fit_transform(da)
    ev = drain(obs, advisory=not judge)
    obs.nontrivial = bool(alpha < 1 and p >= 2)
    Xw = vals(Xw_da, "sample", "feature")
    C = X.conj().T @ X / n
    C = (C + C.conj().T) / 2
    tol = tol_for(cond, alpha)
    if not judge:
        # scale below the documented range: record what happens, judge nothing
        Ca = oracle.frac_power_psd(C, alpha) if alpha > 0 else np.eye(p)
        cw = Xw.conj().T @ Xw / n
        obs.note("tiny_scale_cov_error", float(np.abs(cw - Ca).max() / np.abs(Ca).max()))
        obs.note("scale_exp", case["scale_exp"])
        obs.cell("wht_tiny:recorded")
        obs.n_checks += 1
        return
    obs.check("dims_preserved", Xw_da.dims == ("sample", "feature") and Xw.shape == (n, p), f"{Xw_da.dims} {Xw.shape}")
    obs.check("finite", np.isfinite(Xw).all(), "non-finite whitened data")
    if w.is_identity:
        obs.check("alpha1_is_identity_flag", alpha == 1.0 or 1 - alpha < np.finfo(float).eps, f"alpha={alpha!r} treated as identity")
        obs.check("alpha1_unchanged", np.array_equal(Xw, X), "alpha = 1 must leave the data unchanged", tags={"symptom": "alpha1_changes_data"})
    else:
        obs.check("exact_backend_for_power", [e["backend"] for e in ev] == ["svd"], f"fractional power used back-ends {[e['backend'] for e in ev]}")
    # ---- cov(Xw) == C^alpha (1/N on both sides) -----------------------------------------------------
    cw = Xw.conj().T @ Xw / n
    if alpha == 0:
        Ca = np.eye(p)
    elif alpha == 1:
        Ca = C
    else:
        Ca = oracle.frac_power_psd(C, alpha, rcond=0.0)
    obs.close("cov_whitened_eq_C_alpha", cw, Ca, tol, scale=float(np.abs(Ca).max()), tags={"symptom": "cov_ne_C_alpha"})
    # ---- T itself ---------------------------------------------------------------------------------------
    if not w.is_identity:
        T = vals(w.T, "feature", "mode")
        Ti = vals(w.Tinv, "mode", "feature")
        To = oracle.frac_power_psd(C, (alpha - 1) / 2, rcond=0.0)
        obs.close("T_eq_C_half_power", T, To, tol, scale=float(np.abs(To).max()), tags={"symptom": "T_ne_oracle"})
        obs.close("T_hermitian", T, T.conj().T, 1e-9, scale=float(np.abs(T).max()), tags={"symptom": "T_not_hermitian"})
        obs.close("Tinv_hermitian", Ti, Ti.conj().T, tol, scale=float(np.abs(Ti).max()), tags={"symptom": "Tinv_not_hermitian"})
        obs.close("T_Tinv_identity", T @ Ti, np.eye(p), tol, scale=1.0, tags={"symptom": "T_Tinv_not_inverse"})
        obs.check("T_labels", np.array_equal(w.T.coords["feature"].values, fco) and np.array_equal(w.T.coords["mode"].values, fco), "T not labelled by the feature coordinate")
    # ---- data round trip --------------------------------------------------------------------------------
    Xb = vals(w.inverse_transform_data(Xw_da), "sample", "feature")
    obs.close("inverse_transform_data", Xb, X, tol, scale=float(np.abs(X).max()), tags={"symptom": "data_roundtrip"})
    # ---- pattern round trip and consistency with the data map ----------------------------------------
    P, P_da = patterns(case, rng, p, fco)
    Pw_da = w.transform_components(P_da)
    obs.check("components_dims", set(Pw_da.dims) == {"feature", "mode"}, f"{Pw_da.dims}")
    Pw = vals(Pw_da, "feature", "mode")
    Pb = vals(w.inverse_transform_components(Pw_da), "feature", "mode")
    obs.close("components_roundtrip", Pb, P, tol, scale=float(np.abs(P).max()), tags={"symptom": "components_roundtrip"})
    S = rng.standard_normal((6, case["m"]))
    if case["cplx"]:
        S = S + 1j * rng.standard_normal(S.shape)
    D = S @ P.conj().T * np.sqrt(lam[0])  # data composed of the patterns
    D_da = to_da(D, case, coords={"sample": np.arange(6), "feature": fco})
    Dw = vals(w.transform(D_da), "sample", "feature")
    want = S @ Pw.conj().T * np.sqrt(lam[0])
    obs.close("pattern_map_induced_by_data_map", Dw, want, tol, scale=float(np.abs(want).max()), tags={"symptom": "pattern_map_inconsistent"})
    # and for the inverse direction
    Dw_da = to_da(S @ Pw.conj().T, case, coords={"sample": np.arange(6), "feature": fco})
    Db = vals(w.inverse_transform_data(Dw_da), "sample", "feature")
    obs.close("inverse_pattern_map_induced_by_inverse_data_map", Db, S @ Pb.conj().T, tol, scale=float(np.abs(S @ Pb.conj().T).max()), tags={"symptom": "pattern_map_inconsistent"})
    # independent statement of the pattern map: P_w = T^H P with the oracle's T
    if not w.is_identity:
        obs.close("transform_components_vs_oracle", Pw, To.conj().T @ P, tol, scale=float(np.abs(To).max() * np.abs(P).max()), tags={"symptom": "pattern_map_ne_oracle"})
    else:
        obs.check("alpha1_components_unchanged", np.array_equal(Pw, P) and np.array_equal(Pb, P), "alpha = 1 must leave patterns unchanged")


# --------------------------------------------------------------------------- PCA
def run_pca(case, obs):
    from xeofs.preprocessing.pca import PCA

    n, p = case["n"], case["p"]
    nm = case["nm"]
    obs.tag(op="pca", cls="PCA", cplx=case["cplx"], container=case["container"], nmodes=nm)
    # requested number of modes and where the explicit gap goes
    if nm == "all" or nm == "off":
        k_req = p
    elif case["route"] == "exact":
        lo = int(0.8 * p) + 1
        k_req = min(p, lo + int(case["ku"] * (p - lo + 1)))
    elif case["route"] == "svds":
        k_req = 1 + int(case["ku"] * 3)
    else:
        k_req = 1 + int(case["ku"] * p)
        k_req = min(k_req, p)
    if nm == "float":
        kpre = max(1, int(p * case["irr"]))
        k_req = min(k_req, kpre)
    if case["route"] == "svds":
        case = dict(case, cond_exp=min(case["cond_exp"], -2 * np.log10(0.4) * (p - 1) / max(1, k_req - 1)) if k_req > 1 else case["cond_exp"])
    lam = spectrum(case, k_gap=k_req if case["gap_exp"] > 0 else None)
    dyn = 0.5 * float(np.log10(lam[0] / lam[k_req - 1]))  # log10(sigma_1 / sigma_k)
    if case["container"] == "dask" and nm == "int" and 1 < k_req < p and 0.9 < dyn < 1.6:
        # dask svd_compressed(n_power_iter=4, iterator='power') loses the modes with sigma_k/sigma_1 below
        # ~eps^(1/9): 0.9 < log10(sigma_1/sigma_k) < 1.6 is the transition zone (errors 1e-8..1e-5) and is not
        # generated; above it the loss is a known defect (tags backend=svd_compressed, dyn_exp)
        eff = 2 * dyn * (p - 1) / (k_req - 1)
        case = dict(case, cond_exp=eff * 0.9 / dyn)
        lam = spectrum(case, k_gap=k_req if case["gap_exp"] > 0 else None)
        dyn = 0.5 * float(np.log10(lam[0] / lam[k_req - 1]))
    cond = float(lam[0] / lam[-1])
    if case["cond_exp"] == 0:
        obs.cell("cond:1")
    if case["cond_exp"] == 6:
        obs.cell("cond:1e6")
    X, rng = build(case, lam)
    da = to_da(X, case)
    fco = da.coords["feature"].values
    C = X.conj().T @ X / n
    C = (C + C.conj().T) / 2
    ev_, Vo = np.linalg.eigh(C)
    lam_o, Vo = np.clip(ev_[::-1].real, 0, None), Vo[:, ::-1]
    if nm == "int":
        n_modes = int(k_req)
    elif nm == "float":
        cum = np.cumsum(lam_o[:kpre]) / lam_o.sum()
        lo = cum[k_req - 2] if k_req > 1 else 0.0
        n_modes = float(0.5 * (lo + cum[k_req - 1]))
        if not (0 < n_modes <= 1) or min(abs(n_modes - lo), abs(cum[k_req - 1] - n_modes)) < 1e-9:
            obs.ambiguous("fraction cannot be placed strictly between two cumulative values")
    else:
        n_modes = "all"
    obs.cell(f"nmodes:{nm}" if nm != "off" else "pca:use_pca_False")
    kw = dict(n_modes=n_modes, use_pca=nm != "off", compute_eagerly=case["eager"], random_state=case["rs"])
    if nm == "float":
        kw["init_rank_reduction"] = case["irr"]
    pca = PCA(**kw)
    pca = _aged(obs, case, pca, da, lambda: PCA(**kw))
    mon.reset()
    try:
        with warnings.catch_warnings():
            warnings.simplefilter("ignore")
            Y_da = pca.fit_transform(da)
            Y = vals(Y_da, "sample", "feature")
    except ValueError as e:
        drain(obs)
        if case["container"] == "dask" and "not supported with dask" in str(e):
            obs.refuse("float n_modes on dask input is refused by design")
        if any(t in str(e) for t in ("must be an integer satisfying", "k must be", "0 < k < min")):
            obs.refuse("scipy svds refuses k >= min(shape)")
        raise
    except NotImplementedError as e:
        drain(obs)
        if "Complex data together with dask" in str(e):
            obs.refuse("complex + dask is refused by design")
        raise
    ev = drain(obs)
    obs.nontrivial = p >= 2
    P, P_da = patterns(case, rng, p, fco)
    if nm == "off":
        obs.check("identity_transform", np.array_equal(Y, X), "use_pca=False must be the identity")
        obs.check("identity_inverse", np.array_equal(vals(pca.inverse_transform_data(Y_da), "sample", "feature"), X))
        Pt = pca.transform_components(P_da)
        obs.check("identity_components", np.array_equal(vals(Pt, "feature", "mode"), P) and np.array_equal(vals(pca.inverse_transform_components(Pt), "feature", "mode"), P))
        return
    backend = ev[-1]["backend"] if ev else None
    obs.check("one_backend_call", len(ev) == 1, f"PCA.fit triggered {[e['backend'] for e in ev]}")
    obs.cell(f"pca_backend:{backend}")
    obs.tag(backend=backend, scale_exp=case["scale_exp"], dyn_exp=round(dyn, 3))
    V = vals(pca.V, "feature", "mode")
    k = V.shape[1]
    obs.note("k", k)
    obs.cell("pca:full" if k == p else "pca:truncated")
    if nm == "int":
        obs.check("n_modes_int_respected", k == n_modes, f"asked {n_modes}, got {k}")
    elif nm == "all":
        obs.check("n_modes_all_respected", k == p, f"'all' gave {k} of {p}")
    else:
        obs.check("n_modes_float_in_range", 1 <= k <= kpre, f"float gave {k}, pre-computed {kpre}")
    obs.check("V_labels", np.array_equal(pca.V.coords["feature"].values, fco) and np.array_equal(pca.V.coords["mode"].values, np.arange(1, k + 1)), "V coordinates")
    exact = backend == "svd"
    sfx = ""
    if backend == "svds":
        sfx = "_svds_smallscale" if case["scale_exp"] < 0 else "_svds"
    if backend == "svd_compressed" and dyn > 1.5:
        sfx = "_dask_lowmodes"
    t_exact = 1e-9
    t_sub = 1e-6
    obs.close("V_orthonormal" + sfx, V.conj().T @ V, np.eye(k), 1e-8, scale=1.0, tags={"symptom": "V_not_orthonormal"})
    # ---- relations that hold for whatever orthonormal V the code chose ------------------------------
    sX = float(np.abs(X).max())
    obs.check("transform_dims", Y_da.dims == ("sample", "feature") and Y.shape == (n, k), f"{Y_da.dims} {Y.shape}")
    obs.close("transform_is_XV", Y, X @ V, t_exact, scale=sX, tags={"symptom": "transform_ne_XV"})
    Xb = vals(pca.inverse_transform_data(Y_da), "sample", "feature")
    PV = V @ V.conj().T
    obs.close("inverse_data_is_projection", Xb, X @ PV, t_exact, scale=sX, tags={"symptom": "data_roundtrip"})
    Pt_da = pca.transform_components(P_da)
    obs.check("components_dims", set(Pt_da.dims) == {"feature", "mode"} and Pt_da.sizes["feature"] == k, f"{Pt_da.dims} {dict(Pt_da.sizes)}")
    Pt = vals(Pt_da, "feature", "mode")
    Pb = vals(pca.inverse_transform_components(Pt_da), "feature", "mode")
    sP = float(np.abs(P).max())
    obs.close("components_roundtrip_is_projection", Pb, PV @ P, t_exact, scale=sP, tags={"symptom": "components_roundtrip"})
    # patterns inside the retained subspace come back unchanged
    B = rng.standard_normal((k, case["m"])) + (1j * rng.standard_normal((k, case["m"])) if case["cplx"] else 0)
    Pin = V @ B
    import xarray as xr

    Pin_da = xr.DataArray(Pin, dims=("feature", "mode"), coords={"feature": fco, "mode": np.arange(1, case["m"] + 1)})
    Pin_b = vals(pca.inverse_transform_components(pca.transform_components(Pin_da)), "feature", "mode")
    obs.close("components_roundtrip_in_subspace", Pin_b, Pin, t_exact, scale=float(np.abs(Pin).max()), tags={"symptom": "components_roundtrip"})
    # the pattern map is the one induced by the data map
    S = rng.standard_normal((6, case["m"])) + (1j * rng.standard_normal((6, case["m"])) if case["cplx"] else 0)
    D = S @ P.conj().T * np.sqrt(lam[0])
    Dt = vals(pca.transform(to_da(D, case, coords={"sample": np.arange(6), "feature": fco})), "sample", "feature")
    want = S @ Pt.conj().T * np.sqrt(lam[0])
    obs.close("pattern_map_induced_by_data_map", Dt, want, t_exact, scale=max(float(np.abs(want).max()), 1e-300), tags={"symptom": "pattern_map_inconsistent"})
    Dq = S @ Pt.conj().T
    Dq_da = xr.DataArray(Dq, dims=("sample", "feature"), coords={"sample": np.arange(6), "feature": Y_da.coords["feature"].values})
    Db = vals(pca.inverse_transform_data(Dq_da), "sample", "feature")
    obs.close("inverse_pattern_map_induced_by_inverse_data_map", Db, S @ Pb.conj().T, t_exact, scale=max(float(np.abs(S @ Pb.conj().T).max()), 1e-300), tags={"symptom": "pattern_map_inconsistent"})
    if k == p:
        # complete basis: everything comes back
        obs.close("full_basis_data_roundtrip", Xb, X, t_exact, scale=sX, tags={"symptom": "data_roundtrip"})
        obs.close("full_basis_components_roundtrip", Pb, P, t_exact, scale=sP, tags={"symptom": "components_roundtrip"})
        return
    # ---- leading principal subspace (independent oracle), where it is determined and promised ---------
    sig = np.sqrt(lam_o)
    relgap = float((sig[k - 1] - sig[k]) / sig[0])
    explicit_gap = case["gap_exp"] > 0 and k == k_req
    if exact:
        judged = relgap >= 1e-3
    elif backend == "randomized_svd":
        judged = (k + 10 >= p and relgap >= 1e-3) or explicit_gap
    else:
        judged = explicit_gap
    if not judged:
        obs.cell("pca:subspace_not_promised")
        return
    obs.cell("pca:subspace_judged")
    tg = {"symptom": "not_leading_subspace", "check": "leading_subspace"}
    obs.close("leading_subspace_angle" + sfx, sin_angle(V, Vo[:, :k]), 0.0, t_sub, scale=1.0, tags=tg)
    cY = Y.conj().T @ Y / n
    obs.close("pc_covariance_is_leading_eigs" + sfx, cY, np.diag(lam_o[:k]), t_sub, scale=float(lam_o[0]), tags=tg)
    Po = Vo[:, :k] @ Vo[:, :k].conj().T
    obs.close("data_roundtrip_is_leading_projection" + sfx, Xb, X @ Po, t_sub, scale=sX, tags=tg)
    Pin_o = Vo[:, :k] @ B
    Pin_o_da = xr.DataArray(Pin_o, dims=("feature", "mode"), coords={"feature": fco, "mode": np.arange(1, case["m"] + 1)})
    back = vals(pca.inverse_transform_components(pca.transform_components(Pin_o_da)), "feature", "mode")
    obs.close("retained_patterns_unchanged" + sfx, back, Pin_o, t_sub, scale=float(np.abs(Pin_o).max()), tags=tg)


def run_case(case, obs):
    obs.cell(f"kind:{case['kind']}", f"container:{case['container']}", f"cplx:{case['cplx']}")
    try:
        if case["kind"] == "highcond":
            from . import c16_highcond

            c16_highcond.run_case(case, obs)
        elif case["kind"] == "wht":
            run_wht(case, obs)
        elif case["kind"] == "wht_tiny":
            run_wht(case, obs, judge=False)
        else:
            run_pca(case, obs)
    finally:
        mon.drain(obs, advisory=case["kind"] == "wht_tiny")
        for k_, v in WORST.items():
            if v <= 1.0 and v > obs.worst.get(k_, 0.0):
                obs.worst[k_] = v
        WORST.clear()
        # head-room statistics of the regimes where a back-end is known to break (judged all the same) are kept
        # apart, so that the runner's "worst err/tol" shows the regimes in which the property is expected to hold
        for k_ in [k_ for k_ in obs.worst if k_.endswith(("_smallscale", "_dask_lowmodes"))]:
            obs.info.setdefault("defect_regime_worst", {})[k_] = obs.worst.pop(k_)


def evidence_extra(results, extras):
    out = {"refusal_reasons": {}, "tiny_scale_recorded_not_judged": [], "defect_regime_worst": {}}
    for r in results:
        if r["status"] == "refused":
            out["refusal_reasons"][str(r["reason"])] = out["refusal_reasons"].get(str(r["reason"]), 0) + 1
        info = r.get("info") or {}
        if "tiny_scale_cov_error" in info:
            out["tiny_scale_recorded_not_judged"].append(
                {"scale_exp": info.get("scale_exp"), "alpha": r["case"].get("alpha"), "cov_rel_error": info["tiny_scale_cov_error"]}
            )
        for k, v in (info.get("defect_regime_worst") or {}).items():
            out["defect_regime_worst"][k] = max(out["defect_regime_worst"].get(k, 0.0), v)
    return out
