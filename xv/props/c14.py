"""C14 -- a model's answers depend only on its last fit, never on call history.

History checker against a sequential specification:

    answers(obj) == Q(fresh model of the same class and parameters, fitted on
                      the arguments of obj's most recent successful fit)

Many short random histories over {fit(D_i), transform(D_j), inverse_transform,
components, scores, metrics, compute, serialize, rotator.fit(model),
bootstrapper.fit(model), a fit that legitimately raises} are applied to ONE
object; after EVERY operation Q(obj) is compared with the memoised reference
(1e-10, dims and coordinate labels included).  M-IMM: the user's input objects
are deep-copied before every call and must be `identical` afterwards.  After
rotator.fit(model)/bootstrapper.fit(model) the model must still serialize,
deserialize and compute.  After a fit that raised, nothing is asserted until the
next successful fit (the statement speaks about the most recent fit).
"""
import copy
import warnings

import numpy as np

from .. import failpoint, gen, xu, zoo

LEVEL = "exploration"
RULE = (
    "random operation histories (quick: length <= 8, thorough: <= 20) over a pool of 4 data sets of equal and "
    "different structure per model class; the structured part contains, for every class, the histories "
    "fit(Da);fit(Db) for every ordered pair of pool members; non-trivial = the history contains at least two "
    "successful fits or a rotator/bootstrapper fit on the model; distinct = distinct canonical case record"
)
ASSUMPTIONS = [
    "solver='full' and fixed random_state make a refit on equal data reproduce bit-compatible results (checked: fresh-vs-fresh agreement is asserted too)",
    "answers Q = public components()/scores(), every result-container entry except the stored input, transform(last fit data), inverse_transform(scores)",
]

SINGLE = ("EOF", "ComplexEOF", "HilbertEOF", "ExtendedEOF", "OPA", "POP", "SparsePCA")
CROSSC = ("MCA", "CCA", "CPCCA", "ComplexMCA")
ROT = ("EOFRotator", "MCARotator", "CPCCARotator")
MULTI = ("multi.CCA",)
CLASSES = SINGLE + CROSSC + ROT + MULTI
OPS = ("fit", "fit", "fit", "transform", "inverse", "query", "compute", "serialize", "rotate", "bootstrap", "badfit", "transform_other", "intfit", "inttrans", "nocoordfit")


def required(tier):
    return {
        "mon": ["answers_compared", "inputs_immutability_checked", "refits", "failpoint:injected", "failpoint:refit_after_fault", "failpoint:injected_in_transform", "bootstrapper_refits", "nocoord_fits"],
        "cover": [f"cls:{c}" for c in CLASSES] + ["cfg:raw_weights", "op:rotate", "op:bootstrap", "op:badfit", "op:serialize", "op:compute", "op:transform_other", "op:intfit", "op:inttrans"],
    }


def cases(tier, seed):
    out = []
    i = 0
    for cls in CLASSES:
        for a in range(4):
            for b in range(4):
                out.append(dict(cls=cls, ops=[["fit", a], ["fit", b]], dseed=100 + (i % 3)))
                i += 1
        out.append(dict(cls=cls, ops=[["fit", 0], ["rotate", 0], ["bootstrap", 0], ["serialize", 0], ["compute", 0], ["fit", 1]], dseed=7))
        out.append(dict(cls=cls, ops=[["fit", 2], ["transform_other", 1], ["badfit", 0], ["fit", 0], ["transform", 0], ["inverse", 0]], dseed=8))
        out.append(dict(cls=cls, ops=[["fit", 0], ["transform_other", 1], ["query", 0], ["fit", 1], ["transform_other", 0], ["inverse", 0]], dseed=9))  # dseed % 3 == 0: MultiIndex samples
        if cls == "EOF":
            out.append(dict(cls=cls, ops=[["fit", 0], ["bootstrap", 0], ["bootstrap", 0], ["fit", 1], ["bootstrap", 0]], dseed=10))
        # configuration in which the preprocessing chain starts with the user's own object
        # (no centring / standardising copy in front of the weights): the hostile case for input immutability
        out.append(dict(cls=cls, cfg="raw_weights", ops=[["fit", 0], ["transform", 0], ["fit", 1], ["fit", 3], ["transform", 3]], dseed=9))
        # crash points: a fit interrupted at a chosen statement inside the package (an exception raised there by a
        # source-free failpoint), followed by a successful fit on the same object
        nfp = 12 if tier == "quick" else 60
        for q in range(nfp):
            frac = (q + 0.5) / nfp
            # the data of the interrupted fit always differs in shape from the data of the fit that follows
            if q % 3 == 0:
                ops = [["intfit", 2, frac], ["fit", 0], ["transform", 0]]
            elif q % 3 == 1:
                ops = [["fit", 0], ["intfit", 2, frac], ["fit", 1], ["inverse", 0]]
            else:
                ops = [["fit", 2], ["intfit", 3, frac], ["fit", 0], ["query", 0]]
            out.append(dict(cls=cls, ops=ops, dseed=20 + q % 5, cfg="raw_weights" if q % 4 == 3 else "default"))
            if q % 2 == 0:
                out.append(dict(cls=cls, ops=[["fit", 0], ["inttrans", 1, frac], ["query", 0], ["inttrans", 0, 1 - frac], ["inverse", 0]], dseed=30 + q % 5))
    nrand = 120 if tier == "quick" else 3000
    maxlen = 8 if tier == "quick" else 20
    for j in range(nrand):
        rng = gen.rng_for(seed, 14, j)
        cls = str(rng.choice(CLASSES))
        L = int(rng.integers(3, maxlen + 1))
        ops = [["fit", int(rng.integers(0, 4))]]
        for _ in range(L - 1):
            ops.append([str(rng.choice(OPS)), int(rng.integers(0, 4))])
            if ops[-1][0] in ("intfit", "inttrans"):
                ops[-1].append(float(np.round(rng.random(), 4)))
        out.append(dict(cls=cls, ops=ops, dseed=int(rng.integers(0, 1000)), cfg=str(rng.choice(["default", "default", "raw_weights"]))))
    return out


# -------------------------------------------------------------------------------------------
def _pool(case, cplx, cross, nviews=1):
    """4 data sets: 0 and 1 share the structure (other values / sample labels), 2 has another shape and
    feature-dim layout, 3 is another container kind (Dataset for single-set, list for cross-set)."""
    import xarray as xr

    rng = gen.rng_for(case["dseed"], 141)

    def field(n, fshape, fdims, t0=0, seedk=0):
        p = int(np.prod(fshape))
        r = min(n - 2, p)
        M, _, _ = gen.low_rank(n, p, 0.6 ** np.arange(r), rng, cplx=cplx)
        M = M + rng.standard_normal(p)
        return xu.make_da(M, fshape, fdims, sample_coords=np.arange(t0, t0 + n))

    mi_samples = bool(case["dseed"] % 3 == 0) and not nviews > 1

    def with_mi(d, t0):
        """pool members 0 and 1 with the sample dimension indexed by a (year, month) MultiIndex (every third case)"""
        import pandas as pd

        mi = pd.MultiIndex.from_product([np.arange(2000 + t0, 2000 + t0 + d.sizes["time"] // 3), [1, 2, 3]], names=("year", "month"))
        return d.drop_vars("time").assign_coords(xr.Coordinates.from_pandas_multiindex(mi, "time"))

    pool = []
    for idx in range(4):
        views = []
        for v in range(max(2 if cross else 1, nviews)):
            if idx == 0:
                d = field(18, (2, 3) if v == 0 else (4,), ("lat", "lon") if v == 0 else ("x",), 0)
            elif idx == 1:
                d = field(18, (2, 3) if v == 0 else (4,), ("lat", "lon") if v == 0 else ("x",), 100)
            elif idx == 2:
                d = field(14, (5,) if v == 0 else (3, 2), ("x",) if v == 0 else ("a", "b"), 50)
            else:
                a = field(16, (3,), ("u",), 10)
                b = field(16, (2, 2), ("lat", "lon"), 10)
                d = xr.Dataset({"va": a, "vb": b}) if (v == 0 and not cplx) else [a, b]
            if mi_samples and idx in (0, 1):
                d = with_mi(d, 0 if idx == 0 else 100)
            views.append(d)
        pool.append(views)
    return pool


def _bad(data):
    """A copy with one isolated NaN: fit must raise."""
    import xarray as xr

    out = []
    for d in data:
        d2 = copy.deepcopy(d)
        tgt = d2[0] if isinstance(d2, list) else d2
        if isinstance(tgt, xr.Dataset):
            tgt = tgt[list(tgt.data_vars)[0]]
        tgt.values[(1,) * tgt.ndim] = np.nan
        out.append(d2)
    return out


def _nocoords(data):
    """A copy in which one feature dimension of every field has no coordinate variable (legal xarray, unusual):
    whatever fit does with it, the caller's object must stay as it is."""

    def one(o):
        if isinstance(o, list):
            return [one(x) for x in o]
        d = [x for x in o.dims if x != "time"][-1]
        return o.drop_vars(d) if d in o.coords else o

    return [one(copy.deepcopy(d)) for d in data]


def _identical(a, b):
    import xarray as xr

    if isinstance(a, (list, tuple)):
        return len(a) == len(b) and all(_identical(x, y) for x, y in zip(a, b))
    if isinstance(a, (xr.DataArray, xr.Dataset)):
        return a.identical(b)
    return True


def _params(cls, cfg="default"):
    base = {"EOFRotator": "EOF", "MCARotator": "MCA", "CPCCARotator": "CPCCA"}.get(cls, cls)
    kw = zoo.default_kwargs(base, n_modes=3 if cls in ROT else 2)
    if cfg == "raw_weights" and base in SINGLE:
        kw.update(center=False)
    if base == "OPA":
        kw.update(tau_max=2, n_pca_modes=3)
    if base in CROSSC:
        kw.update(use_pca=True, n_pca_modes="all")
    return base, kw


def _weights_for(data, cfg, base):
    """Positive user weights with the structure of every field (None unless the configuration asks for them)."""
    import xarray as xr

    if cfg != "raw_weights" or base == "multi.CCA":
        return None

    def one(d, k):
        if isinstance(d, list):
            return [one(x, k + i) for i, x in enumerate(d)]
        if isinstance(d, xr.Dataset):
            return xr.Dataset({v: one(d[v], k + i) for i, v in enumerate(d.data_vars)})
        w = xr.ones_like(d.isel(time=0, drop=True).real.astype(float))
        ramp = 0.5 + (np.arange(w.size).reshape(w.shape) % 5) * 0.4 + 0.1 * k
        return w * ramp

    return [one(d, i) for i, d in enumerate(data)]


def _rot_kw(case_or_seed):
    """Rotators rotate three modes; every second history uses Promax (power 2), which permutes the variance order
    more often -- a rotator that is fitted again must re-sort."""
    seed = case_or_seed if isinstance(case_or_seed, int) else int(case_or_seed.get("dseed", 0))
    return {"n_modes": 3, "power": 1 + seed % 2}


def _fit_fresh(cls, data, cfg="default", rot_kw=None):
    base, kw = _params(cls, cfg)
    w = _weights_for(data, cfg, base)
    if cls in ROT:
        return zoo.fit(cls, copy.deepcopy(data), "time", kw, rot_kw=rot_kw or {"n_modes": 3, "power": 1}, weights=copy.deepcopy(w))
    return zoo.fit(base, copy.deepcopy(data), "time", kw, weights=copy.deepcopy(w))


_NOT_ACCESSORS = {
    "fit", "transform", "inverse_transform", "compute", "serialize", "deserialize", "save", "load", "get_params",
    "get_serialization_attrs", "fit_transform", "predict", "components", "scores", "check_needed_module",
    "get_metadata_routing", "set_fit_request", "set_transform_request", "set_params",
}  # fmt: skip


def _accessors(m):
    """every public method of the model that can be called without arguments (explained_variance_ratio,
    components_amplitude, homogeneous_patterns, correlation_coefficients_X, decorrelation_time, periods, ...),
    found by introspection: derived quantities are where a forgotten cache would live"""
    import inspect

    out = []
    for k, v in inspect.getmembers(type(m), predicate=inspect.isfunction):
        if k.startswith("_") or k in _NOT_ACCESSORS:
            continue
        ps = list(inspect.signature(v).parameters.values())[1:]
        if any(p.default is inspect._empty and p.kind not in (p.VAR_KEYWORD, p.VAR_POSITIONAL) for p in ps):
            continue
        out.append(k)
    return sorted(out)


def _Q(f, data, with_transform=True):
    """Answers of a fitted facade -> {name: DataArray/np}"""
    out = {}
    m = f.model
    for acc in _accessors(m):
        try:
            r = getattr(m, acc)()
            out[f"acc:{acc}"] = list(r) if isinstance(r, tuple) else r
        except Exception as e:  # an answer too: fresh and aged object must agree
            out[f"acc:{acc}"] = "raises " + type(e).__name__
    for i, c in enumerate(f.components()):
        out[f"components[{i}]"] = c
    sc = f.scores()
    for i, s in enumerate(sc):
        out[f"scores[{i}]"] = s
    for k, v in m.data.items() if hasattr(m, "data") and isinstance(getattr(m, "data"), dict) else []:
        if not k.startswith("input_data"):
            out[f"data[{k}]"] = v
    name = f.name
    if with_transform and name in zoo.HAS_TRANSFORM and name != "multi.CCA":
        try:
            tr = f.transform(*data)
            for i, t in enumerate(tr):
                out[f"transform[{i}]"] = t
        except Exception as e:  # compared as an answer too: fresh and aged object must agree
            out["transform_exc"] = type(e).__name__
    if name in zoo.HAS_INVERSE:
        try:
            inv = f.inverse_transform(*sc)
            for i, t in enumerate(inv):
                out[f"inverse[{i}]"] = t
        except Exception as e:
            out["inverse_exc"] = type(e).__name__
    return out


def _cmp(obs, label, got, ref, tags):
    import xarray as xr

    obs.count("answers_compared")
    keys = sorted(set(got) | set(ref))
    for k in keys:
        t = dict(tags, answer=k.split("[")[0], symptom="answer_differs_from_fresh_fit")
        if k not in got or k not in ref:
            obs.check(f"{label}:{k}:present", False, f"answer '{k}' present in only one of aged/fresh", tags=t)
            continue
        g, r = got[k], ref[k]
        if isinstance(r, str) or isinstance(g, str):
            obs.check(f"{label}:{k}", g == r, f"{g!r} vs {r!r}", tags=t)
            continue
        _cmp_obj(obs, f"{label}:{k}", g, r, t)


def _cmp_obj(obs, name, g, r, t):
    import xarray as xr

    if isinstance(r, (list, tuple)):
        if not isinstance(g, (list, tuple)) or len(g) != len(r):
            obs.check(name, False, "container kind/length differs", tags=t)
            return
        for i, (a, b) in enumerate(zip(g, r)):
            _cmp_obj(obs, f"{name}[{i}]", a, b, t)
        return
    if isinstance(r, xr.Dataset):
        if not isinstance(g, xr.Dataset) or set(g.data_vars) != set(r.data_vars):
            obs.check(name, False, "dataset variables differ", tags=t)
            return
        for v in r.data_vars:
            _cmp_obj(obs, f"{name}.{v}", g[v], r[v], t)
        return
    if set(g.dims) != set(r.dims):
        obs.check(name, False, f"dims {g.dims} vs {r.dims}", tags=dict(t, symptom="labels_differ"))
        return
    g = g.transpose(*r.dims)
    if g.shape != r.shape:
        obs.check(name, False, f"shape {g.shape} vs {r.shape}", tags=dict(t, symptom="labels_differ"))
        return
    for d in r.dims:
        if d in r.coords:
            same = d in g.coords and np.array_equal(np.asarray(g.coords[d].values).astype(object), np.asarray(r.coords[d].values).astype(object))
            if not same:
                obs.check(name, False, f"coordinate labels of '{d}' differ", tags=dict(t, symptom="labels_differ"))
                return
    a = np.asarray(g.values)
    b = np.asarray(r.values)
    if a.dtype.kind in "fc" or b.dtype.kind in "fc":
        scale = float(np.nanmax(np.abs(b))) if b.size and np.isfinite(b).any() else 1.0
        obs.close(name, a, b, 1e-10, scale=max(scale, 1e-300), tags=t)
    else:
        obs.check(name, np.array_equal(a, b), tags=t)


def run_case(case, obs):
    cls = case["cls"]
    obs.tag(cls=cls)
    obs.cell(f"cls:{cls}")
    cfg = case.get("cfg", "default")
    obs.cell(f"cfg:{cfg}")
    base, kw = _params(cls, cfg)
    cplx = base in zoo.COMPLEX_INPUT_OK
    cross = base in CROSSC
    pool = _pool(case, cplx, cross, nviews=3 if cls == "multi.CCA" else 1)
    if cls == "multi.CCA":
        pool = [[v for v in views] for views in pool]
    ref_cache = {}

    def ref_for(i):
        if i not in ref_cache:
            try:
                f = _fit_fresh(cls, pool[i], cfg, _rot_kw(case))
            except RuntimeError as e:
                if "did not converge" in str(e):
                    obs.refuse("reference rotation did not converge within max_iter (documented refusal)")
                raise
            ref_cache[i] = (_Q(f, pool[i]), f)
        return ref_cache[i][0]

    nfits = 0
    with warnings.catch_warnings():
        warnings.simplefilter("ignore")
        # the aged object(s)
        model = zoo.make(base, **kw)
        rot = zoo.make(cls, **_rot_kw(case)) if cls in ROT else None
        current = None  # index of the last successful fit, None = unknown state
        facade = None
        hist = []
        npoints = {}
        pending_fault = None
        aged_bs = None
        for step, o in enumerate(case["ops"]):
            op, j = o[0], o[1]
            hist.append(f"{op}{j}" + (f"@{o[2]}" if len(o) > 2 else ""))
            obs.cell(f"op:{op}")
            tags = {"op": op, "history_has_refit": nfits >= 1, "step_kind": op}
            data = pool[j]
            snap = copy.deepcopy(data)
            wts = _weights_for(data, cfg, base)
            wsnap = copy.deepcopy(wts)
            try:
                if op == "fit":
                    fresh_ref = ref_for(j)  # also proves the data is fittable
                    _do_fit(model, base, data, wts)
                    if rot is not None:
                        try:
                            rot.fit(model)
                        except RuntimeError as e:
                            if "did not converge" in str(e):
                                obs.refuse("Varimax/Promax did not converge within max_iter (documented refusal)")
                            raise
                    current = j
                    nfits += 1
                    if nfits >= 2:
                        obs.count("refits")
                    if pending_fault:
                        obs.count("failpoint:refit_after_fault")
                        tags = dict(tags, after_injected_fault=True)
                        obs.note("last_fault", pending_fault)
                        pending_fault = None
                elif op == "intfit":
                    ref_for(j)  # the data is fittable (and the reference is memoised outside the failpoint)
                    if j not in npoints:
                        # number of statements a complete fit of this class on this data executes inside the package
                        probe = zoo.make(base, **kw)
                        probe_rot = zoo.make(cls, **_rot_kw(case)) if cls in ROT else None

                        def _full(m=probe, r=probe_rot):
                            _do_fit(m, base, data, wts)
                            if r is not None:
                                r.fit(m)

                        npoints[j] = failpoint.run(_full, -1, trace=True)["sites"]
                    # stratified by source file: the few statements of the numerical kernels are reached as often as
                    # the many of the preprocessing chain
                    sites = npoints[j]
                    files = sorted(set(sites))
                    fsel = files[int(float(o[2]) * len(files)) % len(files)]
                    idxs = [q for q, f in enumerate(sites) if f == fsel]
                    k = 1 + idxs[int(((float(o[2]) * 7919.0) % 1.0) * len(idxs))]

                    def _aged():
                        _do_fit(model, base, data, wts)
                        if rot is not None:
                            rot.fit(model)

                    res = failpoint.run(_aged, k)
                    if res["raised"]:
                        obs.count("failpoint:injected")
                        obs.cell("failpoint_file:" + str(res["where"]).split(":")[0])
                        obs.info.setdefault("failpoints", []).append(res["where"])
                        pending_fault = res["where"]
                    else:
                        obs.count("failpoint:not_reached")
                    current = None
                    continue
                elif op == "badfit":
                    bad = _bad(data)
                    try:
                        _do_fit(model, base, bad, wts)
                        obs.check("isolated_nan_fit_raises", False, "fit on data with an isolated NaN returned", tags=dict(tags, symptom="bad_fit_accepted"))
                    except Exception:
                        pass
                    current = None
                    continue
                elif op == "nocoordfit":
                    data = _nocoords(data)
                    snap = copy.deepcopy(data)
                    obs.count("nocoord_fits")
                    try:
                        _do_fit(model, base, data, None)
                    except Exception:
                        obs.count("op_raised:nocoordfit")
                    current = None
                    continue
                elif current is None:
                    continue
                elif op == "inttrans":
                    # a projection of other data interrupted at a statement inside the package: the fitted answers
                    # (compared right below) must not notice
                    fa = _facade(cls, base, model, rot)
                    if fa.name not in zoo.HAS_TRANSFORM:
                        continue
                    tgt = data
                    snap = copy.deepcopy(tgt)
                    key = ("t", current, j)
                    try:
                        if key not in npoints:
                            npoints[key] = failpoint.run(lambda: fa.transform(*tgt), -1, trace=True)["sites"]
                        sites = npoints[key]
                    except Exception:  # noqa: BLE001  (this data cannot be projected by this model at all)
                        obs.count("op_raised:inttrans_probe")
                        sites = []
                    if sites:
                        files = sorted(set(sites))
                        fsel = files[int(float(o[2]) * len(files)) % len(files)]
                        idxs = [q for q, f in enumerate(sites) if f == fsel]
                        k = 1 + idxs[int(((float(o[2]) * 7919.0) % 1.0) * len(idxs))]
                        res = failpoint.run(lambda: fa.transform(*tgt), k)
                        if res["raised"]:
                            obs.count("failpoint:injected_in_transform")
                            obs.info.setdefault("failpoints", []).append(res["where"])
                            tags = dict(tags, after_injected_fault=True)
                    data = tgt
                elif op in ("transform", "transform_other"):
                    tgt = pool[current] if op == "transform" else data
                    snap = copy.deepcopy(tgt)
                    fa = _facade(cls, base, model, rot)
                    if fa.name in zoo.HAS_TRANSFORM:
                        try:
                            fa.transform(*tgt)
                        except Exception:
                            obs.count("op_raised:" + op)
                    data = tgt
                elif op == "inverse":
                    # whether the call itself works is C03's business; here only later answers matter
                    fa = _facade(cls, base, model, rot)
                    if fa.name in zoo.HAS_INVERSE:
                        try:
                            fa.inverse_transform(*fa.scores())
                        except Exception:
                            obs.count("op_raised:inverse")
                elif op == "query":
                    fa = _facade(cls, base, model, rot)
                    fa.components()
                    fa.scores()
                elif op == "compute":
                    if callable(getattr(rot or model, "compute", None)):
                        (rot or model).compute()
                elif op == "serialize":
                    if callable(getattr(rot or model, "serialize", None)):
                        dt = (rot or model).serialize()
                        type(rot or model).deserialize(dt)
                elif op == "rotate":
                    rname = {"EOF": "EOFRotator", "ComplexEOF": "ComplexEOFRotator", "HilbertEOF": "HilbertEOFRotator", "MCA": "MCARotator", "CCA": "CPCCARotator", "CPCCA": "CPCCARotator", "ComplexMCA": "ComplexMCARotator"}.get(base)
                    if rname is None:
                        continue
                    r2 = zoo.make(rname, n_modes=2, power=int(1 + (step % 2)))
                    try:
                        r2.fit(model)
                    except RuntimeError as e:
                        if "did not converge" in str(e):
                            obs.count("rotate_refused_not_converged")
                            continue
                        raise
                    r2.components()
                    _model_still_usable(obs, model, tags)
                elif op == "bootstrap":
                    if base != "EOF":
                        continue
                    import xeofs as xe

                    bs = xe.validation.EOFBootstrapper(n_bootstraps=3, seed=1)
                    bs.fit(model)
                    _model_still_usable(obs, model, tags)
                    # the bootstrapper is an object with a history of its own: one instance is reused for every
                    # bootstrap operation of the case and must answer like the fresh one above
                    if aged_bs is None:
                        aged_bs = xe.validation.EOFBootstrapper(n_bootstraps=3, seed=1)
                    else:
                        obs.count("bootstrapper_refits")
                    aged_bs.fit(model)
                    for key in ("explained_variance", "components", "scores"):
                        _cmp_obj(obs, f"bootstrapper_refit:{key}", aged_bs.data[key], bs.data[key], dict(tags, symptom="answer_differs_from_fresh_fit", answer="bootstrapper." + key))
            finally:
                obs.count("inputs_immutability_checked")
                obs.check(
                    "user_input_unmodified",
                    _identical(data, snap),
                    f"user input object modified by '{op}' (history {hist})",
                    tags=dict(tags, symptom="input_mutated", cfg=cfg),
                )
                if wts is not None:
                    obs.check(
                        "user_weights_unmodified",
                        _identical(wts, wsnap),
                        f"user weights object modified by '{op}' (history {hist})",
                        tags=dict(tags, symptom="weights_mutated", cfg=cfg),
                    )
            # ---- compare answers with the sequential specification -------------------------------
            fa = _facade(cls, base, model, rot)
            got = _Q(fa, pool[current])
            obs.note("history", hist)
            _cmp(obs, f"after_{op}", got, ref_for(current), tags)
    obs.nontrivial = nfits >= 2 or any(o[0] in ("rotate", "bootstrap") for o in case["ops"])
    # fresh-vs-fresh: the reference itself must be reproducible, otherwise the comparison above is meaningless
    if ref_cache:
        i = sorted(ref_cache)[0]
        f2 = _fit_fresh(cls, pool[i], cfg, _rot_kw(case))
        _cmp(obs, "fresh_vs_fresh", _Q(f2, pool[i]), ref_cache[i][0], {"op": "reference_reproducibility"})


def _do_fit(model, base, data, weights=None):
    if base in CROSSC:
        wk = {"weights_X": weights[0], "weights_Y": weights[1]} if weights else {}
        model.fit(data[0], data[1], dim="time", **wk)
    elif base == "multi.CCA":
        model.fit(list(data), dim="time")
    else:
        model.fit(data[0], dim="time", **({"weights": weights[0]} if weights else {}))


def _facade(cls, base, model, rot):
    if rot is not None:
        return zoo.Fitted(cls, rot, 2 if base in CROSSC else 1)
    if base == "multi.CCA":
        return zoo.Fitted(base, model, 3)
    return zoo.Fitted(base, model, 2 if base in CROSSC else 1)


def _model_still_usable(obs, model, tags):
    for what in ("serialize", "deserialize", "compute"):
        try:
            if what == "serialize":
                dt = model.serialize()
            elif what == "deserialize":
                type(model).deserialize(model.serialize())
            else:
                model.compute()
            obs.check(f"model_{what}_after_derived_fit", True)
        except Exception as e:  # noqa: BLE001
            obs.check(
                f"model_{what}_after_derived_fit",
                False,
                f"model.{what}() raises {type(e).__name__}: {e} after a rotator/bootstrapper was fitted on it",
                tags=dict(tags, symptom="model_broken_by_derived_fit", exc=type(e).__name__, call=what),
            )


def evidence_extra(results, extras):
    """what the failpoint monitor observed: injections, distinct statement sites, files, and per class how many
    histories contained a refit / an interrupted fit"""
    sites, per_cls = {}, {}
    inj = refit_after = 0
    for r in results:
        c = r["case"]
        d = per_cls.setdefault(c["cls"], {"histories": 0, "with_interrupted_fit": 0, "ops": 0})
        d["histories"] += 1
        d["ops"] += len(c["ops"])
        if any(o[0] == "intfit" for o in c["ops"]):
            d["with_interrupted_fit"] += 1
        for w in (r.get("info") or {}).get("failpoints", []):
            sites[w] = sites.get(w, 0) + 1
        m = r.get("mon") or {}
        inj += m.get("failpoint:injected", 0)
        refit_after += m.get("failpoint:refit_after_fault", 0)
    files = {}
    for w, k in sites.items():
        f = str(w).split(":")[0]
        files[f] = files.get(f, 0) + k
    return {
        "failpoints": {"injected": inj, "successful_refits_after_a_fault": refit_after, "distinct_statement_sites": len(sites), "injections_per_file": dict(sorted(files.items()))},
        "histories_per_class": per_cls,
    }
