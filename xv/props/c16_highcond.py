"""C16 extra family 'highcond': data matrices whose own condition number reaches 1e4..1e6 (the stated
quantifier), i.e. covariance condition numbers 1e8..1e12.

In this regime the covariance spectrum is resolved only to eps*cond(C), so the value-level comparisons of
the main family cannot be made tightly.  What stays decidable -- and what a too aggressive eigenvalue cut-off
in the fractional matrix power destroys -- is invertibility: T and the stored Tinv are mutually inverse,
un-whitening restores the data and patterns survive the round trip (measured <= 1e-9; tolerance 1e-6)."""
import numpy as np

from .. import gen

CONDS = (4.0, 5.0, 6.0)  # log10 of cond(X)
ALPHAS = (0.0, 0.3, 0.7)


def cases(tier):
    out = []
    i = 0
    for ce in CONDS:
        for a in ALPHAS:
            for cplx in (False, True):
                out.append(dict(kind="highcond", cond_x_exp=ce, alpha=a, cplx=cplx, p=int(3 + i % 5), dseed=16600 + i, container="np"))
                i += 1
    return out


def run_case(case, obs):
    import xarray as xr
    from xeofs.preprocessing.whitener import Whitener

    alpha, cplx, p = case["alpha"], case["cplx"], case["p"]
    obs.tag(op="whitener", cls="Whitener", cplx=cplx, family="highcond", alpha_lt1=True)
    obs.cell("family:highcond", f"condX:1e{int(case['cond_x_exp'])}")
    rng = gen.rng_for(case["dseed"], 166)
    n = 4 * p + 10
    sig = 10.0 ** (-case["cond_x_exp"] * np.arange(p) / max(1, p - 1))  # singular values of X: 1 .. 1/cond(X)
    U = gen.orthonormal(n, p, rng, cplx, perp_ones=True)
    V = gen.orthonormal(p, p, rng, cplx)
    X = np.sqrt(n) * (U * sig) @ V.conj().T
    da = xr.DataArray(X, dims=("sample", "feature"), coords={"sample": np.arange(n), "feature": np.arange(p)})
    w = Whitener(alpha=alpha)
    Xw = w.fit_transform(da)
    T = np.asarray(w.T.transpose("feature", "mode").values)
    Tinv = np.asarray(w.Tinv.transpose("mode", "feature").values)
    obs.nontrivial = True
    I = np.eye(p)
    obs.close("highcond_T_Tinv_identity", T @ Tinv, I, 1e-6, scale=1.0, tags={"symptom": "T_Tinv_not_inverse"})
    obs.close("highcond_Tinv_T_identity", Tinv @ T, I, 1e-6, scale=1.0, tags={"symptom": "T_Tinv_not_inverse"})
    back = np.asarray(w.inverse_transform_data(Xw).transpose("sample", "feature").values)
    obs.close("highcond_unwhiten_restores_data", back, X, 1e-6, scale=float(np.abs(X).max()), tags={"symptom": "unwhitening_differs"})
    P = rng.standard_normal((p, 2)) + (1j * rng.standard_normal((p, 2)) if cplx else 0)
    Pda = xr.DataArray(P, dims=("feature", "mode"), coords={"feature": np.arange(p), "mode": [1, 2]})
    Pb = w.inverse_transform_components(w.transform_components(Pda))
    obs.close("highcond_pattern_roundtrip", np.asarray(Pb.transpose("feature", "mode").values), P, 1e-6, scale=float(np.abs(P).max()), tags={"symptom": "pattern_roundtrip_differs"})
