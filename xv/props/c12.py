"""C12 -- dask-backed and deferred fits equal the in-memory fit and stay lazy until asked.

Trace checker over M-DASK events (xv/dasksched.py): the harness installs its
own callable as dask's scheduler, so *every* computation any code path
triggers is an observed event carrying the innermost xeofs frame.

  fit(compute=False, check_nans=False), rotator.fit(compute=False):
        zero scheduler entries between call and return, all results dask-backed
  compute():   >= 1 entry; afterwards results are numpy and equal the eager numpy fit
  input_data:  dask-backed before and after compute() and after eager fits

Equality is asserted for every chunk layout x scheduler (sync, threads with
1/2/4/16 workers, random sleeps injected before tasks) against the numpy fit,
and the threaded result against the synchronous one (1e-12, fixed seed).
"""
import warnings

import numpy as np

from .. import dasksched, gen, xu, zoo

LEVEL = "exploration"
RULE = (
    "class x chunk layout x scheduler x solver grid (structured, seed independent) + seeded random draws of "
    "shapes/chunk sizes/worker counts/delay seeds; non-trivial = the dask input has more than one chunk or the "
    "scheduler is threaded; distinct = distinct canonical case record.  'schedules_observed' in the evidence counts "
    "distinct task-completion orders seen per (graph size) -- held means held on those, not on all linearisations"
)
ASSUMPTIONS = [
    "dask.config scheduler callable sees every compute (dask.compute, .values, .item, bool(), np.asarray on a dask array)",
    "numpy fit with the same parameters is the reference; randomised paths compared at 1e-6 on geometrically decaying spectra",
    "a chunk layout refused by dask's own SVD with NotImplementedError counts as refused",
]

LAYOUTS = ("single", "samples", "features", "both", "elementwise")
SCHEDS = ("sync", "threads1", "threads2", "threads4", "threads16")
SINGLES = ("EOF", "ExtendedEOF", "OPA", "POP", "SparsePCA", "HilbertEOF")
CROSS = ("MCA", "CCA", "CPCCA", "RDA")
ROTS = ("EOFRotator", "MCARotator", "CPCCARotator")
ALL = SINGLES + CROSS + ROTS


def required(tier):
    cover = [f"cls:{c}" for c in ALL if c != "HilbertEOF"] + [f"layout:{l}" for l in LAYOUTS] + [f"sched:{s}" for s in SCHEDS]
    cover += ["mode:lazy", "mode:eager"] + [f"decided:{c}" for c in ALL if c != "HilbertEOF"]
    cover += ["cross:use_pca", "cross:use_pca:single", "cross:use_pca:samples", "nans:eager_dask"]
    return {"mon": ["sched_entries_compute", "lazy_fits_observed", "behaviour_transform_compared", "input_source_reads"], "cover": cover, "max_refused_share": 0.6}


def _case(rng, cls=None, layout=None, sched=None, mode=None, solver=None):
    cls = cls or str(rng.choice(ALL))
    layout = layout or str(rng.choice(LAYOUTS, p=[0.2, 0.25, 0.25, 0.25, 0.05]))
    sched = sched or str(rng.choice(SCHEDS))
    mode = mode or str(rng.choice(["lazy", "eager"], p=[0.7, 0.3]))
    c = dict(
        cls=cls,
        layout=layout,
        sched=sched,
        mode=mode,
        solver=solver or str(rng.choice(["auto", "full", "randomized"], p=[0.4, 0.4, 0.2])),
        n=int(rng.integers(16, 33)),
        fa=int(rng.integers(2, 5)),
        fb=int(rng.integers(2, 5)),
        k=int(rng.integers(2, 4)),
        power=int(rng.integers(1, 3)),
        delay=bool(rng.random() < 0.6),
        dseed=int(rng.integers(0, 2**31 - 1)),
        check_nans=bool(rng.random() < 0.3) if mode == "eager" else False,
    )
    if cls in CROSS or cls in ("MCARotator", "CPCCARotator"):
        # fractional whitening without PCA needs a well-conditioned covariance: n well above p_x + p_y
        c["n"] = max(c["n"], c["fa"] * c["fb"] + 6 + 8)
    if layout == "elementwise" and cls in ("CCA", "CPCCA", "RDA", "CPCCARotator"):
        c["layout"] = layout = "both"  # one-element chunks need tiny arrays, whitening needs many samples
    if layout == "elementwise":
        c.update(n=8, fa=2, fb=2, k=2)
    if cls == "SparsePCA" and layout not in ("single", "features"):
        # documented requirement of the sparse solver: data chunked along the feature dimensions only
        c["layout"] = "features"
    return c


def cases(tier, seed):
    out = []
    i = 0
    # every class x layout (lazy, sync), every class x scheduler (lazy, 'both' or 'samples' layout)
    for cls in ALL:
        for layout in LAYOUTS:
            if layout == "elementwise" and cls not in ("EOF", "MCA", "EOFRotator"):
                continue
            out.append(_case(gen.rng_for(1201, i), cls, layout, "sync", "lazy"))
            i += 1
        for sched in SCHEDS[1:]:
            out.append(_case(gen.rng_for(1202, i), cls, "samples" if i % 2 else "features", sched, "lazy"))
            i += 1
        out.append(_case(gen.rng_for(1203, i), cls, "samples", "threads4", "eager"))
        i += 1
    # cross-set models with a PCA pre-reduction to a few modes, one-chunk and many-chunk layouts
    for cls in CROSS:
        for layout in ("single", "samples", "both"):
            c = _case(gen.rng_for(1204, i), cls, layout, "sync", "lazy")
            c["dseed"] = c["dseed"] - c["dseed"] % 4 + 1
            out.append(c)
            i += 1
    # eager fits of dask-backed data with fully missing features / samples (check_nans=True)
    for cls in ALL:
        if cls in ("OPA", "POP", "ExtendedEOF", "HilbertEOF"):
            continue
        c = _case(gen.rng_for(1205, i), cls, "samples" if i % 2 else "both", "sync" if i % 3 else "threads2", "eager")
        c["check_nans"] = True
        c["dseed"] = c["dseed"] - c["dseed"] % 2
        if cls == "SparsePCA":
            c["layout"] = "features"
        out.append(c)
        i += 1
    nrand = 40 if tier == "quick" else 1500
    for j in range(nrand):
        out.append(_case(gen.rng_for(seed, 12, j)))
    return out


# ------------------------------------------------------------------------------------------
def _data(case):
    rng = gen.rng_for(case["dseed"], 3)
    n, fa, fb = case["n"], case["fa"], case["fb"]
    p = fa * fb
    r = min(n - 2, p)
    s = 0.6 ** np.arange(r)
    M, _, _ = gen.low_rank(n, p, s, rng)
    # every sixth case: features with a large offset (|mean|/std ~ 1e5) -- a one-pass variance
    # sqrt(E[x^2]-E[x]^2) on the chunked path would lose ~1e-6 there, the two-pass in-memory path does not
    off_scale = 1e5 if case["dseed"] % 6 == 0 else 1.0
    X = xu.make_da(M + rng.standard_normal(p) * off_scale * np.abs(M).std(), (fa, fb), ("lat", "lon"))
    q = max(3, min(6, p))
    s2 = 0.55 ** np.arange(min(n - 2, q))
    M2, _, _ = gen.low_rank(n, q, s2, rng)
    # correlate the second field with the first so that cross-set modes are well separated
    M2[:, : min(q, p)] += 0.7 * M[:, : min(q, p)]
    Y = xu.make_da(M2 + rng.standard_normal(q), (q,), ("x",))
    if _has_nans(case):
        # fully missing features (one latitude row of X, one cell of Y) and one fully missing sample in both fields:
        # the NaN bookkeeping (Sanitizer) has its own dask branch; reference = the same data held in memory
        X = X.copy()
        Y = Y.copy()
        X[:, int(rng.integers(0, fa)), :] = np.nan
        if case["cls"] in CROSS or case["cls"] in ("MCARotator", "CPCCARotator"):
            Y[:, int(rng.integers(0, q))] = np.nan
        t = int(rng.integers(0, n))
        X[t] = np.nan
        Y[t] = np.nan
    return X, Y


def _has_nans(case):
    return bool(case["mode"] == "eager" and case["check_nans"] and case["dseed"] % 2 == 0 and case["cls"] not in ("OPA", "POP", "ExtendedEOF", "HilbertEOF"))


def _chunks(case, da):
    rng = gen.rng_for(case["dseed"], 4)
    lay = case["layout"]
    ch = {d: -1 for d in da.dims}
    if lay in ("samples", "both"):
        ch["time"] = int(rng.integers(3, max(4, da.sizes["time"] // 2)))
    if lay in ("features", "both"):
        for d in da.dims:
            if d != "time" and da.sizes[d] > 1:
                ch[d] = int(rng.integers(1, da.sizes[d]))
    if lay == "elementwise":
        ch = {d: 1 for d in da.dims}
    return ch


class _Source:
    """array-like 'file' behind the dask input: every chunk that is really loaded goes through __getitem__"""

    def __init__(self, a):
        self.a = np.asarray(a)
        self.shape, self.dtype, self.ndim = self.a.shape, self.a.dtype, self.a.ndim
        self.reads = []

    def __getitem__(self, idx):
        self.reads.append(1)  # list.append is atomic: worker threads may load chunks concurrently
        return self.a[idx]


def _lazy(da_, chunks):
    """the same DataArray backed by a dask array that loads its chunks from a counting source"""
    import dask.array as dsk
    import xarray as xr

    src = _Source(da_.values)
    ch = tuple(chunks.get(d, -1) for d in da_.dims)
    arr = dsk.from_array(src, chunks=ch, lock=False, meta=np.empty((0,) * src.ndim, dtype=src.dtype))
    return xr.DataArray(arr, dims=da_.dims, coords=da_.coords, name=da_.name, attrs=da_.attrs), src


def _kw(case, compute):
    cls = case["cls"]
    base = {"EOFRotator": "EOF", "MCARotator": "MCA", "CPCCARotator": "CPCCA"}.get(cls, cls)
    k = case["k"]
    kw = dict(n_modes=k, solver=case["solver"], random_state=7, compute=compute, check_nans=case["check_nans"] if compute else False)
    if base in SINGLES and case["dseed"] % 3 == 0:
        kw.update(standardize=True)
    if base == "ExtendedEOF":
        kw.update(tau=1, embedding=2)
    if base == "OPA":
        kw.update(tau_max=2, n_pca_modes=k + 1)
    if base == "POP":
        kw.update(n_pca_modes=k + 1)
    if base == "SparsePCA":
        kw.update(alpha=1e-4, beta=1e-4, max_iter=4)
    if base in CROSS:
        kw.update(use_pca=False)
        if case["dseed"] % 4 == 1:
            # PCA pre-reduction to a few modes: the pre-step has its own back-end dispatch (and its own ways of
            # touching the data); q = number of features of the second field, see _data
            q = max(3, min(6, case["fa"] * case["fb"]))
            kw.update(use_pca=True, n_pca_modes=int(min(k + 1, q)))
        if base == "CPCCA":
            kw.update(alpha=0.5)
    return base, kw


def _weights(case, X, Y, base):
    """every third EOF / MCA case carries user weights; they are dask-backed exactly when the data is (weights
    defined lazily from other lazy fields are ordinary in practice) -- a deferred fit must not evaluate them"""
    if base not in ("EOF", "MCA") or case["dseed"] % 3 != 1:
        return None

    def one(D):
        w = D.isel(time=0, drop=True) * 0.0 + 1.0
        ramp = 0.5 + 0.25 * (np.arange(w.size).reshape(w.shape) % 4)
        w = w + (ramp - 1.0)
        return w.chunk({d: 1 for d in list(w.dims)[:1]}) if xu.is_dask(D) else w

    return [one(X), one(Y)] if base in CROSS else [one(X)]


def _fit(case, X, Y, compute):
    base, kw = _kw(case, compute)
    data = [X, Y] if base in CROSS else [X]
    f = zoo.fit(base, data, "time", kw, weights=_weights(case, X, Y, base))
    return f


def _rot(case, f, compute):
    cls = case["cls"]
    with warnings.catch_warnings():
        warnings.simplefilter("ignore")
        r = zoo.make(cls, n_modes=case["k"], power=case["power"], compute=compute, **({} if compute else {"max_iter": 8}))
        r.fit(f.model)
    return r


def _entries(model):
    return {k: v for k, v in model.data.items()}


def _is_input(key):
    return key.startswith("input_data")


NO_SIGN_CONVENTION = ("OPA", "SparsePCA")  # these classes never fix the sign of a mode
SIGNED_ENTRIES = ("components", "scores", "filter_patterns", "components_normal")


def _compare(obs, name, got, ref, tol, tags, cls=None):
    sign = None
    if cls in NO_SIGN_CONVENTION and "scores" in got and "scores" in ref:
        a = np.asarray(got["scores"].transpose(*ref["scores"].dims).values)
        b = np.asarray(ref["scores"].values)
        ax = ref["scores"].dims.index("mode")
        dot = np.sum(np.moveaxis(a, ax, -1) * np.moveaxis(b, ax, -1), axis=0)
        sign = np.where(dot < 0, -1.0, 1.0)
        obs.note("sign_aligned_modes", int((sign < 0).sum()))
    if cls == "POP":
        # conjugate pairs tie in the ordering criterion: compare order-free invariants only
        for key in ("eigenvalues", "norms", "damping_times"):
            if key in got and key in ref:
                a = np.sort(np.abs(np.asarray(got[key].values)))
                b = np.sort(np.abs(np.asarray(ref[key].values)))
                obs.close(f"{name}:{key}:sorted_abs", a, b, tol, tags=dict(tags, entry=key, symptom="dask_ne_numpy"))
        return
    for key, rv in ref.items():
        if _is_input(key) or key not in got:
            if key not in got:
                obs.check(f"{name}:entry_present", False, f"result entry '{key}' missing", tags=dict(tags, entry=key))
            continue
        gv = got[key]
        try:
            gv = gv.transpose(*rv.dims)
        except Exception:
            obs.check(f"{name}:dims", False, f"entry '{key}' dims {gv.dims} vs {rv.dims}", tags=dict(tags, entry=key))
            continue
        a = np.asarray(gv.values)
        b = np.asarray(rv.values)
        if a.dtype.kind not in "fciu" or b.dtype.kind not in "fciu":
            obs.check(f"{name}:{key}", np.array_equal(a, b), tags=dict(tags, entry=key))
            continue
        if sign is not None and key in SIGNED_ENTRIES and "mode" in rv.dims:
            ax = rv.dims.index("mode")
            shp = [1] * a.ndim
            shp[ax] = -1
            a = a * sign.reshape(shp)
        scale = float(np.nanmax(np.abs(b))) if b.size else 1.0
        obs.close(f"{name}:{key}", a, b, tol, scale=max(scale, 1e-300), tags=dict(tags, entry=key, symptom="dask_ne_numpy"))


BEHAVIOUR = ("EOF", "EOFRotator", "MCA", "CCA", "CPCCA", "RDA", "MCARotator", "CPCCARotator")


def _behaviour(obs, case, cls, m, ref_m, Xd, Yd, X, Y, tol, tags):
    """the computed model must also BEHAVE like the in-memory one: transform of the dask-backed training data and
    of a dask-backed subset of it, and the reconstruction from its scores (classes with a sign convention only)"""
    if cls not in BEHAVIOUR:
        return
    nfld = 2 if (cls in CROSS or cls in ("MCARotator", "CPCCARotator")) else 1
    fa, fb = zoo.Fitted(cls, m, nfld), zoo.Fitted(cls, ref_m, nfld)
    tol = max(tol, 1e-8)
    sub = slice(1, None, 2)
    with warnings.catch_warnings():
        warnings.simplefilter("ignore")
        for nm, da_, db_ in (("train", (Xd, Yd), (X, Y)), ("subset", (Xd.isel(time=sub), Yd.isel(time=sub)), (X.isel(time=sub), Y.isel(time=sub)))):
            ta = fa.transform(*da_[:nfld])
            tb = fb.transform(*db_[:nfld])
            for i_, (a, b_) in enumerate(zip(ta, tb)):
                b_ = b_.dropna("time", how="all") if "time" in b_.dims else b_
                a = a.sel(time=b_["time"]) if "time" in a.dims else a
                a = np.asarray(a.transpose(*b_.dims).values)
                b_ = np.asarray(b_.values)
                obs.close(f"dask_vs_numpy:transform_{nm}[{i_}]", a, b_, tol, scale=float(np.nanmax(np.abs(b_))), tags=dict(tags, op="transform", entry="transform", symptom="dask_ne_numpy"))
        obs.count("behaviour_transform_compared")
        ra = fa.inverse_transform(*fa.scores())
        rb = fb.inverse_transform(*fb.scores())
        for i_, (a, b_) in enumerate(zip(ra, rb)):
            a = np.asarray(a.transpose(*b_.dims).values)
            b_ = np.asarray(b_.values)
            obs.close(f"dask_vs_numpy:reconstruction[{i_}]", a, b_, tol, scale=float(np.nanmax(np.abs(b_))), tags=dict(tags, op="inverse_transform", entry="reconstruction", symptom="dask_ne_numpy"))


def run_case(case, obs):
    cls, layout, sched, mode = case["cls"], case["layout"], case["sched"], case["mode"]
    if _has_nans(case):
        obs.cell("nans:eager_dask")
        obs.tag(nans=True)
    obs.tag(cls=cls, mode=mode)
    obs.cell(f"cls:{cls}", f"layout:{layout}", f"sched:{sched}", f"mode:{mode}", f"solver:{case['solver']}")
    if _kw(case, False)[1].get("use_pca"):
        obs.cell("cross:use_pca", f"cross:use_pca:{layout}")
        obs.tag(use_pca=True)
    X, Y = _data(case)
    if _weights(case, X, Y, _kw(case, False)[0]) is not None:
        obs.cell("user_weights:lazy")
        obs.tag(user_weights=True)
    is_rot = cls in ROTS
    obs.nontrivial = layout != "single" or sched != "sync"
    # ---- numpy reference (no dask anywhere) ------------------------------------------------
    with warnings.catch_warnings():
        warnings.simplefilter("ignore")
        # deferred mode: the reference runs the same deferred code path on numpy data (fixed iteration
        # counts instead of convergence tests in the iterative solvers), then compute()
        ref_f = _fit(case, X, Y, mode != "lazy")
        if mode == "lazy":
            ref_f.model.compute()
        if is_rot and mode == "lazy":
            # same fixed iteration count on both sides (no convergence test when compute=False)
            ref_m = _rot(case, ref_f, False)
            ref_m.compute()
        else:
            ref_m = _rot(case, ref_f, True) if is_rot else ref_f.model
    ref = {k: v.copy() for k, v in _entries(ref_m).items()}
    exact = case["solver"] == "full" or (case["solver"] == "auto" and not xu.is_dask(X))  # tolerance class decided below
    tol_eq = 1e-9 if case["solver"] == "full" else 1e-5
    if cls in ("SparsePCA",):
        tol_eq = 1e-5
    if is_rot:
        # lazy: identical iteration count on both sides; eager: both iterate until rtol=1e-8 on the
        # criterion, which pins the rotation matrix only to ~sqrt(rtol)
        tol_eq = max(tol_eq, 1e-6) if mode == "lazy" else 2e-3

    workers = {"sync": 1, "threads1": 1, "threads2": 2, "threads4": 4, "threads16": 16}[sched]
    S = dasksched.Sched("sync" if sched == "sync" else "threads", workers, delay_p=0.3 if case["delay"] else 0.0, seed=case["dseed"]).install()
    try:
        Xd, srcX = _lazy(X, _chunks(case, X))
        Yd, srcY = _lazy(Y, {"time": _chunks(case, X)["time"], "x": 1 if layout == "elementwise" else (-1 if layout in ("single", "samples") else 2)})
        tags = {"layout": layout, "sched": sched}
        try:
            if mode == "lazy":
                S.phase = "fit"
                with warnings.catch_warnings():
                    warnings.simplefilter("ignore")
                    f = _fit(case, Xd, Yd, False)
                m = f.model
                obs.count("lazy_fits_observed")
                n_fit = S.count("fit")
                sites = sorted({str(s) for s in S.sites("fit")})
                obs.check(
                    "no_compute_during_deferred_fit",
                    n_fit == 0,
                    f"{n_fit} scheduler entr(ies) during fit(compute=False, check_nans=False); innermost xeofs frames: {sites[:4]}",
                    tags=dict(tags, op="fit", symptom="eager_compute_in_deferred_fit", site=(sites[0].rsplit(":", 1)[0] if sites else None)),
                )
                notlazy = sorted(k for k, v in _entries(m).items() if not xu.is_dask(v))
                obs.check(
                    "results_dask_backed_after_deferred_fit",
                    not notlazy,
                    f"entries not dask-backed after deferred fit: {notlazy}",
                    tags=dict(tags, op="fit", symptom="result_not_lazy", entries=",".join(notlazy)),
                )
                if is_rot:
                    S.phase = "rotfit"
                    r = _rot(case, f, False)
                    n_rot = S.count("rotfit")
                    sites = sorted({str(s) for s in S.sites("rotfit")})
                    obs.check(
                        "no_compute_during_deferred_rotator_fit",
                        n_rot == 0,
                        f"{n_rot} scheduler entr(ies) during rotator.fit(compute=False): {sites[:4]}",
                        tags=dict(tags, op="rotator_fit", symptom="eager_compute_in_deferred_fit", site=(sites[0].rsplit(":", 1)[0] if sites else None)),
                    )
                    notlazy = sorted(k for k, v in _entries(r).items() if not xu.is_dask(v))
                    obs.check("rotator_results_dask_backed", not notlazy, f"not dask-backed: {notlazy}", tags=dict(tags, op="rotator_fit", symptom="result_not_lazy", entries=",".join(notlazy)))
                    m = r
                if cls != "OPA":
                    bad = [k for k, v in _entries(m).items() if _is_input(k) and not xu.is_dask(v)]
                    obs.check("input_data_lazy_before_compute", not bad, f"{bad}", tags=dict(tags, symptom="input_data_materialised"))
                S.phase = "compute"
                m.compute()
                n_c = S.count("compute")
                obs.count("sched_entries_compute", n_c)
                obs.check("compute_triggers_scheduler", n_c >= 1, "compute() did not reach the scheduler", tags=tags)
            else:
                S.phase = "eagerfit"
                with warnings.catch_warnings():
                    warnings.simplefilter("ignore")
                    f = _fit(case, Xd, Yd, True)
                    m = _rot(case, f, True) if is_rot else f.model
                obs.count("sched_entries_compute", S.count("eagerfit"))
                obs.check("eager_fit_triggers_scheduler", S.count("eagerfit") >= 1, tags=tags)
        except NotImplementedError as e:
            msg = str(e)
            if "chunked in one dimension" in msg or "tall-and-skinny" in msg:
                obs.refuse("dask svd refuses this chunk layout")
            if "Complex data together with dask" in msg:
                obs.refuse("documented: complex + dask not implemented")
            raise
        except ValueError as e:
            if "Data not chunked correctly" in str(e):
                obs.refuse("sparse solver requires chunks along the feature dimensions only")
            if "All chunks must be a square matrix" in str(e):
                obs.refuse("dask's own lu/inv refuses this chunk layout")
            raise
        got = _entries(m)
        still = [k for k, v in got.items() if not _is_input(k) and xu.is_dask(v)]
        obs.check("results_numpy_after_compute", not still, f"still dask-backed after compute: {still}", tags=dict(tags, symptom="result_lazy_after_compute"))
        if cls != "OPA":  # OPA stores its normalised PC scores under that name, not the input
            bad = [k for k, v in got.items() if _is_input(k) and not xu.is_dask(v)]
            obs.check(
                "input_data_never_materialised",
                not bad and any(_is_input(k) for k in got),
                f"input data entries replaced by an in-memory copy (or missing): {bad}",
                tags=dict(tags, symptom="input_data_materialised"),
            )
        S.phase = "after"
        if cls != "OPA":
            # 'dask-backed' is not enough: a persisted / cached copy is still typed as a dask array.  Evaluating the
            # stored input must go back to the source the user's array loads its chunks from.
            for k_, v_ in got.items():
                if _is_input(k_) and xu.is_dask(v_):
                    src = srcY if k_.endswith("2") else srcX
                    del src.reads[:]
                    np.asarray(v_.values)
                    obs.count("input_source_reads", len(src.reads))
                    obs.check(
                        "stored_input_loads_from_source",
                        len(src.reads) > 0,
                        f"evaluating model.data['{k_}'] read no chunk of the user's source array: the model holds a materialised copy",
                        tags=dict(tags, symptom="input_data_materialised", entry=k_, how="no_source_reads"),
                    )
        path_dependent = False
        if is_rot and "rotation_matrix" in got and "rotation_matrix" in ref:
            Rg = np.asarray(got["rotation_matrix"].values)
            Rr = np.asarray(ref["rotation_matrix"].values)
            path_dependent = bool(Rg.shape != Rr.shape or np.max(np.abs(Rg - Rr)) > 1e-6)
        if path_dependent:
            # The Varimax iterate R = U V^T (polar factor of a k x k matrix) is not unique while that matrix is
            # (nearly) singular; with the fixed, small iteration count of a deferred fit the dask path
            # (svd_compressed) and the numpy path (LAPACK) may then sit on different, equally legitimate iterates.
            # What a rotation cannot change is the field reconstructed from the rotated modes: compare that.
            obs.cell("rotation:path_dependent_iterates")
            nfld = 2 if cls in ("MCARotator", "CPCCARotator") else 1
            with warnings.catch_warnings():
                warnings.simplefilter("ignore")
                fa, fb = zoo.Fitted(cls, m, nfld), zoo.Fitted(cls, ref_m, nfld)
                ra = fa.inverse_transform(*fa.scores())
                rb = fb.inverse_transform(*fb.scores())
            for i_, (a, b_) in enumerate(zip(ra, rb)):
                a = np.asarray(a.transpose(*b_.dims).values)
                b_ = np.asarray(b_.values)
                obs.close(f"dask_vs_numpy:rotation_invariant_reconstruction[{i_}]", a, b_, max(tol_eq, 1e-6), scale=float(np.nanmax(np.abs(b_))), tags=dict(tags, entry="reconstruction", symptom="dask_ne_numpy"))
        else:
            _compare(obs, "dask_vs_numpy", got, ref, tol_eq, tags, cls=cls)
            _behaviour(obs, case, cls, m, ref_m, Xd, Yd, X, Y, tol_eq, tags)
        # history: further compute() calls on the same object must neither touch the stored input
        # nor change any result (the allow_compute flag has to survive the rebuild done by compute())
        if cls != "OPA" and callable(getattr(m, "compute", None)):
            S.phase = "recompute"
            m.compute()
            m.compute()
            got2 = _entries(m)
            bad = [k for k, v in got2.items() if _is_input(k) and not xu.is_dask(v)]
            obs.check(
                "input_data_lazy_after_repeated_compute",
                not bad,
                f"input data entries materialised by a repeated compute(): {bad}",
                tags=dict(tags, op="recompute", symptom="input_data_materialised"),
            )
            _compare(obs, "after_recompute", got2, {k: v for k, v in got.items()}, 1e-12, dict(tags, op="recompute"), cls=None)
        obs.cell(f"decided:{cls}")
        obs.note("orders", S.orders)
        obs.note("n_entries", len(S.entries))
    finally:
        S.uninstall()


def evidence_extra(results, extras):
    orders = {}
    entries = 0
    for r in results:
        for nt, h in r.get("info", {}).get("orders", []) or []:
            orders.setdefault(nt, set()).add(h)
        entries += r.get("info", {}).get("n_entries", 0) or 0
    return {
        "scheduler_entries_observed": entries,
        "graph_executions_observed": sum(len(v) for v in orders.values()),
        "schedules_observed": {str(k): len(v) for k, v in sorted(orders.items())[:60]},
        "distinct_task_completion_orders": sum(len(v) for v in orders.values()),
    }
